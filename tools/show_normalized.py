#!/usr/bin/env python3
"""show_normalized.py <benign id|patch file> : apply the patch to a scratch copy and print the normaliser's log
plus the normalised source of every function the normaliser touched (debug aid)."""
import ast, os, shutil, subprocess, sys, tempfile
VERIF = os.path.dirname(os.path.dirname(os.path.abspath(__file__)))
sys.path.insert(0, VERIF)
from afkverif.model import Program
arg = sys.argv[1]
patch = arg if os.path.isfile(arg) else os.path.join(VERIF, "benign", arg, "patch.diff")
d = tempfile.mkdtemp(prefix="shownorm-")
try:
    shutil.copytree(os.environ.get("VERIF_SRC", "/repo") + "/afkak", os.path.join(d, "afkak"), ignore=shutil.ignore_patterns("test", "__pycache__"))
    subprocess.check_call(["patch", "-s", "-p1", "-d", d, "-i", patch])
    prog = Program(d)
    for m in prog.modules.values():
        if m.normalize_log:
            print("==", m.name)
            for l in m.normalize_log:
                print("  ", l)
            if len(sys.argv) > 2:
                for q in sys.argv[2:]:
                    if q in prog.funcs and prog.funcs[q].module is m:
                        print(ast.unparse(prog.funcs[q].node))
finally:
    shutil.rmtree(d, ignore_errors=True)

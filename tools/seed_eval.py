#!/usr/bin/env python3
"""seed_eval.py <patch.diff> [--in-repo]: run every property's quick check against /repo with the patch applied.

Default: a scratch copy of /repo/afkak under $TMPDIR is patched and analysed with --root (removed afterwards).
--in-repo: `git -C /repo apply` the patch, run the registered commands against /repo itself, then
`git -C /repo checkout -- .` (the procedure the task prescribes for the final confirmation).
Prints, per property, OK / VIOLATION (+ the failing rule instances) / ANALYSIS-ERROR.
"""
import os
import shutil
import subprocess
import sys
import tempfile

VERIF = os.path.dirname(os.path.dirname(os.path.abspath(__file__)))


def run_checks(root):
    out = {}
    for i in range(1, 21):
        pid = "C%02d" % i
        cmd = ["python3-vt", "-m", "afkverif.check", pid, "--tier", "quick"] + (["--root", root] if root else [])
        p = subprocess.run(cmd, cwd=VERIF, capture_output=True, text=True)
        fails = [l.strip() for l in p.stdout.splitlines() if l.strip().startswith("FAIL ") or "ANALYSIS-ERROR" in l]
        out[pid] = (p.returncode, fails)
    return out


def main():
    patch = os.path.abspath(sys.argv[1])
    in_repo = "--in-repo" in sys.argv
    if in_repo:
        subprocess.check_call(["git", "-C", "/repo", "apply", patch])
        try:
            res = run_checks(None)
        finally:
            subprocess.check_call(["git", "-C", "/repo", "checkout", "--", "."])
    else:
        d = tempfile.mkdtemp(prefix="seedeval-")
        try:
            shutil.copytree("/repo/afkak", os.path.join(d, "afkak"), ignore=shutil.ignore_patterns("test", "__pycache__"))
            subprocess.check_call(["patch", "-s", "-p1", "-d", d, "-i", patch])
            res = run_checks(d)
        finally:
            shutil.rmtree(d, ignore_errors=True)
    caught = []
    for pid, (rc, fails) in sorted(res.items()):
        if rc != 0:
            caught.append(pid)
            print("%s rc=%d" % (pid, rc))
            for f in fails[:6]:
                print("    " + f[:200])
    print("CAUGHT BY: %s" % (", ".join(caught) if caught else "nothing"))
    # stale evidence written for a scratch root must not be left behind
    if not in_repo:
        subprocess.run(["git", "-C", VERIF, "checkout", "--", "evidence"], capture_output=True)
    return 0


if __name__ == "__main__":
    sys.exit(main())

#!/usr/bin/env python3
"""corpus_refresh.py : after /repo HEAD moved (a fix: commit), regenerate every filed patch (seeded/, benign/) that no
longer applies with plain `git apply` but still applies with fuzz, so that `git -C /repo apply <file>` keeps working.
Patches that do not apply even with fuzz are listed for manual porting.  Nothing is changed in /repo."""
import os
import shutil
import subprocess
import sys

VERIF = os.path.dirname(os.path.dirname(os.path.abspath(__file__)))
WT = "/tmp/corpus_refresh_wt"


def sh(cmd, cwd=None):
    p = subprocess.run(cmd, cwd=cwd, capture_output=True, text=True)
    return p.returncode, p.stdout + p.stderr


def main():
    subprocess.run(["git", "-C", "/repo", "worktree", "remove", "--force", WT], capture_output=True)
    shutil.rmtree(WT, ignore_errors=True)
    subprocess.check_call(["git", "-C", "/repo", "worktree", "add", "-q", WT, "HEAD"])
    refreshed, broken = [], []
    try:
        for kind in ("seeded", "benign"):
            base = os.path.join(VERIF, kind)
            for d in sorted(os.listdir(base)):
                pth = os.path.join(base, d, "patch.diff")
                if not os.path.isfile(pth):
                    continue
                sh(["git", "checkout", "-q", "--", "."], cwd=WT)
                sh(["git", "clean", "-fdq"], cwd=WT)
                rc, _ = sh(["git", "apply", "--check", pth], cwd=WT)
                if rc == 0:
                    continue
                rc, out = sh(["patch", "-s", "-p1", "--fuzz=3", "--no-backup-if-mismatch", "-i", pth], cwd=WT)
                if rc != 0:
                    broken.append("%s/%s" % (kind, d))
                    continue
                rc, diff = sh(["git", "diff", "--", "afkak"], cwd=WT)
                with open(pth, "w") as fh:
                    fh.write(diff)
                refreshed.append("%s/%s" % (kind, d))
    finally:
        subprocess.run(["git", "-C", "/repo", "worktree", "remove", "--force", WT], capture_output=True)
        shutil.rmtree(WT, ignore_errors=True)
    print("refreshed:", refreshed)
    print("need manual porting:", broken)
    sys.exit(1 if broken else 0)


if __name__ == "__main__":
    main()

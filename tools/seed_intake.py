#!/usr/bin/env python3
"""seed_intake.py <PROP> <agent _seed dir> : confirm and file the independent breaking changes a sub-agent produced.

For each change{k}.diff: in a scratch worktree of /repo HEAD (removed afterwards)
  1. the demonstration passes (exit 0) on the unchanged tree,
  2. the patch applies; the pinned suite still gives 310 passed / 1 failed (the baseline failure),
  3. the demonstration fails (exit != 0) with the patch applied,
then every property's quick check is run against a patched scratch copy, and the change is filed under
/verif/seeded/<PROP>-<k>/ (patch.diff, demo.py, notes.md, meta.json) only if 1-3 were confirmed.
"""
import json
import os
import re
import shutil
import subprocess
import sys

VERIF = os.path.dirname(os.path.dirname(os.path.abspath(__file__)))
PY = "/venv/bin/python"
TEST = [PY, "-m", "pytest", "-q", "-p", "no:cacheprovider", "--timeout=900", "--continue-on-collection-errors"]


def sh(cmd, cwd=None, timeout=900):
    p = subprocess.run(cmd, cwd=cwd, capture_output=True, text=True, timeout=timeout)
    return p.returncode, (p.stdout + p.stderr)


def main():
    prop, sdir = sys.argv[1], os.path.abspath(sys.argv[2])
    offset = int(sys.argv[3]) if len(sys.argv) > 3 else 0  # round 2 files change1..3 are filed as <PROP>-(k+offset)
    props = {json.loads(l)["id"]: json.loads(l) for l in open(os.path.join(VERIF, "properties.jsonl"))}
    for k in (1, 2, 3):
        diff = os.path.join(sdir, "change%d.diff" % k)
        demo = os.path.join(sdir, "demo%d.py" % k)
        notes = os.path.join(sdir, "notes%d.md" % k)
        if not (os.path.exists(diff) and os.path.exists(demo)):
            continue
        wt = "/tmp/intake_%s_%d" % (prop, k)
        subprocess.run(["git", "-C", "/repo", "worktree", "remove", "--force", wt], capture_output=True)
        shutil.rmtree(wt, ignore_errors=True)
        subprocess.check_call(["git", "-C", "/repo", "worktree", "add", "-q", wt, "HEAD"])
        ran = []
        try:
            os.makedirs(os.path.join(wt, "_seed"))
            shutil.copy(demo, os.path.join(wt, "_seed", "demo.py"))
            rc0, out0 = sh([PY, "_seed/demo.py"], cwd=wt, timeout=300)
            ran.append("demo on unchanged tree: exit %d" % rc0)
            rca, outa = sh(["git", "apply", diff], cwd=wt)
            ran.append("git apply: exit %d" % rca)
            rct, outt = sh(TEST, cwd=wt)
            m = re.search(r"(\d+) failed, (\d+) passed", outt)
            suite = m.group(0) if m else outt.strip().splitlines()[-1][:80]
            ran.append("pinned suite with the change: %s" % suite)
            rc1, out1 = sh([PY, "_seed/demo.py"], cwd=wt, timeout=300)
            ran.append("demo with the change: exit %d" % rc1)
            confirmed = rc0 == 0 and rca == 0 and rc1 != 0 and bool(m) and m.group(1) == "1" and m.group(2) == "310"
        finally:
            subprocess.run(["git", "-C", "/repo", "worktree", "remove", "--force", wt], capture_output=True)
            shutil.rmtree(wt, ignore_errors=True)
        rce, oute = sh(["python3-vt", os.path.join(VERIF, "tools", "seed_eval.py"), diff], cwd=VERIF)
        caught = [l for l in oute.splitlines() if l.startswith("CAUGHT BY")]
        fails = [l.strip() for l in oute.splitlines() if l.strip().startswith("FAIL ") or "ANALYSIS-ERROR" in l]
        print("== %s-%d confirmed=%s | %s | %s" % (prop, k + offset, confirmed, "; ".join(ran), caught[0] if caught else oute[-300:]))
        for f in fails[:8]:
            print("     " + f[:180])
        if not confirmed:
            print("   NOT FILED (demo tail): " + (out1 if rc0 == 0 else out0).strip()[-300:].replace("\n", " | "))
            continue
        dst = os.path.join(VERIF, "seeded", "%s-%d" % (prop, k + offset))
        os.makedirs(dst, exist_ok=True)
        shutil.copy(diff, os.path.join(dst, "patch.diff"))
        shutil.copy(demo, os.path.join(dst, "demo.py"))
        if os.path.exists(notes):
            shutil.copy(notes, os.path.join(dst, "notes.md"))
        meta = {
            "breaks_property": prop,
            "property_title": props[prop]["title"],
            "origin": "fresh sub-agent given only the property text and its own scratch worktree of /repo (nothing from /verif)",
            "needs_to_manifest": open(notes).read().strip()[:1500] if os.path.exists(notes) else "",
            "what_was_run": ran + ["demo.py is run from <worktree>/_seed/demo.py so that it imports the worktree's afkak"],
            "caught_by_at_intake": caught[0][11:].strip() if caught else "",
            "reports_at_intake": fails[:8],
        }
        json.dump(meta, open(os.path.join(dst, "meta.json"), "w"), indent=1)


if __name__ == "__main__":
    main()

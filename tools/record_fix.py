#!/usr/bin/env python3
"""record_fix.py <property> <rule> <demo-file-or--> <what...>: append a fixed: entry for /repo HEAD."""
import json, subprocess, sys
prop, rule, demo = sys.argv[1:4]
what = " ".join(sys.argv[4:])
sha = subprocess.check_output(["git", "-C", "/repo", "rev-parse", "--short", "HEAD"]).decode().strip()
p = "/verif/known_findings.json"
d = json.load(open(p))
e = {"property": prop, "rule": rule, "commit": sha, "what": "fixed: property=%s %s %s" % (prop, sha, what)}
if demo != "-":
    e["demo"] = demo
d["fixed"].append(e)
json.dump(d, open(p, "w"), indent=1)
print(e)

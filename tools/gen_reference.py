#!/usr/bin/env python3
"""Freeze the function table of the reference tree (/repo HEAD working tree) into afkverif/reference_functions.json.
Functions that are not in this table are treated as new helpers and inlined before analysis (afkverif/normalize.py).
Re-run only after the rule instances have been re-confirmed against the tree."""
import ast
import json
import os
import sys

VERIF = os.path.dirname(os.path.dirname(os.path.abspath(__file__)))
sys.path.insert(0, VERIF)
from afkverif.normalize import def_paths  # noqa: E402

root = sys.argv[1] if len(sys.argv) > 1 else "/repo"
out = {}
pkg = os.path.join(root, "afkak")
for f in sorted(os.listdir(pkg)):
    if f.endswith(".py"):
        tree = ast.parse(open(os.path.join(pkg, f)).read())
        out[f[:-3]] = sorted({x[0] for x in def_paths(tree)})
json.dump(out, open(os.path.join(VERIF, "afkverif", "reference_functions.json"), "w"), indent=0, sort_keys=True)
# number of parameters (self/cls not counted) of every nested function: a closure lifted out by a refactoring has at least
# as many (the captured variables become parameters)
arity = {}
for f in sorted(os.listdir(pkg)):
    if f.endswith(".py"):
        tree = ast.parse(open(os.path.join(pkg, f)).read())
        arity[f[:-3]] = {q: len([a for a in n.args.args if a.arg not in ("self", "cls")]) for q, n, owner, kind in def_paths(tree) if kind == "func"}
json.dump(arity, open(os.path.join(VERIF, "afkverif", "reference_arity.json"), "w"), indent=0, sort_keys=True)
# module-level names bound in the reference tree: a module-level constant that is NOT among them was introduced by the change
# under analysis (a named sentinel, a named limit) and is replaced by its value before analysis
consts = {}
for f in sorted(os.listdir(pkg)):
    if f.endswith(".py"):
        tree = ast.parse(open(os.path.join(pkg, f)).read())
        consts[f[:-3]] = sorted({t.id for st in tree.body if isinstance(st, (ast.Assign, ast.AnnAssign)) for t in (st.targets if isinstance(st, ast.Assign) else [st.target])
                                 if isinstance(t, ast.Name)})
json.dump(consts, open(os.path.join(VERIF, "afkverif", "reference_constants.json"), "w"), indent=0, sort_keys=True)
print("reference: %d units, %d functions" % (len(out), sum(len(v) for v in out.values())))

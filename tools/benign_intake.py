#!/usr/bin/env python3
"""benign_intake.py <name> <agent _out dir> : confirm and file behaviour-preserving refactorings a sub-agent produced.

For each refactor{k}.diff: in a scratch worktree of /repo HEAD (removed afterwards) the patch applies and the pinned
suite still gives 310 passed / 1 failed; the refactoring is then filed as /verif/benign/<name>-<k>/ (patch.diff,
notes.md).  `benign_matrix.py` runs all 20 properties' rules against each filed refactoring: every one must stay
silent (a report is a false alarm unless reading shows the refactoring does change behaviour - then it is moved to
benign/rejected/ with the reason)."""
import os
import re
import shutil
import subprocess
import sys
from concurrent.futures import ThreadPoolExecutor

VERIF = os.path.dirname(os.path.dirname(os.path.abspath(__file__)))
PY = "/venv/bin/python"
TEST = [PY, "-m", "pytest", "-q", "-p", "no:cacheprovider", "--timeout=900", "--continue-on-collection-errors"]


def sh(cmd, cwd=None, timeout=900):
    p = subprocess.run(cmd, cwd=cwd, capture_output=True, text=True, timeout=timeout)
    return p.returncode, (p.stdout + p.stderr)


def one(args):
    name, sdir, k = args
    diff = os.path.join(sdir, "refactor%d.diff" % k)
    notes = os.path.join(sdir, "notes%d.md" % k)
    if not os.path.exists(diff):
        return None
    wt = "/tmp/bintake_%s_%d" % (name, k)
    subprocess.run(["git", "-C", "/repo", "worktree", "remove", "--force", wt], capture_output=True)
    shutil.rmtree(wt, ignore_errors=True)
    subprocess.check_call(["git", "-C", "/repo", "worktree", "add", "-q", "--detach", wt, os.environ.get("BENIGN_BASE", "HEAD")])
    try:
        rca, outa = sh(["git", "apply", diff], cwd=wt)
        rct, outt = sh(TEST, cwd=wt)
        m = re.search(r"(\d+) failed, (\d+) passed", outt)
        ok = rca == 0 and bool(m) and m.group(1) == "1" and m.group(2) == "310"
        suite = m.group(0) if m else outt.strip().splitlines()[-1][:80]
    finally:
        subprocess.run(["git", "-C", "/repo", "worktree", "remove", "--force", wt], capture_output=True)
        shutil.rmtree(wt, ignore_errors=True)
    if ok:
        dst = os.path.join(VERIF, "benign", "%s-%d" % (name, k))
        os.makedirs(dst, exist_ok=True)
        shutil.copy(diff, os.path.join(dst, "patch.diff"))
        if os.path.exists(notes):
            shutil.copy(notes, os.path.join(dst, "notes.md"))
    return "%s-%d apply=%d suite=%s filed=%s" % (name, k, rca, suite, ok)


def main():
    name, sdir = sys.argv[1], os.path.abspath(sys.argv[2])
    with ThreadPoolExecutor(max_workers=3) as ex:
        for r in ex.map(one, [(name, sdir, k) for k in range(1, 10)]):
            if r:
                print(r)


if __name__ == "__main__":
    main()

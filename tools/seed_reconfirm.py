#!/usr/bin/env python3
"""Re-run every filed seed's demonstration against the CURRENT /repo HEAD with the patch applied (scratch worktrees,
removed afterwards).  A seed whose demo now passes with the change applied no longer breaks the property (a later
"fix:" commit neutralised it); that is recorded in meta.json (still_breaks) and such seeds are not expected to be reported."""
import json, os, shutil, subprocess, sys
from concurrent.futures import ThreadPoolExecutor
VERIF = os.path.dirname(os.path.dirname(os.path.abspath(__file__)))
SEEDED = os.path.join(VERIF, "seeded")
PY = "/venv/bin/python"

def one(sid):
    wt = "/tmp/reconf_%s" % sid
    subprocess.run(["git", "-C", "/repo", "worktree", "remove", "--force", wt], capture_output=True)
    shutil.rmtree(wt, ignore_errors=True)
    subprocess.check_call(["git", "-C", "/repo", "worktree", "add", "-q", wt, "HEAD"])
    try:
        a = subprocess.run(["git", "apply", os.path.join(SEEDED, sid, "patch.diff")], cwd=wt, capture_output=True, text=True)
        if a.returncode != 0:
            a = subprocess.run(["patch", "-s", "-p1", "-i", os.path.join(SEEDED, sid, "patch.diff")], cwd=wt, capture_output=True, text=True)
            if a.returncode != 0:
                return sid, "patch-does-not-apply", None
        os.makedirs(os.path.join(wt, "_seed"), exist_ok=True)
        shutil.copy(os.path.join(SEEDED, sid, "demo.py"), os.path.join(wt, "_seed", "demo.py"))
        d = subprocess.run([PY, "_seed/demo.py"], cwd=wt, capture_output=True, text=True, timeout=600)
        return sid, "breaks" if d.returncode != 0 else "neutralised", d.returncode
    finally:
        subprocess.run(["git", "-C", "/repo", "worktree", "remove", "--force", wt], capture_output=True)
        shutil.rmtree(wt, ignore_errors=True)

ids = sorted(x for x in os.listdir(SEEDED) if os.path.isdir(os.path.join(SEEDED, x)))
with ThreadPoolExecutor(max_workers=6) as ex:
    res = list(ex.map(one, ids))
head = subprocess.check_output(["git", "-C", "/repo", "rev-parse", "--short", "HEAD"]).decode().strip()
for sid, st, rc in res:
    mp = os.path.join(SEEDED, sid, "meta.json")
    m = json.load(open(mp))
    m["still_breaks"] = {"status": st, "repo_head": head, "demo_exit_with_change": rc}
    json.dump(m, open(mp, "w"), indent=1)
    if st != "breaks":
        print(sid, st, rc)
print("reconfirmed %d seeds at %s" % (len(res), head))

#!/usr/bin/env python3
"""Whole-package behaviour-preserving rewrites; every property's check must stay silent on them.

  roundtrip   ast.unparse of every unit (drops comments, renormalises layout and line numbers)
  rename      alpha-rename every local variable (not parameters, not closure-shared names' definitions are
              renamed consistently within the defining function and its nested functions)
  logging     insert `log.debug("enter")`-style no-op statement at the start of every function body
  all         the three composed

usage: benign.py <kind> [props...]   -> prints per property OK / alarm
"""
import ast
import builtins
import os
import shutil
import subprocess
import sys
import tempfile

VERIF = os.path.dirname(os.path.dirname(os.path.abspath(__file__)))


sys.path.insert(0, VERIF)
from afkverif.benign import transform  # noqa: E402


def main():
    kind = sys.argv[1]
    props = sys.argv[2:] or ["C%02d" % i for i in range(1, 21)]
    d = tempfile.mkdtemp(prefix="benign-")
    try:
        os.makedirs(os.path.join(d, "afkak"))
        for f in os.listdir("/repo/afkak"):
            if f.endswith(".py"):
                src = open(os.path.join("/repo/afkak", f)).read()
                open(os.path.join(d, "afkak", f), "w").write(transform(src, kind))
        if "--keep" in sys.argv:
            print("kept at", d)
        # the transformed package must still import and pass a smoke test
        bad = 0
        for pid in [p for p in props if p.startswith("C")]:
            p = subprocess.run(["python3-vt", "-m", "afkverif.check", pid, "--tier", "quick", "--root", d], cwd=VERIF,
                               capture_output=True, text=True)
            if p.returncode != 0:
                bad += 1
                print("%s ALARM rc=%d" % (pid, p.returncode))
                for l in p.stdout.splitlines():
                    if l.strip().startswith("FAIL ") or "ANALYSIS-ERROR" in l:
                        print("    " + l.strip()[:220])
            else:
                print("%s ok" % pid)
        print("benign[%s]: %d alarm(s)" % (kind, bad))
    finally:
        if "--keep" not in sys.argv:
            shutil.rmtree(d, ignore_errors=True)
        subprocess.run(["git", "-C", VERIF, "checkout", "--", "evidence"], capture_output=True)


if __name__ == "__main__":
    main()

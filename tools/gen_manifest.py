#!/usr/bin/env python3
"""Regenerate /verif/MANIFEST.json from the rule modules that exist.

A property is claimed iff afkverif/rules/cNN.py exists and defines MANIFEST
metadata (TECHNIQUE, LEVEL_TEXT, LEVEL_NOTE); others go to not_applicable with
the reason recorded in NOT_APPLICABLE below.
"""
import importlib
import json
import os
import sys

HERE = os.path.dirname(os.path.dirname(os.path.abspath(__file__)))
sys.path.insert(0, HERE)

NOT_APPLICABLE = {}

PENDING = "checker not built yet in this round (design in DESIGN.md section 4); not claimed until it exists"


def main():
    props = [json.loads(l) for l in open(os.path.join(HERE, "properties.jsonl"))]
    checks, na = [], []
    engines = {}
    for p in props:
        pid = p["id"]
        path = os.path.join(HERE, "afkverif", "rules", pid.lower() + ".py")
        if pid in NOT_APPLICABLE:
            na.append({"property_id": pid, "reason": NOT_APPLICABLE[pid]})
            continue
        if not os.path.exists(path):
            na.append({"property_id": pid, "reason": PENDING})
            continue
        mod = importlib.import_module("afkverif.rules." + pid.lower())
        checks.append({
            "property_id": pid,
            "quick_cmd": "python3-vt -m afkverif.check %s --tier quick" % pid,
            "thorough_cmd": "python3-vt -m afkverif.check %s --tier thorough" % pid,
            "evidence_file": "/verif/evidence/%s.json" % pid,
            "replay_cmd_template": "python3-vt -m afkverif.check --replay {path}",
            "engine": "afkverif",
            "level_claimed": {
                "category": "other",
                "text": getattr(mod, "LEVEL_TEXT", mod.EXPLANATION),
                "design_ref": "DESIGN.md section 4, %s" % pid,
            },
            "level_note": getattr(mod, "LEVEL_NOTE", "; ".join(mod.ASSUMPTIONS)),
            "technique": getattr(mod, "TECHNIQUE", "static analysis (AST/CFG rules)"),
        })
    man = {
        "version": 1,
        "setup_cmd": "python3-vt -c \"import ast, sys; sys.path.insert(0, '/verif'); import afkverif.check; "
                     "print('afkverif ready')\"",
        "hooks": {
            "guard": "CIENA_AFKAK_VERIF",
            "enable": "none needed: the checkers read /repo/afkak/*.py as text (ast) and never import or run it",
            "baseline_off_cmd": "cd /repo && /venv/bin/python -m pytest -ra -q -p no:cacheprovider --timeout=900 "
                                "--continue-on-collection-errors",
            "source_commits": [],
            "add_only": True,
        },
        "engines": [{
            "name": "afkverif",
            "path": "/verif/afkverif",
            "serves_properties": [c["property_id"] for c in checks],
            "kind_free_text": "repository-specific static analysis on CPython ast: program model with in-package "
                              "MRO and callee resolution, statement CFG with cloned finally blocks, must-hold guard "
                              "facts (forward dataflow with kills at writes and suspensions), Deferred-chain "
                              "registration extraction, value-kind flow, interval/symbolic kernels, wire-grammar "
                              "extraction compared with a hand-transcribed Kafka schema",
        }],
        "checks": checks,
        "notes": "All checks are static: they parse /repo/afkak/*.py on every run (VERIF_REPO overrides the root for "
                 "self-test scratch copies), never import afkak, never run tests. Exit 0 ok / 1 VIOLATION / 2 "
                 "ANALYSIS-ERROR. Known findings: /verif/known_findings.json. Thorough tier adds per-path replay and "
                 "the two-sided self-test (mutants must be reported, behaviour-preserving twins must stay silent).",
        "not_applicable": na,
    }
    with open(os.path.join(HERE, "MANIFEST.json"), "w") as fh:
        json.dump(man, fh, indent=1)
        fh.write("\n")
    print("claimed:", [c["property_id"] for c in checks])
    print("not_applicable:", [n["property_id"] for n in na])


if __name__ == "__main__":
    main()

#!/usr/bin/env python3
"""Every filed behaviour-preserving refactoring (benign/<id>/patch.diff) is applied to its own scratch copy of
/repo/afkak (under $TMPDIR, removed afterwards) and all 20 properties' quick rules are run in-process.  Every one
must stay silent; any report is printed with the rule instance.  Exit 1 if any refactoring raises an alarm."""
import os
import shutil
import subprocess
import sys
import tempfile
from concurrent.futures import ProcessPoolExecutor

VERIF = os.path.dirname(os.path.dirname(os.path.abspath(__file__)))
sys.path.insert(0, VERIF)
BENIGN = os.environ.get("BENIGN_DIR") or os.path.join(VERIF, "benign")


def one(sid):
    from afkverif import report
    from afkverif.check import run_rules
    from afkverif.model import AnalysisError, Program

    d = tempfile.mkdtemp(prefix="benignscratch-")
    try:
        shutil.copytree(os.environ.get("VERIF_SRC", "/repo") + "/afkak", os.path.join(d, "afkak"), ignore=shutil.ignore_patterns("test", "__pycache__"))
        p = subprocess.run(["patch", "-s", "-p1", "-d", d, "-i", os.path.join(BENIGN, sid, "patch.diff")], capture_output=True, text=True)
        if p.returncode != 0:
            return sid, None, ["patch does not apply: " + (p.stdout + p.stderr).strip()[:120]]
        known = report.load_known()
        alarms = []
        prog = Program(d)
        for i in range(1, 21):
            pid = "C%02d" % i
            try:
                ctx, _ = run_rules(pid, prog, "quick")
                kn, new = report.split_known(pid, ctx.failures(), known)
                for f in new:
                    alarms.append("%s %s %s @%s: %s" % (pid, f.rule, f.construct, f.where, str(f.what)[:160]))
                for r in ctx.undercounted():
                    alarms.append("%s UNDERCOUNT %s: %d instances < %d confirmed" % (pid, r.rid, r.n, r.min_instances))
            except AnalysisError as e:
                alarms.append("%s ANALYSIS-ERROR %s" % (pid, str(e)[:160]))
        return sid, True, alarms
    finally:
        shutil.rmtree(d, ignore_errors=True)


def main():
    ids = sorted(x for x in os.listdir(BENIGN) if os.path.isfile(os.path.join(BENIGN, x, "patch.diff")))
    if sys.argv[1:]:
        ids = [i for i in ids if any(i.startswith(a) for a in sys.argv[1:])]
    with ProcessPoolExecutor(max_workers=16) as ex:
        res = list(ex.map(one, ids))
    bad = 0
    for sid, ok, alarms in res:
        if alarms:
            bad += 1
        print("%-16s %s" % (sid, "silent" if not alarms else "ALARM"))
        for a in alarms:
            print("      " + a)
    print("%d refactorings, %d raised an alarm" % (len(res), bad))
    sys.exit(1 if bad else 0)


if __name__ == "__main__":
    main()

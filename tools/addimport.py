#!/usr/bin/env python3
"""addimport.py cNN name [name...]: add names to the `from .util import ...` line of a rule module (dev aid)."""
import re, sys
mod, names = sys.argv[1], sys.argv[2:]
p = "/verif/afkverif/rules/%s.py" % mod
s = open(p).read()
m = re.search(r"^from \.util import (\()?", s, re.M)
have = set(re.findall(r"\w+", s[m.end():s.index("\n\n", m.end())] if m.group(1) else s[m.end():s.index("\n", m.end())]))
add = [n for n in names if n not in have]
if add:
    s = s[:m.end()] + ", ".join(add) + ", " + s[m.end():]
    open(p, "w").write(s)
print("added", add)

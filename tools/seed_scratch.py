#!/usr/bin/env python3
"""Fast iteration counterpart of seed_matrix.py: every filed seeded change is applied to its own scratch copy of
/repo/afkak (under $TMPDIR, removed afterwards) and all 20 properties' rules are run in-process, 16 seeds at a time.
Prints which properties report each seed.  (seed_matrix.py is the prescribed confirmation against /repo itself.)"""
import os
import shutil
import subprocess
import sys
import tempfile
from concurrent.futures import ProcessPoolExecutor

VERIF = os.path.dirname(os.path.dirname(os.path.abspath(__file__)))
sys.path.insert(0, VERIF)
SEEDED = os.path.join(VERIF, "seeded")


def one(sid):
    from afkverif import report
    from afkverif.check import run_rules
    from afkverif.model import AnalysisError, Program

    d = tempfile.mkdtemp(prefix="seedscratch-")
    try:
        shutil.copytree(os.environ.get("VERIF_SRC", "/repo") + "/afkak", os.path.join(d, "afkak"), ignore=shutil.ignore_patterns("test", "__pycache__"))
        p = subprocess.run(["patch", "-s", "-p1", "-d", d, "-i", os.path.join(SEEDED, sid, "patch.diff")], capture_output=True, text=True)
        if p.returncode != 0:
            return sid, None, "patch does not apply: " + (p.stdout + p.stderr).strip()[:120]
        known = report.load_known()
        caught, errs = [], []
        prog = Program(d)
        for i in range(1, 21):
            pid = "C%02d" % i
            try:
                ctx, _ = run_rules(pid, prog, "quick")
                kn, new = report.split_known(pid, ctx.failures(), known)
                if new:
                    caught.append(pid)
            except AnalysisError as e:
                errs.append("%s:%s" % (pid, str(e)[:60]))
        return sid, caught, "; ".join(errs)
    finally:
        shutil.rmtree(d, ignore_errors=True)


def main():
    ids = sorted(x for x in os.listdir(SEEDED) if os.path.isdir(os.path.join(SEEDED, x)))
    if sys.argv[1:]:
        ids = [i for i in ids if i in sys.argv[1:]]
    with ProcessPoolExecutor(max_workers=16) as ex:
        res = list(ex.map(one, ids))
    miss = 0
    for sid, caught, note in res:
        if caught is None or not caught:
            miss += 1
        own = sid.split("-")[0]
        flag = "" if caught and own in caught else ("  (not by its own property)" if caught else "")
        print("%-7s -> %s%s %s" % (sid, ", ".join(caught) if caught else ("NOT CAUGHT" if caught is not None else "N/A"), flag, note))
    print("%d seeds, %d not caught" % (len(res), miss))


if __name__ == "__main__":
    main()

#!/usr/bin/env python3
"""Apply every filed seeded change to /repo itself (git apply), run all 20 registered quick commands, undo it
(git checkout -- .), and record which checks report it: seeded/MATRIX.md and each meta.json (caught_by)."""
import json
import os
import subprocess
import sys

VERIF = os.path.dirname(os.path.dirname(os.path.abspath(__file__)))
SEEDED = os.path.join(VERIF, "seeded")


def run_one(pid):
    p = subprocess.run(["python3-vt", "-m", "afkverif.check", pid, "--tier", "quick"], cwd=VERIF, capture_output=True, text=True)
    fails = [l.strip()[5:].split(" [")[0] for l in p.stdout.splitlines() if l.strip().startswith("FAIL ")]
    return pid, (p.returncode, fails, [l for l in p.stdout.splitlines() if "ANALYSIS-ERROR" in l])


def run_all():
    # the 20 registered quick commands, side by side (they only read /repo)
    from concurrent.futures import ThreadPoolExecutor
    with ThreadPoolExecutor(max_workers=16) as ex:
        return dict(ex.map(run_one, ["C%02d" % i for i in range(1, 21)]))


def main():
    assert subprocess.run(["git", "-C", "/repo", "status", "--porcelain", "--untracked-files=no"], capture_output=True, text=True).stdout.strip() == "", "/repo not clean"
    rows = []
    ids = sorted(d for d in os.listdir(SEEDED) if os.path.isdir(os.path.join(SEEDED, d)))
    only = sys.argv[1:]
    for sid in ids:
        if only and sid not in only:
            continue
        patch = os.path.join(SEEDED, sid, "patch.diff")
        subprocess.check_call(["git", "-C", "/repo", "apply", patch])
        try:
            res = run_all()
        finally:
            subprocess.check_call(["git", "-C", "/repo", "checkout", "--", "."])
        caught = {p: f for p, (rc, f, ae) in res.items() if rc == 1}
        errs = {p: ae for p, (rc, f, ae) in res.items() if rc == 2}
        mp = os.path.join(SEEDED, sid, "meta.json")
        meta = json.load(open(mp))
        meta["caught_by"] = sorted(caught)
        meta["reports"] = {p: f[:6] for p, f in sorted(caught.items())}
        meta["analysis_errors"] = errs
        meta["how_checked"] = "git -C /repo apply patch.diff; all 20 quick commands of MANIFEST.json; git -C /repo checkout -- ."
        json.dump(meta, open(mp, "w"), indent=1)
        rows.append((sid, meta["breaks_property"], sorted(caught), caught, errs))
        print(sid, "->", sorted(caught) or "NOT CAUGHT", ("analysis-errors: %s" % sorted(errs)) if errs else "")
    if only:
        # a partial run: replace / add the rows of the seeds just checked, keep the others as last recorded
        mpath = os.path.join(SEEDED, "MATRIX.md")
        lines = open(mpath).read().splitlines() if os.path.exists(mpath) else []
        head = [l for l in lines if not (l.startswith("| C") and l.split("|")[1].strip()[:1] == "C" and "-" in l.split("|")[1])]
        old_rows = {l.split("|")[1].strip(): l for l in lines if l.startswith("| C") and "-" in l.split("|")[1]}
        for sid, prop, cb, caught, errs in rows:
            first = ""
            for p in cb:
                if caught[p]:
                    first = caught[p][0]
                    break
            old_rows[sid] = "| %s | %s | %s | %s |" % (sid, prop, ", ".join(cb) or "**nothing**", first.replace("|", "/")[:150])
        def _key(s_):
            a, b = s_.split("-")
            return (a, int(b))
        with open(mpath, "w") as fh:
            fh.write("\n".join(head + [old_rows[k] for k in sorted(old_rows, key=_key)]) + "\n")
    if not only:
        with open(os.path.join(SEEDED, "MATRIX.md"), "w") as fh:
            fh.write("# Seeded breaking changes vs checks\n\nEach change was produced by a fresh sub-agent that saw only the property text "
                     "and its own scratch worktree; each was confirmed (suite unchanged at 310 passed / 1 baseline failure, demo fails with "
                     "the change and passes without) before filing. Checks were run against /repo itself with the patch applied.\n\n"
                     "| seed | breaks | caught by | first report |\n|---|---|---|---|\n")
            for sid, prop, cb, caught, errs in rows:
                first = ""
                for p in cb:
                    if caught[p]:
                        first = caught[p][0]
                        break
                fh.write("| %s | %s | %s | %s |\n" % (sid, prop, ", ".join(cb) or "**nothing**", first.replace("|", "/")[:150]))
    # leave evidence as produced by the unchanged tree
    subprocess.run(["python3-vt", "-m", "afkverif.check", "all"], cwd=VERIF, capture_output=True)


if __name__ == "__main__":
    main()

"""Value-kind dataflow: which *kind* of value can reach a sink expression.

Forward, flow-sensitive abstract interpretation over the CFG of one function
and the nested functions it calls or registers.  Kinds:

  NONE        the constant None
  NONE@<g>    None assigned where guard fact <g> holds
  FAILURE     twisted Failure            EXC   bare exception instance
  RESP        response struct, unchecked RESP_OK  response on the no-raise path of raise_for_errno
  VALUE       some other ordinary value  ANY   unknown
  ('LIST', frozenset(kinds))             ('TUP', (kindset, ...))
  ('DLVAL', flagname)  second element of a DeferredList result pair whose first element is <flagname>
"""
import ast

from .model import attr_chain, unparse, walk_body_shallow

NONE, FAILURE, EXC, RESP, RESP_OK, VALUE, ANY = "NONE", "FAILURE", "EXC", "RESP", "RESP_OK", "VALUE", "ANY"
DLRESULT = ("LIST", frozenset([("DLPAIR",)]))


def fs(*ks):
    return frozenset(ks)


def elems(kinds):
    out = set()
    for k in kinds:
        if isinstance(k, tuple) and k[0] == "LIST":
            out |= set(k[1])
        elif k in (ANY, VALUE):
            out.add(ANY)
    return frozenset(out)


def mk_list(es):
    return ("LIST", frozenset(es))


def show(kinds):
    def one(k):
        if isinstance(k, tuple):
            if k[0] == "LIST":
                return "LIST[%s]" % show(k[1])
            if k[0] == "TUP":
                return "(%s)" % ", ".join(show(x) for x in k[1])
            return "%s:%s" % (k[0], ",".join(str(x) for x in k[1:]))
        return k
    return "|".join(sorted(one(k) for k in kinds)) or "-"


class KindAnalysis(object):
    def __init__(self, ctx, root, param_kinds, guard_tags=(), subscript_summary=None, exc_classes=(), extra_funcs=()):
        self.ctx, self.prog, self.root = ctx, ctx.prog, root
        # functions followed like nested closures although they live elsewhere (closures lifted out by a refactoring)
        self.extra = {g.qname for g in extra_funcs}
        self.guard_tags = guard_tags  # [(fact_text, tag)] : None assigned under fact -> NONE@tag
        self.subscript_summary = subscript_summary or (lambda func, expr, state: None)
        self.exc_classes = set(exc_classes)
        self.params = {root.qname: dict(param_kinds)}
        self.states_in = {}  # func qname -> {node id -> state}
        self.closure = {}  # func qname -> {name -> kinds} join over all points
        self.sinks = {}  # (func qname, id(call)) -> record
        self.funcs = {root.qname: root}
        changed = True
        rounds = 0
        while changed and rounds < 12:
            rounds += 1
            before = (repr(sorted((q, sorted((k, show(v)) for k, v in p.items())) for q, p in self.params.items())),
                      repr(sorted((q, sorted((k, show(v)) for k, v in c.items())) for q, c in self.closure.items())))
            for q in list(self.funcs):
                self._analyse(self.funcs[q])
            after = (repr(sorted((q, sorted((k, show(v)) for k, v in p.items())) for q, p in self.params.items())),
                     repr(sorted((q, sorted((k, show(v)) for k, v in c.items())) for q, c in self.closure.items())))
            changed = before != after
        self.rounds = rounds

    # ------------------------------------------------------------------ core
    def _lookup(self, func, state, name):
        if name in state:
            return state[name]
        f = func.parent
        while f is not None:
            c = self.closure.get(f.qname, {})
            if name in c:
                return c[name]
            f = f.parent
        return fs(ANY)

    @staticmethod
    def _value_params(g):
        ps = list(g.params)
        if g.cls is not None and g.parent is None and ps and ps[0] in ("self", "cls"):
            ps = ps[1:]
        return ps

    def _join_param(self, callee, pname, kinds):
        p = self.params.setdefault(callee.qname, {})
        p[pname] = p.get(pname, frozenset()) | kinds
        self.funcs.setdefault(callee.qname, callee)

    def _analyse(self, func):
        cfg = self.ctx.cfg(func)
        facts = self.ctx.facts(func)
        init = dict(self.params.get(func.qname, {}))
        sin = {cfg.entry.id: init}
        work = [cfg.entry.id]
        seen_count = {}
        while work:
            x = work.pop()
            seen_count[x] = seen_count.get(x, 0) + 1
            if seen_count[x] > 200:
                continue
            st = sin[x]
            n = cfg.nodes[x]
            out = self._transfer(func, n, dict(st), facts[x])
            for t, lab in cfg.succ[x]:
                s2 = out
                if lab == ("exc",):
                    s2 = dict(st)
                elif lab and lab[0] == "cond":
                    s2 = self._refine(func, dict(out), lab[1], lab[2])
                old = sin.get(t)
                if old is None:
                    sin[t] = dict(s2)
                    work.append(t)
                else:
                    ch = False
                    for k, v in s2.items():
                        nv = old.get(k, frozenset()) | v
                        if nv != old.get(k):
                            old[k] = nv
                            ch = True
                    if ch:
                        work.append(t)
        self.states_in[func.qname] = sin
        clo = {}
        for s in sin.values():
            for k, v in s.items():
                clo[k] = clo.get(k, frozenset()) | v
        self.closure[func.qname] = clo

    def _refine(self, func, state, test, pol):
        if isinstance(test, ast.UnaryOp) and isinstance(test.op, ast.Not):
            return self._refine(func, state, test.operand, not pol)
        if isinstance(test, ast.BoolOp):
            if isinstance(test.op, ast.And) and pol or isinstance(test.op, ast.Or) and not pol:
                for v in test.values:
                    state = self._refine(func, state, v, pol)
            return state
        if isinstance(test, ast.Call) and unparse(test.func) == "isinstance" and len(test.args) == 2:
            c = attr_chain(test.args[0])
            cls = unparse(test.args[1])
            if c and cls == "Failure":
                cur = self._lookup(func, state, c)
                if pol:
                    state[c] = fs(FAILURE)
                else:
                    rest = frozenset(k for k in cur if k != FAILURE)
                    state[c] = rest if rest else cur
            return state
        c = attr_chain(test)
        if c:
            cur = self._lookup(func, state, c)
            if pol:
                rest = frozenset(k for k in cur if not (isinstance(k, str) and k.startswith(NONE)))
                rest = frozenset(k for k in rest if not (isinstance(k, tuple) and k[0] == "LIST" and not k[1]))
            else:
                rest = frozenset(k for k in cur if (isinstance(k, str) and k.startswith(NONE)) or k in (ANY, VALUE)
                                 or (isinstance(k, tuple) and k[0] == "LIST"))
                rest = frozenset(mk_list(()) if (isinstance(k, tuple) and k[0] == "LIST") else k for k in rest)
            state[c] = rest if rest else cur
        return state

    def _bind(self, func, state, target, kinds):
        if isinstance(target, (ast.Tuple, ast.List)):
            parts = [frozenset() for _ in target.elts]
            for k in kinds:
                if isinstance(k, tuple) and k[0] == "TUP" and len(k[1]) == len(target.elts):
                    for i, ks in enumerate(k[1]):
                        parts[i] = parts[i] | ks
                elif isinstance(k, tuple) and k[0] == "DLPAIR" and len(target.elts) == 2:
                    flag = attr_chain(target.elts[0])
                    parts[0] = parts[0] | fs(VALUE)
                    parts[1] = parts[1] | fs(("DLVAL", flag or "?"))
                else:
                    parts = [p | fs(ANY) for p in parts]
            for t, p in zip(target.elts, parts):
                self._bind(func, state, t, p or fs(ANY))
        else:
            c = attr_chain(target)
            if c:
                state[c] = kinds

    def _transfer(self, func, n, state, facts):
        st = n.stmt
        if st is None:
            return state
        # record sinks and inter-procedural argument flow first (pre-state)
        for call in n.calls():
            self._visit_call(func, n, call, state, facts)
        if n.kind == "except":
            if st.name:
                state[st.name] = fs(EXC)
            return state
        if n.kind == "for":
            it = self.eval(func, st.iter, state, facts)
            self._bind(func, state, st.target, elems(it) or fs(ANY))
            return state
        if n.kind != "stmt":
            return state
        if isinstance(st, ast.Assign):
            if isinstance(st.value, ast.Tuple) and len(st.targets) == 1 and isinstance(
                    st.targets[0], ast.Tuple) and len(st.targets[0].elts) == len(st.value.elts):
                vals = [self.eval(func, v, state, facts) for v in st.value.elts]
                for t, v in zip(st.targets[0].elts, vals):
                    self._bind(func, state, t, v)
            else:
                v = self.eval(func, st.value, state, facts)
                for t in st.targets:
                    self._bind(func, state, t, v)
        elif isinstance(st, ast.AugAssign):
            c = attr_chain(st.target)
            if c:
                state[c] = fs(VALUE)
        elif isinstance(st, ast.Expr) and isinstance(st.value, ast.Call):
            call = st.value
            if isinstance(call.func, ast.Attribute):
                rc = attr_chain(call.func.value)
                if rc and call.func.attr in ("append", "extend") and call.args:
                    cur = self._lookup(func, state, rc)
                    add = self.eval(func, call.args[0], state, facts)
                    if call.func.attr == "extend":
                        add = elems(add)
                    lists = [k for k in cur if isinstance(k, tuple) and k[0] == "LIST"]
                    base = set()
                    for k in lists:
                        base |= set(k[1])
                    others = frozenset(k for k in cur if not (isinstance(k, tuple) and k[0] == "LIST"))
                    state[rc] = others | fs(mk_list(frozenset(base) | add))
                if call.func.attr == "raise_for_errno" and call.args:
                    a0 = call.args[0]
                    if isinstance(a0, ast.Attribute) and a0.attr == "error":
                        rc2 = attr_chain(a0.value)
                        if rc2:
                            cur = self._lookup(func, state, rc2)
                            state[rc2] = frozenset(RESP_OK if k == RESP else k for k in cur)
        return state

    def _visit_call(self, func, n, call, state, facts):
        name = call.func.attr if isinstance(call.func, ast.Attribute) else (
            call.func.id if isinstance(call.func, ast.Name) else None)
        if isinstance(call.func, ast.Attribute) and name in ("callback", "errback") and len(call.args) <= 1:
            v = self.eval(func, call.args[0], state, facts) if call.args else fs(NONE)
            v = self._resolve_dl(v, facts)
            key = (func.qname, id(call))
            rec = self.sinks.get(key)
            if rec is None:
                self.sinks[key] = {"func": func, "call": call, "method": name, "kinds": v,
                                   "recv": unparse(call.func.value), "node": n}
            else:
                rec["kinds"] = rec["kinds"] | v
            return
        callee = self.prog.resolve_call(func, call)
        if callee is not None and (callee.parent is not None or callee.qname in self.extra):
            ps = self._value_params(callee)
            for i, a in enumerate(call.args):
                if i < len(ps):
                    self._join_param(callee, ps[i], self._resolve_dl(self.eval(func, a, state, facts), facts))
            for k in call.keywords:
                if k.arg in ps:
                    self._join_param(callee, k.arg, self._resolve_dl(self.eval(func, k.value, state, facts), facts))
        # handler registration: first parameter kind by registration kind
        if name in ("addCallback", "addErrback", "addBoth", "addCallbacks") and call.args:
            hs = []
            if name == "addCallback":
                hs = [(call.args[0], fs(VALUE))]
            elif name == "addErrback":
                hs = [(call.args[0], fs(FAILURE))]
            elif name == "addBoth":
                hs = [(call.args[0], fs(VALUE, FAILURE))]
            else:
                hs = [(call.args[0], fs(VALUE))] + ([(call.args[1], fs(FAILURE))] if len(call.args) > 1 else [])
            for h, k in hs:
                g = self.prog.resolve_callable(func, h)
                if g is not None and (g.parent is not None or g.qname in self.extra):
                    fp = g.first_param()
                    if fp:
                        self._join_param(g, fp, k)
                    extra = call.args[1:] if name != "addCallbacks" else []
                    ps = self._value_params(g)
                    for i, a in enumerate(extra):
                        if i + 1 < len(ps):
                            self._join_param(g, ps[i + 1], self.eval(func, a, state, facts))

    def _resolve_dl(self, kinds, facts):
        out = set()
        for k in kinds:
            if isinstance(k, tuple) and k[0] == "DLVAL":
                flag = k[1]
                if (flag, False) in facts or ("not " + flag, True) in facts:
                    out.add(FAILURE)
                elif (flag, True) in facts:
                    out.add(VALUE)
                else:
                    out.add(ANY)
            else:
                out.add(k)
        return frozenset(out)

    def eval(self, func, e, state, facts):
        if isinstance(e, ast.Constant):
            if e.value is None:
                for text, tag in self.guard_tags:
                    if (text, True) in facts:
                        return fs("%s@%s" % (NONE, tag))
                return fs(NONE)
            return fs(VALUE)
        if isinstance(e, (ast.Name, ast.Attribute)):
            c = attr_chain(e)
            if c and (c in state or isinstance(e, ast.Name)):
                return self._lookup(func, state, c)
            if isinstance(e, ast.Attribute) and e.attr == "value":
                base = self.eval(func, e.value, state, facts)
                if base and base <= fs(FAILURE):
                    return fs(EXC)
            return fs(ANY)
        if isinstance(e, ast.Call):
            fn = unparse(e.func)
            last = fn.split(".")[-1]
            if last == "Failure":
                return fs(FAILURE)
            if last in self.exc_classes or last.endswith("Error") or last.endswith("Exception"):
                return fs(EXC)
            if last == "DeferredList":
                return fs(VALUE)
            if last in ("list", "tuple") and e.args:
                return self.eval(func, e.args[0], state, facts)
            if fn == "zip" and e.args:
                return fs(mk_list(fs(("TUP", tuple(
                    elems(self.eval(func, a, state, facts)) or fs(ANY) for a in e.args)))))
            return fs(ANY)
        if isinstance(e, ast.Tuple):
            return fs(("TUP", tuple(self.eval(func, x, state, facts) for x in e.elts)))
        if isinstance(e, ast.List):
            es = frozenset()
            for x in e.elts:
                es |= self.eval(func, x, state, facts)
            return fs(mk_list(es))
        if isinstance(e, ast.ListComp) and len(e.generators) == 1:
            g = e.generators[0]
            st2 = dict(state)
            it = self.eval(func, g.iter, state, facts)
            self._bind(func, st2, g.target, elems(it) or fs(ANY))
            return fs(mk_list(self.eval(func, e.elt, st2, facts)))
        if isinstance(e, ast.Subscript):
            r = self.subscript_summary(func, e, state)
            if r is None and facts:
                # the subscripted value named by a temporary (`args = failure.value.args; args[0]`)
                from .cfg import resolve_at
                e2 = resolve_at(facts, e)
                if unparse(e2) != unparse(e):
                    r = self.subscript_summary(func, e2, state)
            if r is not None:
                return r
            return fs(ANY)
        if isinstance(e, ast.IfExp):
            # each arm is evaluated in the state refined by the outcome of the test (`x if isinstance(x, Failure) else Failure(x)`)
            return self.eval(func, e.body, self._refine(func, dict(state), e.test, True), facts) | self.eval(
                func, e.orelse, self._refine(func, dict(state), e.test, False), facts)
        if isinstance(e, (ast.Yield,)):
            return fs(ANY)
        return fs(ANY)

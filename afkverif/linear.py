"""Linear symbolic evaluation of small loop-free functions (the cursor arithmetic of the primitive readers).

A value is a linear form  c0 + sum(ci * atom_i)  over atoms: the initial value of a parameter ('cur'), an opaque
local bound by an unpack ('strlen'), or an opaque pure call ('len(data)', 'struct.calcsize(fmt)').  Each path from
the entry to a return is executed symbolically: assignments update the environment, branch conditions that compare
linear forms become constraints `form >= 0` / `form == 0`.  `entails_ge0` decides `target >= 0` from the constraints
by substitution of equalities and non-negative combination of at most two inequalities - a sound, incomplete
procedure (no solver): whatever it cannot show is reported, never assumed.
"""
import ast

from .model import unparse


class Lin(object):
    __slots__ = ("c", "t")

    def __init__(self, c=0, t=None):
        self.c = c
        self.t = {k: v for k, v in (t or {}).items() if v != 0}

    @staticmethod
    def atom(name):
        return Lin(0, {name: 1})

    def __add__(self, o):
        t = dict(self.t)
        for k, v in o.t.items():
            t[k] = t.get(k, 0) + v
        return Lin(self.c + o.c, t)

    def __neg__(self):
        return Lin(-self.c, {k: -v for k, v in self.t.items()})

    def __sub__(self, o):
        return self + (-o)

    def scale(self, k):
        return Lin(self.c * k, {a: v * k for a, v in self.t.items()})

    def is_const(self):
        return not self.t

    def key(self):
        return (self.c, tuple(sorted(self.t.items())))

    def __repr__(self):
        parts = ["%s%s" % ("" if v == 1 else ("-" if v == -1 else "%d*" % v), k) for k, v in sorted(self.t.items())]
        if self.c or not parts:
            parts.append(str(self.c))
        return " + ".join(parts)


NONNEG_CALLS = ("len", "calcsize")


def lin_of(e, env, const=None):
    """Linear form of expression e under env (name -> Lin); opaque sub-expressions become atoms named by their text
    with the *current* forms of the names they mention (so that `len(data)` stays one atom while data is unchanged)."""
    if isinstance(e, ast.Constant) and isinstance(e.value, int) and not isinstance(e.value, bool):
        return Lin(e.value)
    if isinstance(e, ast.Name):
        if e.id in env:
            return env[e.id]
        if const is not None:
            v = const(e)
            if isinstance(v, int) and not isinstance(v, bool):
                return Lin(v)
        return Lin.atom(e.id)
    if isinstance(e, ast.UnaryOp) and isinstance(e.op, ast.USub):
        v = lin_of(e.operand, env, const)
        return -v if v is not None else None
    if isinstance(e, ast.BinOp):
        a, b = lin_of(e.left, env, const), lin_of(e.right, env, const)
        if a is None or b is None:
            return None
        if isinstance(e.op, ast.Add):
            return a + b
        if isinstance(e.op, ast.Sub):
            return a - b
        if isinstance(e.op, ast.Mult):
            if a.is_const():
                return b.scale(a.c)
            if b.is_const():
                return a.scale(b.c)
        return Lin.atom(_atom_text(e, env))
    if isinstance(e, (ast.Call, ast.Attribute, ast.Subscript)):
        if const is not None:
            v = const(e)
            if isinstance(v, int) and not isinstance(v, bool):
                return Lin(v)
        return Lin.atom(_atom_text(e, env))
    return None


def _atom_text(e, env):
    class S(ast.NodeTransformer):
        def visit_Name(self, n):
            if n.id in env and isinstance(n.ctx, ast.Load):
                return ast.Name(id="<%r>" % env[n.id], ctx=ast.Load())
            return n

    import copy

    return unparse(S().visit(copy.deepcopy(e)))


def constraints_of(test, pol, env, const=None):
    """[(Lin, '>=0' | '==0' | '!=0')] implied by `test` evaluating to `pol`."""
    out = []
    if isinstance(test, ast.UnaryOp) and isinstance(test.op, ast.Not):
        return constraints_of(test.operand, not pol, env, const)
    if isinstance(test, ast.BoolOp):
        if (isinstance(test.op, ast.And) and pol) or (isinstance(test.op, ast.Or) and not pol):
            for v in test.values:
                out.extend(constraints_of(v, pol, env, const))
        return out
    if isinstance(test, ast.Compare) and len(test.ops) == 1:
        a, b = lin_of(test.left, env, const), lin_of(test.comparators[0], env, const)
        if a is None or b is None:
            return out
        op = type(test.ops[0])
        if not pol:
            op = {ast.Lt: ast.GtE, ast.LtE: ast.Gt, ast.Gt: ast.LtE, ast.GtE: ast.Lt, ast.Eq: ast.NotEq, ast.NotEq: ast.Eq}.get(op)
        if op is ast.Lt:
            out.append((b - a - Lin(1), ">=0"))
        elif op is ast.LtE:
            out.append((b - a, ">=0"))
        elif op is ast.Gt:
            out.append((a - b - Lin(1), ">=0"))
        elif op is ast.GtE:
            out.append((a - b, ">=0"))
        elif op is ast.Eq:
            out.append((a - b, "==0"))
        elif op is ast.NotEq:
            out.append((a - b, "!=0"))
    return out


def _subst_eq(target, cons):
    """Use equalities with a unit-coefficient atom to eliminate that atom from the target and the inequalities."""
    cons = list(cons)
    for _ in range(4):
        for lin, kind in cons:
            if kind != "==0":
                continue
            unit = [a for a, v in lin.t.items() if v in (1, -1)]
            if not unit:
                continue
            a = unit[0]
            # a = rhs
            coef = lin.t[a]
            rest = lin - Lin(0, {a: coef})
            val = rest.scale(-1) if coef == 1 else rest  # a = -rest (coef 1) or a = rest (coef -1)

            def sub(x):
                k = x.t.get(a, 0)
                if not k:
                    return x
                return x - Lin(0, {a: k}) + val.scale(k)

            target = sub(target)
            cons = [(sub(l), kd) for l, kd in cons if l is not lin]
            break
        else:
            break
    return target, cons


def entails_ge0(target, cons):
    """Sound, incomplete: is `target >= 0` implied by the constraints (plus len()/calcsize() atoms being >= 0)?"""
    target, cons = _subst_eq(target, cons)
    ge = [l for l, k in cons if k == ">=0"]
    # an inequality `x >= 0` together with `x != 0` gives `x - 1 >= 0` (integers)
    ne = {l.key() for l, k in cons if k == "!=0"}
    ge = [l - Lin(1) if l.key() in ne else l for l in ge]
    for a in list(target.t):
        if any(a.startswith(p + "(") or (".%s(" % p) in a for p in NONNEG_CALLS):
            ge.append(Lin.atom(a))
    cands = [Lin(0)] + ge + [x + y for i, x in enumerate(ge) for y in ge[i:]]
    for c in cands:
        d = target - c
        if d.is_const() and d.c >= 0:
            return True
    return False


def run_paths(cfg, params, const=None, max_paths=400):
    """Yield (return node, env, constraints) for every loop-free path from the entry to a return statement."""
    rets = [n for n in cfg.nodes if n.kind == "stmt" and isinstance(n.stmt, ast.Return)]
    for rn in rets:
        for path in cfg.paths(cfg.entry.id if hasattr(cfg.entry, "id") else cfg.entry, rn.id, max_paths=max_paths, unroll=0, follow_exc=False):
            env = {}
            cons = []
            fresh = [0]
            for i, nid in enumerate(path[:-1]):
                n = cfg.nodes[nid]
                nxt = path[i + 1]
                lab = [l for t, l in cfg.succ[nid] if t == nxt]
                lab = lab[0] if lab else None
                if n.kind == "test" and lab and lab[0] == "cond":
                    cons.extend(constraints_of(lab[1], lab[2], env, const))
                elif n.kind == "stmt":
                    _exec(n.stmt, env, fresh, const)
            yield rn, env, cons


def _exec(st, env, fresh, const):
    if isinstance(st, ast.Assign):
        v = lin_of(st.value, env, const) if not isinstance(st.value, ast.Tuple) else None
        for t in st.targets:
            _bind(t, st.value, v, env, fresh, const)
    elif isinstance(st, ast.AnnAssign) and st.value is not None:
        _bind(st.target, st.value, lin_of(st.value, env, const), env, fresh, const)
    elif isinstance(st, ast.AugAssign) and isinstance(st.target, ast.Name):
        cur = env.get(st.target.id, Lin.atom(st.target.id))
        d = lin_of(st.value, env, const)
        if d is not None and isinstance(st.op, ast.Add):
            env[st.target.id] = cur + d
        elif d is not None and isinstance(st.op, ast.Sub):
            env[st.target.id] = cur - d
        else:
            fresh[0] += 1
            env[st.target.id] = Lin.atom("%s#%d" % (st.target.id, fresh[0]))


def _bind(t, value, v, env, fresh, const):
    if isinstance(t, ast.Name):
        if v is None:
            fresh[0] += 1
            v = Lin.atom("%s#%d" % (t.id, fresh[0]))
        env[t.id] = v
    elif isinstance(t, (ast.Tuple, ast.List)):
        if isinstance(value, (ast.Tuple, ast.List)) and len(value.elts) == len(t.elts):
            vals = [lin_of(x, env, const) for x in value.elts]
            for tt, vv, ee in zip(t.elts, vals, value.elts):
                _bind(tt, ee, vv, env, fresh, const)
        else:
            for tt in t.elts:
                _bind(tt, None, None, env, fresh, const)

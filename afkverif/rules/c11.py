"""C11 - every broker request is bounded by the client timeout.

Decided: a timer is armed on every non-raising path of the request wrapper
with the configured (or stated minimum) delay; it is released by an on-both
stage that was registered after the handle existed; the expiry path cancels
the request and substitutes a timed-out Failure; the disconnect option only
drops the transport; bootstrap requests carry addTimeout; the join minimum is
forwarded; only the wrapper calls makeRequest.  Late replies are C06.R4/R5.
Not decided: wall-clock behaviour of the reactor.
"""
import ast

from ..model import self_attr, unparse, walk_body_shallow
from .util import *  # noqa: F401,F403
from .util import chains_in, origin_text, at, stored_forms, const_value, bootstrap_names, call_name, call_recv, calls_in, evaluated_unconditionally, kwarg, need, node_assign_value, norm, registrations, where

TECHNIQUE = "timer armed/released pairing on the CFG, registration-kind and free-variable-before-registration checks, " \
            "who-may-call"
EXPLANATION = (
    "Rules over KafkaClient._make_request_to_broker and its closures, the bootstrap sender, the coordinator sender "
    "and _KafkaBrokerClient.disconnect: callLater post-dominates makeRequest on every normal path; its delay is "
    "self.timeout or max(self.timeout, min_timeout); the handle is cancelled under .active() in a handler registered "
    "with addBoth after the handle was assigned; the expiry closure assigns a Failure(RequestTimedOutError) that the "
    "on-both handler returns in place of the result; makeRequest has one caller."
)
SHARED = [('C06', ['R1'], 'an id still tracked (timed out, awaiting its late reply) is never reused: that reply cannot complete a newer request'), ('C10', ['R1', 'R4'], 'after the silent connection is dropped the unanswered requests are re-sent on one new connection'), ('C06', ['R4', 'R5'], 'a reply that arrives after the timeout is discarded without disturbing any other request'), ('C06', ['R6'], 'replies on the wire are framed and delivered by the receiver (nothing in between drops them)')]
ASSUMPTIONS = ["reactor.callLater fires once after the delay unless cancelled", "Deferred.addTimeout cancels after the delay"]
KC = "client:KafkaClient"


def run(ctx):
    prog = ctx.prog
    w = ctx.func(KC + "._make_request_to_broker")
    cf = ctx.cfg(w)
    to = w.nested.get("_mrtb_timeout") or next((g for g in w.nested.values() if calls_in(g, "cancel")), None)
    cb = w.nested.get("_mrtb_cb") or next((g for g in w.nested.values() if calls_in(g, "active")), None)
    need(to is not None and cb is not None, "timeout closures of _make_request_to_broker not found")

    # ---- R1 timer per request
    r = ctx.rule("R1", "a timer is armed after makeRequest on every normal path, with timeout or max(timeout, minimum)", 2, "B")
    mk = [n for n in cf.nodes if any(call_name(c) == "makeRequest" for c in n.calls())]
    cl = [n for n in cf.nodes if any(call_name(c) == "callLater" for c in n.calls())]
    need(len(mk) == 1 and len(cl) == 1, "makeRequest / callLater not found once in the wrapper")
    c0 = [x for x in cl[0].calls() if call_name(x) == "callLater"][0]
    r.check(not cf.normal_exits_from(mk[0].id, avoid=[cl[0].id]) and evaluated_unconditionally(cl[0].stmt, c0),
            "%s#timer-after-request" % w.qname,
            "a request can be issued without a timeout timer", where(w, mk[0].stmt), "silent broker: the request never resolves")
    c = [x for x in cl[0].calls() if call_name(x) == "callLater"][0]
    dv = norm(c.args[0])
    defs = [x for x in walk_body_shallow(w.body) if isinstance(x, ast.Assign) and unparse(x.targets[0]) == dv]
    # every value the delay can take, case by case: the plain timeout exactly when no minimum was stated
    cases_ = []
    for x in defs:
        dn_ = cf.node_of(x)
        if dn_ is not None:
            cases_ += value_cases(ctx, w, dn_, x.value)
    mp = [p_ for p_ in w.params if "min" in p_ and "timeout" in p_]
    mpn = mp[0] if mp else "min_timeout"
    okd = bool(cases_) and prog.resolve_callable(w, c.args[1]) is to
    for f_, e_ in cases_:
        t_ = norm(e_)
        if t_ == "self.timeout":
            okd = okd and ("%s is None" % mpn, True) in f_
        elif t_ in ("max(self.timeout, %s)" % mpn, "max(%s, self.timeout)" % mpn):
            okd = okd and ("%s is None" % mpn, False) in f_
        else:
            okd = False
    r.check(okd, "%s#timer-delay" % w.qname, "timer delay is not the client timeout (or the stated longer minimum): %s" %
            [norm(x.value) for x in defs], where(w, c), "requests outlive the configured bound")

    # ---- R2 timer released on both outcomes, handle assigned before registration
    r = ctx.rule("R2", "the timer is cancelled (under active()) by an on-both stage registered after the handle exists", 3, "C")
    dreq = unparse(mk[0].stmt.targets[0]) if isinstance(mk[0].stmt, ast.Assign) else None
    regs = [g for g in registrations(w, prog) if g["root"] == dreq]
    both = [g for g in regs if g["kind"] == "both" and prog.resolve_callable(w, g["cb"]) is cb]
    r.check(len(both) == 1, "%s#release-on-both" % w.qname, "the timer-release handler is not registered with addBoth on the request",
            where(w, w.node), "failed or cancelled requests leave their timer armed: it later cancels nothing / leaks")
    ccb = ctx.cfg(cb)
    fcb = ctx.facts(cb)
    handle = unparse(cl[0].stmt.targets[0]) if isinstance(cl[0].stmt, ast.Assign) else None
    cn = [n for n in ccb.nodes if any(call_name(x) == "cancel" and call_recv(x) == handle for x in n.calls())]
    r.check(bool(cn) and all(("%s.active()" % handle, True) in fcb[n.id] for n in cn), "%s#cancel-under-active" % cb.qname,
            "the timer is not cancelled under `.active()`", where(cb, cb.node), "AlreadyCalled raised inside the request's callback chain")
    regn = cf.containing(both[0]["call"])[0] if both else None
    r.check(regn is not None and handle is not None and cf.dominates([cl[0].id], regn.id), "%s#handle-before-registration" % w.qname,
            "the release handler is registered before the timer handle is assigned (the request may already have fired)",
            where(w, w.node), "NameError in the callback chain for a synchronously completed request")

    # ---- R3 expiry path
    r = ctx.rule("R3", "expiry cancels the request and substitutes Failure(RequestTimedOutError); otherwise the result passes", 2, "C+D")
    # the expiry closure records Failure(RequestTimedOutError(...)) in a cell it shares with the on-both handler - a
    # `nonlocal` name, or a list of the enclosing function it appends to - and cancels the request
    tfs = [x for x in walk_body_shallow(to.body) if isinstance(x, ast.Call) and call_name(x) == "Failure" and x.args and isinstance(x.args[0], ast.Call)
           and call_name(x.args[0]) == "RequestTimedOutError"]
    cell, set_facts, unset_facts, cell_reads = None, [], [], ()
    for x in walk_body_shallow(to.body):
        if isinstance(x, ast.Assign) and tfs and (x.value is tfs[0]) and isinstance(x.targets[0], ast.Name) and any(
                isinstance(y, ast.Nonlocal) and x.targets[0].id in y.names for y in walk_body_shallow(to.body)):
            cell = x.targets[0].id
            set_facts, unset_facts, cell_reads = [("%s is None" % cell, False), (cell, True)], [("%s is None" % cell, True), (cell, False)], (cell,)
        if isinstance(x, ast.Call) and call_name(x) == "append" and tfs and x.args and x.args[0] is tfs[0] and isinstance(x.func.value, ast.Name):
            c_ = x.func.value.id
            outer_defs = [y for y in walk_body_shallow(w.body) if isinstance(y, ast.Assign) and unparse(y.targets[0]) == c_ and isinstance(y.value, ast.List) and not y.value.elts]
            if outer_defs:
                cell = c_
                set_facts, unset_facts, cell_reads = [(cell, True), ("not %s" % cell, False)], [(cell, False), ("not %s" % cell, True)], ("%s[0]" % cell, "%s[-1]" % cell)
    ok = len(tfs) == 1 and cell is not None and any(call_recv(x) == dreq for x in calls_in(to, "cancel"))
    r.check(ok, "%s#expiry" % to.qname, "expiry does not cancel the request and record a timed-out Failure", where(to, to.node),
            "timed-out request fails with CancelledError or never fails")
    rets = return_cases(ctx, cb)
    ok = cell is not None and any(norm(e_) in cell_reads and any(sf in f_ for sf in set_facts) for n_, f_, e_ in rets) and any(
        norm(e_) == cb.first_param() and any(uf in f_ for uf in unset_facts) for n_, f_, e_ in rets) and len(rets) == 2
    r.check(ok, "%s#substitution" % cb.qname, "on-both handler does not return the timed-out failure when set, else its input",
            where(cb, cb.node), "reply dropped / timeout reported as cancellation")

    # ---- R5 disconnect option
    r = ctx.rule("R5", "disconnect-on-timeout drops only the transport, under the option", 2, "B")
    cto = ctx.cfg(to)
    fto = ctx.facts(to)
    dn = [n for n in cto.nodes if any(call_name(x) == "disconnect" for x in n.calls())]
    r.check(bool(dn) and all(("self._disconnect_on_timeout", True) in fto[n.id] for n in dn), "%s#disconnect-under-option" % to.qname,
            "broker connection is dropped on timeout regardless of the option (or never)", where(to, to.node))
    # ... and under nothing but the option: every expired request drops the silent connection, whatever kind it is
    extra_ = sorted({norm(t.stmt.test) for n in dn for t, lab in cto.control_deps_transitive(n.id) if t.kind == "test" and not (
        chains_in(t.stmt.test) <= {"self", "self._disconnect_on_timeout"})})
    r.check(bool(dn) and not extra_, "%s#disconnect-only-under-option" % to.qname,
            "with the option on, the silent connection is dropped only when also %s" % extra_, where(to, to.node),
            "a timed-out group join no longer drops the connection: the other unanswered requests on it are never re-sent")
    dis = ctx.func("brokerclient:_KafkaBrokerClient.disconnect")
    eff = [x for x in calls_in(dis) if call_name(x) in ("clear", "pop", "popitem", "errback", "callback", "close", "cancel")]
    r.check(bool(calls_in(dis, "loseConnection")) and not eff and not prog.direct_writes(dis), "%s#transport-only" % dis.qname,
            "disconnect() touches the request table", where(dis, dis.node), "unanswered requests are not re-sent on the new connection")

    lost = ctx.func("brokerclient:_KafkaBrokerClient._connectionLost")
    cl = ctx.cfg(lost)
    marks = [n for n in cl.nodes if n.kind == "stmt" and isinstance(n.stmt, ast.Assign) and norm(n.stmt.targets[0]).endswith(".sent") and
             isinstance(n.stmt.value, ast.Constant) and n.stmt.value.value is None]
    recon = [n for n in cl.nodes if any(call_name(x) == "_connect" and call_recv(x) == "self" for x in n.calls())]
    r.check(bool(marks) and bool(recon) and not any(m.id in cl.reach([x.id]) for m in marks for x in recon), "%s#resend-after-drop" % lost.qname,
            "after the silent connection is dropped the unanswered requests are not marked unsent before the reconnect starts",
            where(lost, lost.node), "endpoint whose connect() completes synchronously: nothing is re-sent on the new connection")

    # ---- R6 bootstrap timeout
    r = ctx.rule("R6", "every bootstrap request is chained with addTimeout(self.timeout, self.reactor)", 1, "A")
    for f in prog.functions(module="client"):
        for x in calls_in(f, "request"):
            if call_recv(x) == bootstrap_names(f)[1] and bootstrap_names(f)[1] is not None:
                cff_ = ctx.cfg(f)
                par = [y for y in walk_body_shallow(f.body) if isinstance(y, ast.Call) and call_name(y) == "addTimeout" and
                       isinstance(y.func, ast.Attribute) and cff_.containing(y) and any(
                           o is x for o in (deferred_origins(cff_, cff_.containing(y)[0].id, y.func.value) or []))]
                r.check(bool(par) and [norm(a) for a in par[0].args] == ["self.timeout", "self.reactor"], "%s#request.addTimeout" % f.qname,
                        "bootstrap request without the client timeout", where(f, x), "silent bootstrap host blocks metadata loading for ever")

    # the deadline is the configured one: self.timeout is the constructor argument converted from msecs, nothing else
    kinit = ctx.func(KC + ".__init__")
    tforms = stored_forms(ctx, kinit, "timeout")
    tp_ = [p_ for p_ in kinit.params if p_ == "timeout"]
    ckn = ctx.cfg(kinit)
    okt_ = bool(tp_)
    wns_ = [n for n in ckn.nodes if node_assign_value(n, "timeout") is not None]
    okt_ = okt_ and bool(wns_)
    for wn in wns_:
        v = at(ctx, kinit, wn.id, node_assign_value(wn, "timeout"))
        okt_ = okt_ and isinstance(v, ast.BinOp) and isinstance(v.op, ast.Div) and const_value(prog, kinit, v.right) in (1000, 1000.0) and \
            origin_text(ckn, wn.id, v.left, kinit.params) in ("float(<param:timeout>)", "<param:timeout>")
    r1b = ctx.rule("R9", "the client timeout is the configured value (unit conversion only)", 1, "A")
    r1b.check(okt_,
              "%s#timeout-as-configured" % kinit.qname, "self.timeout is computed as %s" % tforms, where(kinit, kinit.node),
              "with any setting below a built-in floor an unanswered request stays pending past the configured deadline")

    # ---- R7 join minimum
    r = ctx.rule("R7", "join passes a minimum above the session timeout; the coordinator sender forwards it to the wrapper; nobody else asks for longer", 3, "A")
    sj = ctx.func("_group:Coordinator.send_join_group_request")
    cs = [x for x in calls_in(sj, "_send_request_to_coordinator")]
    mt = kwarg(cs[0], "min_timeout") if cs else None
    mtv = const_value(prog, sj, mt) if mt is not None else None
    r.check(isinstance(mtv, (int, float)) and not isinstance(mtv, bool) and mtv >= 30, "%s#min_timeout" % sj.qname,
            "join request does not ask for a timeout above the 30s rebalance window", where(sj, sj.node),
            "join times out client-side while the group is still rebalancing: rejoin storm")
    # ... and only the join: every other group request (sync, heartbeat, leave) is bounded by the client timeout
    others = sorted({"%s line %d" % (f_.qname, c_.lineno) for f_ in prog.funcs.values() if f_.module.name in ("_group", "consumer", "producer") and f_ is not sj
                     for c_ in calls_in(f_) if kwarg(c_, "min_timeout") is not None})
    r.check(not others, "_group#only-the-join-asks-for-longer", "a request other than the group join is given a minimum timeout: %s" % others,
            where(sj, sj.node), "a SyncGroup to a silent coordinator stays pending for the join's 35 s on a 10 s client; with disconnect-on-timeout the "
            "other requests on that connection are re-sent 25 s late")
    src = ctx.func(KC + "._send_request_to_coordinator")
    fw = [x for x in calls_in(src, w.name)]
    r.check(bool(fw) and any(k.arg is None and norm(k.value) == src.node.args.kwarg.arg for k in fw[0].keywords) if src.node.args.kwarg
            else False, "%s#forwards-kwargs" % src.qname, "coordinator sender does not forward **kwargs (min_timeout) to the wrapper",
            where(src, src.node))

    # ---- R8 who may call makeRequest
    r = ctx.rule("R8", "makeRequest is called only from the wrapper", 1, "A")
    callers = sorted({f.qname for f in prog.funcs.values() if f.module.name != "brokerclient" or True
                      for x in calls_in(f, "makeRequest")})
    r.check(callers == [w.qname], "%s#callers(makeRequest)" % KC, "makeRequest called from %s" % callers, facts=callers,
            witness="a request issued around the wrapper has no timeout")


MUTANTS = [
    {"id": "release-on-success-only", "file": "client.py", "old": "        d.addBoth(_mrtb_cb)", "new": "        d.addCallback(_mrtb_cb)", "expect": "C11.R2"},
    {"id": "timer-conditional", "file": "client.py", "old": "        dc = self.reactor.callLater(timeout, _mrtb_timeout)",
     "new": "        dc = self.reactor.callLater(timeout, _mrtb_timeout) if expectResponse else None", "expect": ["C11.R1", "C11.R2"],
     "accept_analysis_error": True},
    {"id": "timer-wrong-delay", "file": "client.py", "old": "        dc = self.reactor.callLater(timeout, _mrtb_timeout)",
     "new": "        dc = self.reactor.callLater(timeout * 10, _mrtb_timeout)", "expect": "C11.R1"},
    {"id": "register-before-handle", "file": "client.py",
     "old": "        dc = self.reactor.callLater(timeout, _mrtb_timeout)\n        # Setup a callback on the request deferred to cancel both callLater\n        d.addBoth(_mrtb_cb)",
     "new": "        d.addBoth(_mrtb_cb)\n        dc = self.reactor.callLater(timeout, _mrtb_timeout)", "expect": "C11.R2"},
    {"id": "cancel-unguarded", "file": "client.py", "old": "            if dc.active():\n                dc.cancel()", "new": "            dc.cancel()", "expect": "C11.R2"},
    {"id": "expiry-no-substitution", "file": "client.py", "old": "            if failure is not None:\n                return failure\n            return result",
     "new": "            return result", "expect": "C11.R3"},
    {"id": "expiry-no-cancel", "file": "client.py", "old": "            d.cancel()\n\n            if self._disconnect_on_timeout:",
     "new": "            if self._disconnect_on_timeout:", "expect": "C11.R3"},
    {"id": "disconnect-always", "file": "client.py", "old": "            if self._disconnect_on_timeout:\n                log.info",
     "new": "            if True:\n                log.info", "expect": "C11.R5"},
    {"id": "disconnect-clears-table", "file": "brokerclient.py",
     "old": "            self.proto.transport.loseConnection()\n\n    def close", "new": "            self.proto.transport.loseConnection()\n            self.requests.clear()\n\n    def close",
     "expect": "C11.R5"},
    {"id": "bootstrap-no-timeout", "file": "client.py", "old": "response = yield self._until_close(protocol.request(request).addTimeout(self.timeout, self.reactor))",
     "new": "response = yield self._until_close(protocol.request(request))", "expect": "C11.R6"},
    {"id": "join-no-minimum", "file": "_group.py", "old": "            min_timeout=35.0,\n", "new": "", "expect": "C11.R7"},
    {"id": "kwargs-dropped", "file": "client.py", "old": "            broker, request_id, encoded_request, expectResponse=True, **kwargs\n",
     "new": "            broker, request_id, encoded_request, expectResponse=True\n", "expect": "C11.R7"},
    {"id": "bypass-wrapper", "file": "client.py", "old": "                d = self._make_request_to_broker(broker, requestId, request)\n                resp = yield d",
     "new": "                d = broker.makeRequest(requestId, request)\n                resp = yield d", "expect": "C11.R8"},
]
TWINS = [
    {"id": "addboth-as-addcallbacks", "file": "client.py", "old": "        d.addBoth(_mrtb_cb)", "new": "        d.addCallbacks(_mrtb_cb, _mrtb_cb)"},
]

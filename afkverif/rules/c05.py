"""C05 - responses and message sets decode to exactly what was encoded.

Decided: for each response decoder the grammar extracted from the source
(cursor-threaded reads, count loops, per-version arms) equals the protocol
schema and every leaf reaches the struct attribute the schema names; the
target shape of every relative_unpack (a constant n-field format must be
destructured into n names unless the value is never used); reader/writer
symmetry of message formats, consumer-protocol blobs and primitives; the codec
table of the decoder; absolute offsets of compressed wrappers (= C02.R8);
sibling agreement of the per-magic decoders.
Not decided: equality of decompressed bytes (library behaviour); snappy.
"""
import ast

from .. import kafka_schema as KS
from .. import wireshape as W
from ..model import ShapeError, unparse, walk_body_shallow
from .c02 import magic_arms, wrapper_offset_rule
from .c04 import KCQ, diff_terms, tmatch
from .util import *  # noqa: F401,F403
from .util import at, const_value, call_name, call_recv, calls_in, need, norm, where

TECHNIQUE = "wire-grammar extraction of decoders vs hand-transcribed schema with leaf->struct-attribute flow; unpack-shape " \
            "check; encoder/decoder grammar symmetry"
EXPLANATION = (
    "afkverif.wireshape interprets every decode_* function of afkak/kafkacodec.py: relative_unpack / read_* consume "
    "typed leaves and bind names, `for _ in range(n)` over the immediately decoded INT32 becomes ARRAY, names are "
    "followed through appends, dict stores and simple wrappers to the constructor argument they reach (attribute order "
    "read from common.py). The result is compared leaf by leaf with afkverif.kafka_schema. Encoder and decoder grammars "
    "of message formats, blobs and primitives are compared with each other (structural content of encode-then-decode = "
    "identity)."
    ' Also: a message is rejected only for values read from its own bytes, fields are delivered as read (R4); blob decoders accept whatever the encoders write (R3).'
)
SHARED = [('C04', ['R3'], 'encoding then decoding is the identity: the encoder writes the message as given (timestamp 0 included)'),
          ('C12', ['R3'], 'every entry that is completely there is decoded: the set iterator stops only at the end of the data or on an underflow')]
ASSUMPTIONS = ["Kafka protocol guide layouts as transcribed in afkverif/kafka_schema.py", "gzip round-trips bytes exactly"]


def attr_diff(prog, env, got, want, path=""):
    """compare leaf attribute flow of extracted decoder terms with the schema"""
    for i in range(min(len(got), len(want))):
        g, w = got[i], want[i]
        if g[0] != w[0]:
            continue
        if g[0] == "P" or g[0] in ("STR", "BYTES"):
            var = g[2] if g[0] == "P" else g[1]
            exp = w[2] if w[0] == "P" else w[1]
            if exp is None:
                continue
            a = W.attrs_of(prog, env, var)
            if exp == "-":
                continue
            if exp not in a:
                return "%s field #%d `%s` reaches %s, schema says %s" % (path or "body", i, var, sorted(a) or "nothing", exp)
        elif g[0] == "ARRAY":
            d = attr_diff(prog, env, g[2], w[2], "%s/array#%d" % (path, i))
            if d:
                return d
    return None


def used_after(func, name, stmt, arity=None):
    """is local `name` (bound to the whole tuple) used as a value anywhere in func?  Indexing it with a constant
    (`fields[1]`) and destructuring it into as many names as it has fields (`a, b = fields`) are not such uses."""
    fine = set()
    for n in ast.walk(func.node):
        if isinstance(n, ast.Subscript) and isinstance(n.value, ast.Name) and n.value.id == name and isinstance(n.slice, ast.Constant) and isinstance(
                n.slice.value, int) and (arity is None or -arity <= n.slice.value < arity):
            fine.add(id(n.value))
        if isinstance(n, ast.Assign) and isinstance(n.value, ast.Name) and n.value.id == name and len(n.targets) == 1 and isinstance(
                n.targets[0], (ast.Tuple, ast.List)) and (arity is None or len(n.targets[0].elts) == arity):
            fine.add(id(n.value))
    for n in ast.walk(func.node):
        if isinstance(n, ast.Name) and n.id == name and isinstance(n.ctx, ast.Load) and id(n) not in fine:
            return True
    return False


def resolve_decoder(ctx, name, var="api_version"):
    """The function that holds the layout a schema entry describes, with the constant arguments it is specialised
    for.  `decode_x` is the method itself; `decode_x.vN` is what decode_x hands the reply to when the negotiated
    version is N: the nested per-version decoder its dispatch on the version returns for N (whatever it is called),
    together with the constants the dispatch passes (a format, a flag)."""
    from ..model import AnalysisError
    prog = ctx.prog
    if ".v" not in name:
        return ctx.func("%s.%s" % (KCQ, name)), None
    base, ver = name.rsplit(".v", 1)
    dp = ctx.func("%s.%s" % (KCQ, base))
    cf = ctx.cfg(dp)
    reach = nodes_reached_with(cf, {var: int(ver)})
    cands = []
    for i in sorted(reach):
        n = cf.nodes[i]
        if n.kind == "stmt" and isinstance(n.stmt, ast.Return) and isinstance(n.stmt.value, ast.Call):
            g = prog.resolve_callable(dp, n.stmt.value.func)
            if g is not None and g.parent is dp:
                cands.append((g, n.stmt.value))
    if len(cands) != 1:
        raise ShapeError("%s does not hand a version-%s reply to exactly one nested decoder" % (dp.qname, ver))
    g, call = cands[0]
    consts = {}
    for i, a in enumerate(call.args):
        if i < len(g.params) and (isinstance(a, ast.Constant) or (isinstance(a, ast.Name) and module_const(dp, a.id) is not None)):
            consts[g.params[i]] = a
    for k in call.keywords:
        if k.arg in g.params and (isinstance(k.value, ast.Constant) or (isinstance(k.value, ast.Name) and module_const(dp, k.value.id) is not None)):
            consts[k.arg] = k.value
    return g, (consts or None)


def run(ctx):
    prog = ctx.prog

    # ---- R1 response shapes
    r = ctx.rule("R1", "each response decoder's grammar and leaf->attribute flow equal the schema", 15, "F")
    envs = {}
    for name, want in sorted(KS.RESPONSES.items()):
        f, consts_ = resolve_decoder(ctx, name)
        terms, env = W.decoder_terms(prog, f, consts_)
        envs[name] = (f, terms, env)
        terms = [t for t in terms if not (t[0] == "ALT" and not any(b for c, b in t[1]))]
        problem = diff_terms(terms, want, check_bind=False)
        if not problem:
            problem = attr_diff(prog, env, terms, want)
        r.check(not problem, "%s.%s#grammar" % (KCQ, name), "response layout: %s" % problem, where(f, f.node),
                "a well-formed response decodes to other values than it encodes (or decoding fails)",
                facts=["%d leaves" % len(W.leaves(terms))])
    f = ctx.func(KCQ + ".decode_fetch_response")
    terms, env = W.decoder_terms(prog, f)
    envs["decode_fetch_response"] = (f, terms, env)
    problem = None
    if not (len(terms) == 2 and terms[0][0] == "ALT" and terms[1][0] == "ARRAY"):
        problem = "unexpected overall shape %s" % [t[0] for t in terms]
    else:
        arms = {c: b for c, b in terms[0][1]}
        for ver, cond in ((0, "api_version == 0"), (2, "api_version >= 2")):
            if cond not in arms:
                problem = "no header arm for `%s`" % cond
                break
            problem = diff_terms(arms[cond], KS.FETCH_RESPONSE[ver], "header v%d" % ver, check_bind=False)
            if problem:
                break
        if not problem:
            problem = diff_terms([terms[1]], KS.FETCH_RESPONSE["body"], check_bind=False) or attr_diff(prog, env, [terms[1]], KS.FETCH_RESPONSE["body"])
    r.check(not problem, "%s.decode_fetch_response#grammar" % KCQ, "fetch response layout: %s" % problem, where(f, f.node))
    r.info("decode_fetch_response leaves num_topics unbound for version 1 (unreachable under the quantifier: min 0, max >= 2)")

    # every element a counted loop reads is collected: nothing inside the loop decides to drop one
    for name in sorted(KS.RESPONSES):
        f, _c = resolve_decoder(ctx, name)
        cfd_ = ctx.cfg(f)
        for ln in [n for n in cfd_.nodes if n.kind == "for" and isinstance(n.stmt.iter, ast.Call) and norm(n.stmt.iter.func) == "range"]:
            lbody = cfd_.reach([ln.id], avoid=[t for t, lab in cfd_.succ[ln.id] if lab == ("iter", False)])
            sinks_ = [n for n in cfd_.nodes if n.id in lbody and n.stmt is not None and n.kind == "stmt" and (
                any(call_name(c) in ("append", "add") for c in n.calls()) or any(isinstance(x, ast.Yield) for x in n.walk()) or (
                    isinstance(n.stmt, ast.Assign) and isinstance(n.stmt.targets[0], ast.Subscript)))]
            for sn in sinks_:
                deps = [norm(t.stmt.test) for t, lab in cfd_.control_deps_transitive(sn.id, within=lbody) if t.kind == "test" and isinstance(
                    t.stmt, ast.If) and "api_version" not in norm(t.stmt.test)]
                r.check(not deps, "%s.%s#element-collected(%s)" % (KCQ, name, sn.text(40)),
                        "an element read inside a counted loop is collected only when %s" % deps, where(f, sn.stmt),
                        "entries the decoder does not like are silently dropped: the decoded list is shorter than what was encoded")

    # ---- R2 unpack shape
    r = ctx.rule("R2", "a constant n-field relative_unpack is destructured into n names (or its value is never used)", 40, "A")
    n_sites = 0
    for f in sorted([x for x in prog.funcs.values() if x.module.name == "kafkacodec"], key=lambda x: x.qname):
        for st in walk_body_shallow(f.body):
            if isinstance(st, ast.Assign) and isinstance(st.value, ast.Call) and call_name(st.value) == "relative_unpack":
                n_sites += 1
                t = st.targets[0]
                fm = st.value.args[0]
                vt = t.elts[0] if isinstance(t, ast.Tuple) and len(t.elts) == 2 else None
                fmv = const_value(prog, f, fm)
                if not isinstance(fmv, str):
                    r.ok("%s#unpack(%s) variable-length" % (f.qname, norm(fm)), where(f, st))
                    continue
                fm = ast.Constant(value=fmv)
                codes = W.parse_fmt(fm.value)[1] or []
                if isinstance(vt, ast.Tuple):
                    r.check(len(vt.elts) == len(codes), "%s#unpack(%s)->%s" % (f.qname, fm.value, norm(vt)),
                            "format has %d fields, target destructures %d" % (len(codes), len(vt.elts)), where(f, st), "ValueError at run time")
                else:
                    top = f
                    used = vt is not None and used_after(top, norm(vt), st, len(codes))
                    r.check(not used, "%s#unpack(%s)->%s" % (f.qname, fm.value, norm(vt) if vt is not None else norm(t)),
                            "`%s` is bound to the whole %d-tuple returned by relative_unpack and then used as a value" % (
                                norm(vt) if vt is not None else norm(t), len(codes)), where(f, st),
                            "decoded timestamp is the tuple (1234,) instead of 1234: Message != what was encoded, re-encoding raises")
    r.info("relative_unpack sites: %d" % n_sites)

    # ---- R3 reader/writer symmetry
    r = ctx.rule("R3", "encoder and decoder grammars agree: message formats, consumer-protocol blobs, primitives", 9, "F")
    em = ctx.func(KCQ + "._encode_message")
    dm = ctx.func(KCQ + "._decode_message")
    et, _ = W.encoder_terms(prog, em)
    enc = {}
    for t in W.hoist_alt(et, "magic"):
        if t[0] == "ALT":
            for c, b in t[1]:
                for mag in (0, 1):
                    if c.replace(" ", "") == "message.magic==%d" % mag:
                        enc[mag] = W.types_only(W.collapse_alts(b))
    hdr, _e = W.decoder_terms(prog, dm)
    hdr_types = W.types_only([t for t in hdr if t[0] == "P"])
    cfd = ctx.cfg(dm)
    fcd = ctx.facts(dm)
    _dm, marms = magic_arms(ctx)
    hdr_leaves = [t for t in hdr if t[0] == "P"]
    hdr_att = hdr_leaves[2][2] if len(hdr_leaves) >= 3 else None  # crc, magic, attributes
    for mag in (0, 1):
        nested = marms[mag][0]
        bt, _e2 = W.decoder_terms(prog, nested)
        dec = hdr_types + W.types_only([t for t in bt if t[0] in ("P", "BYTES", "STR")])
        r.check(enc.get(mag) == dec, "%s#symmetry(magic %d)" % (dm.qname, mag), "encoder writes %s, decoder reads %s" % (enc.get(mag), dec),
                where(nested, nested.node), "encode then decode is not the identity on messages")
    for e, d in (("encode_join_group_protocol_metadata", "decode_join_group_protocol_metadata"),
                 ("encode_sync_group_member_assignment", "decode_sync_group_member_assignment")):
        te, _x = W.encoder_terms(prog, ctx.func("%s.%s" % (KCQ, e)))
        td, _y = W.decoder_terms(prog, ctx.func("%s.%s" % (KCQ, d)))
        td = [t for t in td if not (t[0] == "ALT" and not any(b for c, b in t[1]))]
        r.check(W.types_only(te) == W.types_only(td), "%s.%s#symmetry" % (KCQ, d), "encoder %s vs decoder %s" % (W.types_only(te), W.types_only(td)),
                where(ctx.func("%s.%s" % (KCQ, d)), None), "a member decodes a different assignment than the leader encoded")
        # ... and accepts everything the encoder can write: the encoder has no limits on counts or lengths, so an explicit
        # rejection in the decoder may depend on the version field only
        df_ = ctx.func("%s.%s" % (KCQ, d))
        cd_ = ctx.cfg(df_)
        ver_ = [t[2] for t in td if t[0] == "P"][:1]
        caps = []
        for n in cd_.nodes:
            if n.kind == "stmt" and isinstance(n.stmt, ast.Raise):
                for t, lab in cd_.control_deps_transitive(n.id):
                    if t.kind == "test" and {v for v in names_in(t.stmt.test) if not v[:1].isupper()} - set(ver_):
                        caps.append("line %d: `%s`" % (n.lineno, norm(t.stmt.test, 60)))
        r.check(not caps, "%s.%s#accepts-what-is-encoded" % (KCQ, d), "the decoder rejects blobs the encoder writes: %s" % caps, where(df_, df_.node),
                "a member cannot decode its own (large) assignment: it rejoins in a loop and its partitions are consumed by nobody")
    import struct
    for wname, rname, size in (("write_short_bytes", "read_short_bytes", 2), ("write_int_string", "read_int_string", 4)):
        wf, rf = ctx.func("_util:" + wname), ctx.func("_util:" + rname)
        wfm = {const_value(prog, wf, c.args[0]) for c in calls_in(wf, "pack") if c.args} - {None}
        if wname == "write_short_bytes":
            wfm |= {">h"} if "_NULL_SHORT_STRING" in unparse(wf.node) else set()
        rfm = {const_value(prog, rf, c.args[0]) for c in calls_in(rf, "unpack") if c.args} - {None}
        null_r = any(isinstance(x, ast.Compare) and norm(x).endswith("== -1") for x in ast.walk(rf.node))
        r.check(len(wfm) == 1 and wfm == rfm and struct.calcsize(list(wfm)[0]) == size and null_r, "_util:%s/%s#symmetry" % (wname, rname),
                "length prefix written as %s, read as %s; null marker -1 recognised=%s" % (sorted(wfm), sorted(rfm), null_r), where(rf, rf.node))

    for rname, enc_ in (("read_short_ascii", "ascii"), ("read_short_text", "utf-8")):
        rf = ctx.func("_util:" + rname)
        crf = ctx.cfg(rf)
        retn = [n for n in crf.nodes if n.kind == "stmt" and isinstance(n.stmt, ast.Return)]
        okt = len(retn) >= 1
        for n in retn:
            v = n.stmt.value
            first = v.elts[0] if isinstance(v, ast.Tuple) and len(v.elts) == 2 else None
            first = at(ctx, rf, n.id, first) if first is not None else None
            okt = okt and isinstance(first, ast.Call) and call_name(first) == "decode" and len(first.args) == 1 and str(const_value(prog, rf, first.args[0])).lower() == enc_
        r.check(okt, "_util:%s#decodes-on-every-path" % rname, "the text reader returns something other than the %s-decoded bytes on some path" % enc_,
                where(rf, rf.node), "an empty STRING decodes to b'' instead of '' (a JoinGroup error reply carries empty ids)")

    # a mapping handed to a result struct is keyed by the decoded id of its entries, not by their position on the wire
    dmr = ctx.func(KCQ + ".decode_metadata_response")
    okk, whyk = False, "the per-topic partition map is not built by storing each PartitionMetadata under its own partition id"
    for tm in calls_in(dmr, "TopicMetadata"):
        if len(tm.args) >= 3:
            mv = tm.args[2]
            if isinstance(mv, ast.Name):
                st_ = [x for x in walk_body_shallow(dmr.body) if isinstance(x, ast.Assign) and isinstance(x.targets[0], ast.Subscript) and norm(x.targets[0].value) == mv.id]
                cmp_ = [x for x in walk_body_shallow(dmr.body) if isinstance(x, ast.Assign) and norm(x.targets[0]) == mv.id and isinstance(x.value, ast.DictComp)]
                def _pm_call(x):
                    # the stored value: the PartitionMetadata(...) call itself or a local holding it
                    v_ = x.value
                    if isinstance(v_, ast.Name):
                        ds_ = [y for y in walk_body_shallow(dmr.body) if isinstance(y, ast.Assign) and norm(y.targets[0]) == v_.id]
                        v_ = ds_[0].value if len(ds_) == 1 else None
                    return v_ if isinstance(v_, ast.Call) and call_name(v_) == "PartitionMetadata" and len(v_.args) >= 2 else None
                if st_ and all(_pm_call(x) is not None and (norm(x.targets[0].slice) == norm(_pm_call(x).args[1]) or (
                        isinstance(x.value, ast.Name) and norm(x.targets[0].slice) == "%s.partition" % x.value.id)) for x in st_):
                    okk = True
                elif cmp_ and all(isinstance(x.value.value, ast.Call) and call_name(x.value.value) == "PartitionMetadata" and len(x.value.value.args) >= 2 and
                                  norm(x.value.key) == norm(x.value.value.args[1]) for x in cmp_):
                    okk = True
            elif isinstance(mv, ast.DictComp) and isinstance(mv.value, ast.Call) and call_name(mv.value) == "PartitionMetadata" and len(mv.value.args) >= 2 and \
                    norm(mv.key) == norm(mv.value.args[1]):
                okk = True
            elif isinstance(mv, ast.DictComp) and isinstance(mv.value, ast.Name) and isinstance(mv.key, ast.Attribute) and norm(mv.key) == "%s.partition" % mv.value.id:
                okk = True
            else:
                whyk = "the per-topic partition map is `%s`: keyed by something else than the partition id of each entry" % norm(mv, 60)
    r.check(okk, "%s.decode_metadata_response#partition-map-keyed-by-id" % KCQ, whyk, where(dmr, dmr.node),
            "a metadata reply listing partitions out of order or with gaps (2,0,1 / 3,12): leaders are attributed to the wrong partitions")

    # ---- R4 codec table + R6 sibling agreement of the per-magic decoders
    r = ctx.rule("R4", "both per-magic decoders handle none/gzip/snappy with the matching decompressor and raise otherwise; "
                       "they agree on everything except the timestamp; rejection depends on the message's own fields only; fields are delivered as read", 7, "A")
    sibs = []
    for mag in (0, 1):
        nested = marms[mag][0]
        cn = ctx.cfg(nested)
        fn = ctx.facts(nested)
        table = {}
        # the codec variable may be computed in the per-format decoder or once in the enclosing dispatcher (closure)
        mask = []
        scope = nested
        while scope is not None and not mask:
            mask = [x for x in walk_body_shallow(scope.body) if isinstance(x, ast.Assign) and isinstance(x.value, ast.BinOp) and isinstance(
                x.value.op, ast.BitAnd) and "ATTRIBUTE_CODEC_MASK" in norm(x.value)]
            scope = scope.parent
        cv = norm(mask[0].targets[0]) if mask else "codec"
        for n in cn.nodes:
            for c in n.calls():
                if call_name(c) in ("gzip_decode", "snappy_decode"):
                    for t, pol in fn[n.id]:
                        if pol and t.startswith(cv + " == "):
                            table[t[len(cv) + 4:]] = call_name(c)
        plain = [n for n in cn.nodes if any(isinstance(x, ast.Yield) for x in n.walk()) and (cv + " == CODEC_NONE", True) in fn[n.id]]
        rz = [n for n in cn.nodes if n.kind == "stmt" and isinstance(n.stmt, ast.Raise) and all(((cv + " == %s" % k), False) in fn[n.id] for k in
                                                                                               ("CODEC_NONE", "CODEC_GZIP", "CODEC_SNAPPY"))]
        ok = table == {"CODEC_GZIP": "gzip_decode", "CODEC_SNAPPY": "snappy_decode"} and bool(plain) and bool(rz) and len(mask) == 1 and \
            hdr_att is not None and norm(mask[0].value) in ("%s & ATTRIBUTE_CODEC_MASK" % hdr_att, "ATTRIBUTE_CODEC_MASK & %s" % hdr_att)
        r.check(ok, "%s#codec-table" % nested.qname, "decoder codec table is %s (plain arm=%s, fall-through raise=%s)" % (table, bool(plain), bool(rz)),
                where(nested, nested.node), "gzip payload handed to snappy / unknown codec treated as plain")
        reads = [call_name(c) + ":" + norm(c.args[0]) if False else call_name(c) for c in calls_in(nested) if call_name(c) in ("read_int_string", "relative_unpack")]
        ctor = [c for c in calls_in(nested, "Message")]
        sibs.append((nested, reads, [norm(a) for a in ctor[0].args[:4]] if ctor else None))
    (f0, r0, c0), (f1, r1, c1) = sibs
    r.check([x for x in r1 if x != "relative_unpack"] == r0 and c0 == c1, "%s#siblings-agree" % dm.qname,
            "the two per-magic decoders differ beyond the timestamp: reads %s vs %s; Message args %s vs %s" % (r0, r1, c0, c1), where(dm, dm.node))
    # a message is rejected for what *it* contains (checksum, format, codec) - never for where it was found: every
    # `raise` of the message decoder and the decoders nested in it depends only on values read from the message bytes
    nest_ = [dm] + [g_ for g_ in prog.funcs.values() if g_.qname.startswith(dm.qname + ".")]
    data_p = [p_ for p_ in dm.params if p_ not in ("self", "cls")][:1]
    derived = set(data_p)
    for _round in range(6):
        for g_ in nest_:
            for x in walk_body_shallow(g_.body):
                if isinstance(x, (ast.Assign, ast.AugAssign)) and getattr(x, "value", None) is not None and names_in(x.value) & derived:
                    for t_ in (x.targets if isinstance(x, ast.Assign) else [x.target]):
                        derived |= {y.id for y in ast.walk(t_) if isinstance(y, ast.Name)}
            # the per-format decoders receive the rest of the message as arguments
            for c_ in calls_in(g_):
                h_ = prog.resolve_callable(g_, c_.func)
                if h_ in nest_:
                    for p_, a_ in zip([p for p in h_.params if p not in ("self", "cls")], c_.args):
                        if names_in(a_) & derived:
                            derived.add(p_)
    bad_r = []
    n_raise = 0
    for g_ in nest_:
        cg_ = ctx.cfg(g_)
        for n in cg_.nodes:
            if n.kind == "stmt" and isinstance(n.stmt, ast.Raise):
                n_raise += 1
                for t, lab in cg_.control_deps_transitive(n.id):
                    if t.kind != "test":
                        continue
                    foreign = {v for v in names_in(t.stmt.test) if v not in derived and v != "self" and not v[:1].isupper()
                               and v not in prog.module("kafkacodec").constants and v not in ("zlib", "len", "isinstance", "cls", "struct")}
                    if foreign:
                        bad_r.append("%s line %d: `%s` depends on %s" % (g_.name, n.lineno, norm(t.stmt.test, 60), sorted(foreign)))
    r.check(n_raise >= 2 and not bad_r, "%s#rejects-on-message-fields-only" % dm.qname, "a message is rejected depending on something that is not "
            "read from its own bytes: %s" % bad_r, where(dm, dm.node), "a valid message (e.g. a compressed set nested in a compressed set) "
            "fails to decode depending on where it sits")
    # what was read is what is delivered: a field of the message (key, value, timestamp, ...) is bound by its read and by
    # nothing else in the decoder - no sentinel is normalised away, no default substituted
    rebound = []
    for g_ in nest_:
        read_names, cursor_names = set(), set()
        for x in walk_body_shallow(g_.body):
            if isinstance(x, ast.Assign) and isinstance(x.value, ast.Call) and call_name(x.value) in ("relative_unpack", "read_int_string", "read_short_bytes"):
                t0 = x.targets[0]
                if isinstance(t0, ast.Tuple) and len(t0.elts) == 2:
                    read_names |= {y.id for y in ast.walk(t0.elts[0]) if isinstance(y, ast.Name)}
                    cursor_names |= {y.id for y in ast.walk(t0.elts[1]) if isinstance(y, ast.Name)}
        for x in walk_body_shallow(g_.body):
            if isinstance(x, (ast.Assign, ast.AugAssign)) and not (isinstance(x, ast.Assign) and isinstance(x.value, ast.Call) and call_name(x.value) in (
                    "relative_unpack", "read_int_string", "read_short_bytes")):
                for t_ in (x.targets if isinstance(x, ast.Assign) else [x.target]):
                    for y in ast.walk(t_):
                        if isinstance(y, ast.Name) and y.id in read_names - cursor_names:
                            rebound.append("%s line %d: `%s`" % (g_.name, x.lineno, norm(x, 60)))
    r.check(not rebound, "%s#fields-delivered-as-read" % dm.qname, "a field read from the message is re-bound before it is delivered: %s" % rebound,
            where(dm, dm.node), "a message whose timestamp is -1 (or whose key is empty, ...) decodes to something else than was encoded; "
            "re-encoding it writes different bytes")
    gd = ctx.func("codec:gzip_decode")
    ge = ctx.func("codec:gzip_encode")
    rd = [c for c in calls_in(gd) if call_name(c) in ("GzipFile", "decompress", "open")]
    okg = bool(rd) and all((call_name(c) == "GzipFile") or (call_name(c) == "decompress" and (call_recv(c) or "") == "gzip") or
                           (call_name(c) == "open" and (call_recv(c) or "") == "gzip") for c in rd)
    r.check(okg and any(call_name(c) == "GzipFile" for c in calls_in(ge)), "codec:gzip_decode#whole-stream",
            "gzip payloads are not read with gzip.GzipFile / gzip.decompress (which read every member of the stream): %s" % [norm(c, 50) for c in rd],
            where(gd, gd.node), "a wrapper whose payload is a multi-member gzip stream (legal, written by other clients) decodes to a prefix "
            "of its inner messages, silently")
    mc = prog.module("kafkacodec").constants.get("ATTRIBUTE_CODEC_MASK")
    r.check(isinstance(mc, ast.Constant) and mc.value == 0x03, "kafkacodec#codec-mask", "codec mask is not 0x03", "afkak/kafkacodec.py:1")

    # ---- R5 absolute offsets
    wrapper_offset_rule(ctx, ctx.rule("R5", "offsets yielded from compressed wrappers: magic 0 inner, magic>=1 rebased on the "
                                            "wrapper's offset (= C02.R8)", 4, "A"))


MUTANTS = [
    {"id": "api-versions-int32-error", "file": "kafkacodec.py",
     "old": "((correlation_id, error_code, num_versions), cur) = relative_unpack(\">ihi\", data, 0)",
     "new": "((correlation_id, error_code, num_versions), cur) = relative_unpack(\">iii\", data, 0)", "expect": "C05.R1"},
    {"id": "timestamp-tuple", "file": "kafkacodec.py", "old": "((timestamp,), cur) = relative_unpack(\">q\", data, cur)",
     "new": "(timestamp, cur) = relative_unpack(\">q\", data, cur)", "expect": "C05.R2"},
    {"id": "offset-fetch-fields-swapped", "file": "kafkacodec.py", "old": "yield OffsetFetchResponse(topic, partition, offset, metadata, error)",
     "new": "yield OffsetFetchResponse(topic, offset, partition, metadata, error)", "expect": "C05.R1"},
    {"id": "produce-v2-missing-append-time", "file": "kafkacodec.py",
     "old": "((partition, error, offset, log_append_time_ms), cur) = relative_unpack(\">ihqq\", data, cur)",
     "new": "((partition, error, offset), cur) = relative_unpack(\">ihq\", data, cur)", "expect": "C05.R1"},
    {"id": "metadata-leader-partition-swapped", "file": "kafkacodec.py",
     "old": "                    (partition_error_code, partition, leader, numReplicas),", "new": "                    (partition_error_code, leader, partition, numReplicas),",
     "expect": "C05.R1"},
    {"id": "join-response-leader-member-swapped", "file": "kafkacodec.py",
     "old": "        (leader_id, cur) = read_short_text(data, cur)\n        (member_id, cur) = read_short_text(data, cur)",
     "new": "        (member_id, cur) = read_short_text(data, cur)\n        (leader_id, cur) = read_short_text(data, cur)", "expect": "C05.R1"},
    {"id": "fetch-v2-no-throttle", "file": "kafkacodec.py",
     "old": "((correlation_id, throttle_time_ms, num_topics), cur) = relative_unpack(\">iii\", data, 0)",
     "new": "((correlation_id, num_topics), cur) = relative_unpack(\">ii\", data, 0)", "expect": ["C05.R1", "C04.R6"]},
    {"id": "v1-decoder-skips-key", "file": "kafkacodec.py",
     "old": "            ((timestamp,), cur) = relative_unpack(\">q\", data, cur)\n            (key, cur) = read_int_string(data, cur)\n            (value, cur) = read_int_string(data, cur)",
     "new": "            ((timestamp,), cur) = relative_unpack(\">q\", data, cur)\n            (value, cur) = read_int_string(data, cur)\n            key = None",
     "expect": ["C05.R3", "C05.R4"]},
    {"id": "assignment-decoder-int16-count", "file": "kafkacodec.py", "old": "((version, num_assignments), cur) = relative_unpack(\">hi\", data, 0)\n        if version != 0:",
     "new": "((version, num_assignments), cur) = relative_unpack(\">hh\", data, 0)\n        if version != 0:", "expect": ["C05.R1", "C05.R3"]},
    {"id": "gzip-arm-uses-snappy", "file": "kafkacodec.py",
     "old": "            elif codec == CODEC_GZIP:\n                gz = gzip_decode(value)\n                for inner_offset",
     "new": "            elif codec == CODEC_GZIP:\n                gz = snappy_decode(value)\n                for inner_offset", "expect": "C05.R4"},
    {"id": "gzip-first-member-only", "file": "codec.py",
     "old": "    buffer = BytesIO(payload)\n    handle = gzip.GzipFile(fileobj=buffer, mode=\"r\")\n    result = handle.read()\n    handle.close()\n    buffer.close()\n    return result",
     "new": "    import zlib\n    return zlib.decompress(payload, 16 + zlib.MAX_WBITS)", "expect": "C05.R4", "note": "seeded C05-5 / C02-5"},
    {"id": "v1-relative-offsets", "file": "kafkacodec.py",
     "old": "                for inner_offset, msg in absolute(KafkaCodec._decode_message_set_iter(gz)):", "new": "                for inner_offset, msg in KafkaCodec._decode_message_set_iter(gz):",
     "expect": "C05.R5"},
    {"id": "read-int16-length-for-bytes", "file": "_util.py", "old": "    (strlen,) = struct.unpack(\">i\", data[cur : cur + 4])", "new": "    (strlen,) = struct.unpack(\">h\", data[cur : cur + 4])",
     "expect": "C05.R3"},
]
TWINS = [
    {"id": "unpack-merged", "file": "kafkacodec.py",
     "old": "        ((correlation_id,), cur) = relative_unpack(\">i\", data, 0)\n        ((num_topics,), cur) = relative_unpack(\">i\", data, cur)\n\n        for _i in range(num_topics):\n            (topic, cur) = read_short_ascii(data, cur)\n            ((num_partitions,), cur) = relative_unpack(\">i\", data, cur)\n\n            for _i in range(num_partitions):\n                ((partition, error), cur) = relative_unpack(\">ih\", data, cur)",
     "new": "        ((correlation_id, num_topics), cur) = relative_unpack(\">ii\", data, 0)\n\n        for _i in range(num_topics):\n            (topic, cur) = read_short_ascii(data, cur)\n            ((num_partitions,), cur) = relative_unpack(\">i\", data, cur)\n\n            for _i in range(num_partitions):\n                ((partition,), cur) = relative_unpack(\">i\", data, cur)\n                ((error,), cur) = relative_unpack(\">h\", data, cur)"},
]

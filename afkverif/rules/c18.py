"""C18 - partitioners are deterministic, in range, Java-compatible and fair.

Decided: the hashed partitioner's index is (hash & non-negative mask) modulo
len(list) into the supplied list; its result depends only on arguments and
never-reassigned module constants (effect analysis); both _hash variants
accept text/bytes/bytearray, encode text as UTF-8 and raise TypeError
otherwise; a bit-width abstract interpretation of pure_murmur2 proves every
operand of `>>` and the returned value < 2**32, bytes enter at bit offsets
0/8/16/24, the tail is the 3->2->1 fall-through, and the constants equal the
Java reference table; the round-robin partitioner advances its cycle exactly
once per call and rebuilds it only on a changed list; the producer keeps one
partitioner per topic.  Not decided: numerical equality with the Java client
for every key (run-time values); fairness of the random start.
"""
import ast

from ..model import self_attr, unparse, walk_body_shallow
from .util import *  # noqa: F401,F403
from .util import reaching_defs, at, const_value, expand, module_const, call_name, call_recv, calls_in, need, node_assign_value, norm, where

TECHNIQUE = "bit-width abstract interpretation of pure_murmur2, constant-table agreement, purity/effect analysis, " \
            "single-advance path check"
EXPLANATION = (
    "Rules over afkak/partitioner.py and Producer._next_partition: interval reasoning on the index expression; "
    "free-variable/effect scan of the hash path (no self state, no clock, no random source, no re-assigned global); "
    "sibling agreement of the two conditional _hash definitions; a forward bit-width analysis (upper bound on the "
    "number of significant bits per variable, iterated to a fixpoint over the block loop) proving 32-bit discipline; "
    "structural match of the block/tail byte placement; comparison of literal constants with the Kafka "
    "Utils.murmur2 table (seed 0x9747b28c, m 0x5bd1e995, r 24, shifts 13/15, toPositive & 0x7fffffff)."
    ' Also: the partitioner table belongs to the producer instance (R6); the murmur2 tail is decided by case analysis over len % 4 (R4).'
)
SHARED = [('C08', ['R1'], 'the partition list handed to partitioners is the sorted list of the metadata reply')]
ASSUMPTIONS = ["Kafka Utils.murmur2 constants as transcribed in DESIGN.md appendix A", "itertools.cycle is round-robin",
               "the optional C extension murmurhash2 implements MurmurHash2 (not analysed)"]
PM = "partitioner:pure_murmur2"
JAVA = {"seed": 0x9747B28C, "m": 0x5BD1E995, "r": 24, "shift1": 13, "shift2": 15, "positive": 0x7FFFFFFF}
BIG = 4096


def _const_val(e, env):
    try:
        return eval(compile(ast.fix_missing_locations(ast.Expression(e)), "<c>", "eval"), {"__builtins__": {}}, dict(env))
    except Exception:
        return None


class Width(object):
    """upper bound on significant bits of non-negative ints"""

    def __init__(self, consts):
        self.consts = consts
        self.shift_operands = []  # (node, width)

    def w(self, e, env):
        v = _const_val(e, self.consts)
        if isinstance(v, int) and v >= 0:
            return max(v.bit_length(), 1)
        if isinstance(e, ast.Name):
            return env.get(e.id, BIG)
        if isinstance(e, ast.Subscript):
            return 8 if env.get("@bytes:" + unparse(e.value)) else BIG
        if isinstance(e, ast.Call) and call_name(e) == "len":
            return 63
        if isinstance(e, ast.BinOp):
            a, b = self.w(e.left, env), self.w(e.right, env)
            op = e.op
            if isinstance(op, ast.BitAnd):
                return min(a, b)
            if isinstance(op, (ast.BitOr, ast.BitXor)):
                return max(a, b)
            if isinstance(op, ast.Add):
                return min(max(a, b) + 1, BIG)
            if isinstance(op, ast.Mult):
                return min(a + b, BIG)
            if isinstance(op, ast.Mod):
                m = _const_val(e.right, self.consts)
                if isinstance(m, int) and m > 0:
                    return min(a, (m - 1).bit_length())
                return b
            if isinstance(op, ast.LShift):
                s = _const_val(e.right, self.consts)
                return min(a + s, BIG) if isinstance(s, int) else BIG
            if isinstance(op, ast.RShift):
                self.shift_operands.append((e, a))
                s = _const_val(e.right, self.consts)
                return max(a - s, 1) if isinstance(s, int) else a
            if isinstance(op, ast.FloorDiv):
                return a
        if isinstance(e, ast.UnaryOp) and isinstance(e.op, ast.Invert):
            return BIG
        return BIG

    def run(self, stmts, env):
        for st in stmts:
            if isinstance(st, ast.Assign) and isinstance(st.targets[0], ast.Name):
                env[st.targets[0].id] = self.w(st.value, env)
            elif isinstance(st, ast.AugAssign) and isinstance(st.target, ast.Name):
                env[st.target.id] = self.w(ast.BinOp(left=ast.Name(id=st.target.id, ctx=ast.Load()), op=st.op, right=st.value), env)
            elif isinstance(st, ast.For):
                for _ in range(6):
                    before = dict(env)
                    if isinstance(st.target, ast.Name):
                        env[st.target.id] = 63
                    self.run(st.body, env)
                    for k in set(env) | set(before):
                        env[k] = max(env.get(k, 0), before.get(k, 0))
                    if env == before:
                        break
            elif isinstance(st, ast.If):
                e1, e2 = dict(env), dict(env)
                self.run(st.body, e1)
                self.run(st.orelse, e2)
                for k in set(e1) | set(e2):
                    env[k] = max(e1.get(k, BIG if k not in env else env[k]), e2.get(k, BIG if k not in env else env[k]))
            elif isinstance(st, ast.Return):
                env["@return"] = max(env.get("@return", 0), self.w(st.value, env))
        return env


def run(ctx):
    prog = ctx.prog
    pm = ctx.func(PM)
    hp = prog.cls("partitioner:HashedPartitioner")
    rr = prog.cls("partitioner:RoundRobinPartitioner")
    part = hp.methods["partition"]
    ctx.functions_consulted.add(part.qname)

    # ---- R1 in range
    r = ctx.rule("R1", "hashed partitioner indexes the supplied list with (hash & non-negative mask) % len(list)", 1, "E")
    rets = [x for x in walk_body_shallow(part.body) if isinstance(x, ast.Return)]
    ok = False
    mask = None
    rv = expand(prog, part, rets[0].value, calls=True) if len(rets) == 1 else None
    if rv is not None and isinstance(rv, ast.Subscript) and norm(rv.value) == part.params[2]:
        idx = rv.slice
        if isinstance(idx, ast.BinOp) and isinstance(idx.op, ast.Mod) and norm(idx.right) == "len(%s)" % part.params[2]:
            left = idx.left
            if isinstance(left, ast.BinOp) and isinstance(left.op, ast.BitAnd):
                for a, b in ((left.left, left.right), (left.right, left.left)):
                    v = const_value(prog, part, b)
                    if isinstance(v, int) and not isinstance(v, bool) and v >= 0 and isinstance(a, ast.Call) and norm(a.func) == "self._hash" and norm(a.args[0]) == part.params[1]:
                        ok, mask = True, v
    r.check(ok, "%s#index-in-range" % part.qname, "result is not list[(hash(key) & mask) %% len(list)] with a non-negative mask: %s" % (
        norm(rv) if rv is not None else "?"), where(part, part.node), "negative hash: negative index picks from the wrong end / IndexError-free wrong partition",
        facts=["mask=%s" % (hex(mask) if mask is not None else None)])

    # ---- R2 purity
    r = ctx.rule("R2", "the hashed result depends only on the arguments and never-reassigned module constants", 4, "A")
    m = prog.module("partitioner")
    import builtins
    hashes = hp.all_defs.get("_hash", [])
    need(len(hashes) == 2, "expected two conditional definitions of HashedPartitioner._hash")
    for f in [part, pm] + hashes:
        bad = []
        local = set(f.params)
        for x in walk_body_shallow(f.body):
            if isinstance(x, ast.Name) and isinstance(x.ctx, ast.Store):
                local.add(x.id)
        for x in walk_body_shallow(f.body):
            if isinstance(x, ast.Attribute) and isinstance(x.value, ast.Name) and x.value.id == "self" and x.attr != "_hash":
                bad.append("self." + x.attr)
            if isinstance(x, ast.Name) and isinstance(x.ctx, ast.Load) and x.id not in local and not hasattr(builtins, x.id):
                if x.id in m.funcs or x.id in m.classes:
                    continue
                if x.id in m.imports:
                    if x.id in ("randint", "random", "time", "cycle") and x.id != "cycle":
                        bad.append(x.id)
                    continue
                if x.id in m.constants:
                    n_assign = sum(1 for y in ast.walk(m.tree) if isinstance(y, (ast.Assign, ast.AugAssign)) and any(
                        isinstance(t, ast.Name) and t.id == x.id for t in (y.targets if isinstance(y, ast.Assign) else [y.target])))
                    n_glob = sum(1 for y in ast.walk(m.tree) if isinstance(y, ast.Global) and x.id in y.names)
                    if n_assign > 2 or n_glob:
                        bad.append("reassigned global " + x.id)
                    continue
                bad.append("free name " + x.id)
            if isinstance(x, ast.Call) and (call_name(x) in ("randint", "random", "time", "now", "getrandbits", "urandom")):
                bad.append("call " + call_name(x))
        r.check(not bad, "%s#pure" % f.qname, "hash path reads state other than its arguments: %s" % sorted(set(bad)), where(f, f.node),
                "the same key maps to different partitions over time: per-key ordering lost")

    # ---- R3 coercion siblings
    r = ctx.rule("R3", "both _hash variants accept text/bytes/bytearray, encode text as UTF-8, raise TypeError otherwise", 2, "A")
    for f in hashes:
        src = unparse(f.node)
        tests = [norm(x.test) for x in ast.walk(f.node) if isinstance(x, ast.If)]
        text_t = any("isinstance(key, type(''))" in t or "isinstance(key, str)" in t for t in tests)
        ok = text_t and any("bytes" in t for t in tests) and any("bytearray" in t for t in tests) and "raise TypeError" in src and \
            "utf-8" in src.lower()
        allowed = ("key.encode('utf-8')", "bytearray(key, 'utf-8')", "bytes(key)", "bytearray(key)", "key.encode()")
        for x in ast.walk(f.node):
            if isinstance(x, ast.Assign) and any(isinstance(t, ast.Name) and t.id == f.params[1] for t in x.targets):
                if norm(x.value).lower().replace('"', "'") not in [a.replace("key", f.params[1]) for a in allowed]:
                    ok = False
        r.check(ok, "%s#coercion" % f.qname, "key coercion does not cover text (UTF-8), bytes and bytearray with a TypeError fall-through, or "
                "transforms the key beyond encoding it",
                where(f, f.node), "text and UTF-8 byte forms of a key land on different partitions")

    # ---- R4 32-bit discipline and constants
    r = ctx.rule("R4", "pure_murmur2: operands of >> and the result are < 2**32; byte placement; tail fall-through; Java constants", 6, "E")
    consts = {}
    for nm, ve in m.constants.items():
        v = const_value(prog, pm, ve)
        if isinstance(v, int) and not isinstance(v, bool) and module_const(pm, nm) is not None:
            consts[nm] = v
    for st in pm.body:
        if isinstance(st, ast.Assign) and isinstance(st.targets[0], ast.Name):
            v = _const_val(st.value, consts)
            if isinstance(v, int):
                consts[st.targets[0].id] = v
    a = pm.node.args
    seed_default = _const_val(a.defaults[-1], consts) if a.defaults else None
    W = Width(consts)
    env = {"@bytes:" + pm.params[0]: True, pm.params[1] if len(pm.params) > 1 else "seed": 32}
    body = [st for st in pm.body if not (isinstance(st, ast.If) and "isinstance" in norm(st.test))]
    env = W.run(body, env)
    wide = [(norm(e, 50), w) for e, w in W.shift_operands if w > 32]
    r.check(not wide and W.shift_operands, "%s#shift-operands-32bit" % PM, "operand of >> not provably below 2**32: %s" % wide, where(pm, pm.node),
            "Python's unbounded ints keep high bits that Java's >>> discards: hashes differ from the Java client", facts=["shifts=%d" % len(W.shift_operands)])
    r.check(env.get("@return", BIG) <= 32, "%s#result-32bit" % PM, "returned hash not provably below 2**32 (width bound %s)" % env.get("@return"),
            where(pm, pm.node), facts=["width=%s" % env.get("@return")])
    loops = [st for st in pm.body if isinstance(st, ast.For)]
    need(len(loops) == 1, "block loop not found in pure_murmur2")
    B = pm.params[0]

    def _byte_terms(e, env_):
        """[(index base text, constant offset, left shift)] of the input bytes in `e`, locals replaced by their values"""
        e = _subst(e, env_)
        out = []
        for x in ast.walk(e):
            if isinstance(x, ast.Subscript) and unparse(x.value) == B:
                idx = x.slice
                base, off = norm(idx), 0
                if isinstance(idx, ast.BinOp) and isinstance(idx.op, ast.Add):
                    c_r, c_l = _const_val(idx.right, {}), _const_val(idx.left, {})
                    if isinstance(c_r, int):
                        base, off = norm(idx.left), c_r
                    elif isinstance(c_l, int):
                        base, off = norm(idx.right), c_l
                sh = 0
                for y in ast.walk(e):
                    if isinstance(y, ast.BinOp) and isinstance(y.op, ast.LShift) and any(z is x for z in ast.walk(y.left)):
                        sh = _const_val(y.right, consts)
                    elif isinstance(y, ast.BinOp) and isinstance(y.op, ast.Mult) and any(z is x for z in ast.walk(y.left)) and isinstance(
                            _const_val(y.right, consts), int) and _const_val(y.right, consts) in (1 << 8, 1 << 16, 1 << 24):
                        sh = _const_val(y.right, consts).bit_length() - 1
                out.append((base, off, sh))
        return out

    def _subst(e, env_):
        import copy as _copy

        class S_(ast.NodeTransformer):
            def visit_Name(self, n_):
                return _copy.deepcopy(env_[n_.id]) if isinstance(n_.ctx, ast.Load) and n_.id in env_ else n_
        return S_().visit(_copy.deepcopy(e))

    # function-level names bound once to an expression over the arguments (`tail_start = length & ~3`)
    stores = {}
    for x in ast.walk(pm.node):
        if isinstance(x, ast.Name) and isinstance(x.ctx, ast.Store):
            stores[x.id] = stores.get(x.id, 0) + 1
    fenv = {}
    for st in pm.body:
        if isinstance(st, ast.Assign) and len(st.targets) == 1 and isinstance(st.targets[0], ast.Name) and stores.get(st.targets[0].id) == 1 \
                and not any(isinstance(y, ast.Call) and call_name(y) != "len" for y in ast.walk(st.value)):
            fenv[st.targets[0].id] = _subst(st.value, fenv)
    # the block word: the first value in the loop body that gathers four input bytes (through its temporaries)
    lenv = dict(fenv)
    place = []
    for st in loops[0].body:
        if isinstance(st, ast.Assign) and len(st.targets) == 1 and isinstance(st.targets[0], ast.Name):
            terms = _byte_terms(st.value, lenv)
            if len(terms) >= 4:
                place = terms
                break
            lenv[st.targets[0].id] = _subst(st.value, lenv)
    bases = {b for b, _, _ in place}
    r.check(len(bases) == 1 and sorted((o, s_) for _, o, s_ in place) == [(0, 0), (1, 8), (2, 16), (3, 24)], "%s#block-byte-placement" % PM,
            "block bytes are not placed little-endian at bit offsets 0/8/16/24 of one word: %s" % sorted(place),
            where(pm, loops[0]), "every key of length >= 4 hashes differently from Java")
    # the tail, by cases of the residue len % 4: which bytes are folded in, and the final multiply after them
    ebv = [unparse(st.targets[0]) for st in pm.body if isinstance(st, ast.Assign) and isinstance(st.value, ast.BinOp) and (
        (isinstance(st.value.op, ast.Mod) and _const_val(st.value.right, consts) == 4) or
        (isinstance(st.value.op, ast.BitAnd) and _const_val(st.value.right, consts) == 3))]
    ebn = ebv[0] if ebv else "extra_bytes"
    cfm = ctx.cfg(pm)
    hv = [unparse(st.target) for st in loops[0].body if isinstance(st, ast.AugAssign) and isinstance(st.op, ast.BitXor) and isinstance(st.value, ast.Name)]
    hname = hv[0] if hv else "h"
    loop_n = [n for n in cfm.nodes if n.kind == "for" and n.stmt is loops[0]]
    need(loop_n, "block loop has no CFG node")
    after = [t for t, lab in cfm.succ[loop_n[0].id] if lab == ("iter", False)]

    def _residue_test(test, v):
        def leaf(e):
            if isinstance(e, ast.Compare) and len(e.ops) == 1:
                l_, r_ = _const_val(_subst(e.left, {ebn: ast.Constant(value=v)}), consts), _const_val(_subst(e.comparators[0], {ebn: ast.Constant(value=v)}), consts)
                if isinstance(l_, int) and isinstance(r_, int) and any(isinstance(z, ast.Name) and z.id == ebn for z in ast.walk(e)):
                    import operator as _op
                    fn_ = {ast.Eq: _op.eq, ast.NotEq: _op.ne, ast.Lt: _op.lt, ast.LtE: _op.le, ast.Gt: _op.gt, ast.GtE: _op.ge}.get(type(e.ops[0]))
                    return None if fn_ is None else bool(fn_(l_, r_))
            if isinstance(e, ast.Name) and e.id == ebn:
                return bool(v)
            return None
        return tri_eval(test, leaf)

    WANT = {0: ([], 0), 1: ([(0, 0)], 1), 2: ([(0, 0), (1, 8)], 1), 3: ([(0, 0), (1, 8), (2, 16)], 1)}
    tinfo, tail_ok, tbases = {}, True, set()
    for v in range(4):
        x, events, undecided, guard_ = (after[0] if after else cfm.exit.id), [], None, 0
        while x != cfm.exit.id and guard_ < 400:
            guard_ += 1
            n = cfm.nodes[x]
            nxt = [(t, lab) for t, lab in cfm.succ[x] if lab != ("exc",)]
            if n.kind == "test":
                verdict = _residue_test(n.stmt.test, v)
                if verdict is None:
                    undecided = norm(n.stmt.test)
                    break
                nxt = [(t, lab) for t, lab in nxt if lab and lab[0] == "cond" and lab[2] == verdict]
            elif n.kind == "stmt" and isinstance(n.stmt, ast.AugAssign) and unparse(n.stmt.target) == hname:
                terms = _byte_terms(n.stmt.value, fenv)
                if terms and isinstance(n.stmt.op, (ast.BitXor, ast.BitOr, ast.Add)):
                    for b_, o_, s_ in terms:
                        tbases.add(b_)
                        events.append((o_, s_))
                elif isinstance(n.stmt.op, ast.Mult):
                    events.append("mult")
                elif isinstance(n.stmt.op, ast.BitXor):
                    shs = [_const_val(y.right, consts) for y in ast.walk(n.stmt.value) if isinstance(y, ast.BinOp) and isinstance(y.op, ast.RShift)]
                    events.append(("shr", shs[0] if len(shs) == 1 else None))
            if len(nxt) != 1:
                break
            x = nxt[0][0]
        folded = [e for e in events if isinstance(e, tuple) and e[0] != "shr"]
        rest = [e for e in events if not (isinstance(e, tuple) and e[0] != "shr")]
        k_ = len(folded)
        ordered = all(isinstance(e, tuple) and e[0] != "shr" for e in events[:k_])  # every byte is folded in before the first multiply
        got_v = (sorted(folded), rest)
        tinfo[v] = "undecided test `%s`" % undecided if undecided else got_v
        if undecided or got_v != (WANT[v][0], ["mult"] * WANT[v][1] + [("shr", JAVA["shift1"]), "mult", ("shr", JAVA["shift2"])]) or not ordered:
            tail_ok = False
    r.check(tail_ok and len(tbases) == 1, "%s#tail-fallthrough" % PM,
            "tail handling does not fold exactly the remaining 3/2/1 bytes (at 16/8/0), multiply once if there were any, and finish with "
            ">>>13, multiply, >>>15; by residue: %s" % tinfo,
            where(pm, pm.node), "keys whose length is not a multiple of 4 hash differently from Java")
    finals = [_const_val(e.right, consts) for e, w in W.shift_operands if e not in [x for x in ast.walk(loops[0])]]
    mul = [st.value.id for st in loops[0].body if isinstance(st, ast.AugAssign) and isinstance(st.op, ast.Mult) and isinstance(st.value, ast.Name)]
    shr = [x.right.id for st in loops[0].body for x in ast.walk(st) if isinstance(x, ast.BinOp) and isinstance(x.op, ast.RShift) and isinstance(x.right, ast.Name)]
    got = {"seed": seed_default, "m": consts.get(mul[0]) if mul else None, "r": consts.get(shr[0]) if shr else None, "shift1": finals[0] if len(finals) > 0 else None,
           "shift2": finals[1] if len(finals) > 1 else None, "positive": mask}
    r.check(got == JAVA, "%s#java-constants" % PM, "constants differ from Kafka's Utils.murmur2: %s" % {k: (hex(v) if isinstance(v, int) else v) for k, v in got.items() if JAVA[k] != v},
            where(pm, pm.node), "producers in the two languages no longer co-locate a key")
    seeds = [const_value(prog, f, c.args[1]) for f in hashes for c in calls_in(f, "murmurhash2") if len(c.args) > 1]
    r.check(all(s == JAVA["seed"] for s in seeds) and bool(seeds), "partitioner:HashedPartitioner._hash#c-seed", "C variant uses another seed: %s" % seeds)

    # ---- R5 round robin
    r = ctx.rule("R5", "round robin: exactly one next() per call; cycle rebuilt only on a changed list or at construction", 3, "B")
    rp = rr.methods["partition"]
    sp = rr.methods["_set_partitions"]
    cf = ctx.cfg(rp)
    rets = [n for n in cf.nodes if n.kind == "stmt" and isinstance(n.stmt, ast.Return)]
    nexts = [c for c in calls_in(rp, "next")]
    r.check(len(rets) == 1 and len(nexts) == 1 and norm(at(ctx, rp, rets[0].id, rets[0].stmt.value)) == "next(self.iterpart)", "%s#single-advance" % rp.qname,
            "partition() does not return exactly one next() of the cycle", where(rp, rp.node), "a partition is skipped or repeated: not k times each in k*n calls")
    fr = ctx.facts(rp)
    calls = [(f, c) for f in [x for x in prog.funcs.values() if x.cls is rr] for c in calls_in(f, sp.name)]
    ok = sorted(f.name for f, c in calls) == ["__init__", "partition"]
    for f, c in calls:
        if f is rp:
            n = cf.containing(c)[0]
            ok = ok and ("self.partitions != %s" % rp.params[2], True) in fr[n.id] and norm(c.args[0]) == rp.params[2]
    r.check(ok, "%s#rebuild-only-on-change" % rr.qual, "the cycle is rebuilt without the list having changed (or not rebuilt when it did)", where(rp, rp.node),
            "cycle restarts on every call: always the first partition")
    cs = ctx.cfg(sp)
    fs = ctx.facts(sp)
    cyc = [n for n in cs.nodes if node_assign_value(n, "iterpart") is not None]
    key = [n for n in cs.nodes if node_assign_value(n, "partitions") is not None]
    extra = [n for n in cs.nodes if any(call_name(c) == "next" for c in n.calls())]
    ok = len(cyc) == 1 and norm(expand(prog, sp, node_assign_value(cyc[0], "iterpart"), calls=True)) == "cycle(%s)" % sp.params[1] and len(key) == 1 and \
        norm(expand(prog, sp, node_assign_value(key[0], "partitions"), calls=True)) == "sorted(%s)" % sp.params[1] and all(
            ("self.randomStart", True) in fs[n.id] and (norm(at(ctx, sp, n.id, c.args[0])) in aliases_of(sp, "self.iterpart") or (
                # the "consume" recipe: next(islice(it, n, n), None) advances `it` by n
                isinstance(c.args[0], ast.Call) and call_name(c.args[0]) == "islice" and c.args[0].args and
                norm(at(ctx, sp, n.id, c.args[0].args[0])) in aliases_of(sp, "self.iterpart")))
            for n in extra for c in n.calls() if call_name(c) == "next")
    r.check(ok, "%s#cycle-over-list" % sp.qname, "cycle is not built over the supplied list / extra advances outside the random start", where(sp, sp.node))

    # ---- R6 producer wiring
    r = ctx.rule("R6", "one partitioner per topic and per producer, called with the client's current partition list", 3, "A")
    np_ = ctx.func("producer:Producer._next_partition")
    cn = ctx.cfg(np_)
    fn = ctx.facts(np_, kill_on_suspend=False)
    tp = np_.params[1]
    slot = "self.partitioners[%s]" % tp
    mk = [n for n in cn.nodes if n.kind == "stmt" and isinstance(n.stmt, ast.Assign) and any(norm(t_) == slot for t_ in n.stmt.targets)]
    ctors = [(n, c) for n in cn.nodes for c in n.calls() if norm(c.func) == "self.partitioner_class"]
    use = [(n, c) for n in cn.nodes for c in n.calls() if call_name(c) == "partition"]
    plist = "self.client.topic_partitions[%s]" % tp

    def flows_from(nid, e, wanted):
        """every value that can reach expression e at node nid is one of `wanted` (texts), following local definitions"""
        if norm(e) in wanted:
            return True
        if isinstance(e, ast.Name):
            ds = reaching_defs(cn, nid, e.id)
            vals = [cn.nodes[d].stmt.value for d in ds if isinstance(cn.nodes[d].stmt, ast.Assign) and all(
                isinstance(t_, (ast.Name, ast.Subscript, ast.Attribute)) for t_ in cn.nodes[d].stmt.targets)]
            return bool(ds) and len(vals) == len(ds) and all(flows_from(d, v, wanted) for d, v in zip(ds, vals))
        return False

    ok = len(mk) == 1 and len(ctors) == 1 and len(use) == 1
    if ok:
        ctor_text = norm(ctors[0][1])
        ok = ("%s not in self.partitioners" % tp, True) in fn[ctors[0][0].id] and ("%s not in self.partitioners" % tp, True) in fn[mk[0].id] and \
            flows_from(mk[0].id, mk[0].stmt.value, {ctor_text}) and norm(ctors[0][1].args[0]) == tp and \
            flows_from(ctors[0][0].id, ctors[0][1].args[1], {plist}) and \
            flows_from(use[0][0].id, use[0][1].func.value, {slot, ctor_text}) and flows_from(use[0][0].id, use[0][1].args[1], {plist})
    pci = prog.cls("producer:Producer")
    muts_ = sorted({"%s:%s" % (f_.name, k_) for f_, k_, n_ in prog.attr_accesses(pci, "partitioners") if k_ != "read" and not (
        f_.name == "__init__" and k_ == "write") and not (f_ is np_ and k_ == "mutate" and isinstance(n_, ast.Assign))})
    r.check(not muts_, "producer:Producer#partitioners-only-grow", "the partitioner table is modified by %s; an entry is created once per topic and "
            "never replaced or removed" % muts_, where(np_, np_.node), "a metadata reset mid-cycle pops the topic's partitioner: the round-robin "
            "cycle restarts from the first partition although the list is unchanged")
    # the table (and the class that fills it) belong to this producer: created in its constructor, not shared through
    # the class object by every Producer of the process
    init_ = prog.method(pci, "__init__")
    own = {}
    for attr_ in ("partitioners", "partitioner_class"):
        ws_ = [(f_, n_) for f_, k_, n_ in prog.attr_accesses(pci, attr_, False) if k_ == "write" and f_ is init_]
        own[attr_] = bool(ws_)
    cinit = ctx.cfg(init_)
    fresh = [n for n in cinit.nodes if isinstance(node_assign_value(n, "partitioners"), (ast.Dict, ast.Call)) and norm(node_assign_value(n, "partitioners")) in ("{}", "dict()")]
    r.check(all(own.values()) and bool(fresh) and not cinit.normal_exits_from(cinit.entry.id, avoid=[n.id for n in fresh]), "producer:Producer#partitioners-per-instance",
            "the constructor does not give every Producer its own empty partitioner table and its partitioner class (%s)" % own, where(init_, init_.node),
            "two producers sending to the same topic name share one round-robin cycle (each sees every other partition only), or a hashed "
            "producer silently uses the other's round-robin partitioner")
    r.check(ok, "%s#one-partitioner-per-topic" % np_.qname, "partitioner is re-created per call or not given the current partition list", where(np_, np_.node),
            "round robin restarts at every send: all messages go to one partition")


MUTANTS = [
    {"id": "no-positive-mask", "file": "partitioner.py", "old": "return partitions[(self._hash(key) & 0x7FFFFFFF) % len(partitions)]",
     "new": "return partitions[self._hash(key) % len(partitions)]", "expect": "C18.R1"},
    {"id": "mask-differs-from-java", "file": "partitioner.py", "old": "(self._hash(key) & 0x7FFFFFFF)", "new": "(self._hash(key) & 0x3FFFFFFF)", "expect": "C18.R4"},
    {"id": "hash-uses-self-state", "file": "partitioner.py", "old": "        return partitions[(self._hash(key)", "new": "        key = key + self.topic.encode()\n        return partitions[(self._hash(key)",
     "expect": "C18.R2"},
    {"id": "pure-variant-rejects-bytes", "file": "partitioner.py", "old": "            elif isinstance(key, bytes):\n                key = bytearray(key)\n", "new": "", "expect": "C18.R3"},
    {"id": "k-not-masked-before-shift", "file": "partitioner.py", "old": "        k *= m\n        k &= mod32bits\n        k ^= (k % 0x100000000) >> r  # k ^= k >>> r",
     "new": "        k *= m\n        k ^= k >> r  # k ^= k >>> r", "expect": "C18.R4"},
    {"id": "result-not-masked", "file": "partitioner.py", "old": "    h ^= (h % 0x100000000) >> 15  # h >>> 15;\n    h &= mod32bits\n", "new": "    h ^= (h % 0x100000000) >> 15  # h >>> 15;\n    h *= 1\n    h += m * m\n",
     "expect": "C18.R4"},
    {"id": "big-endian-block", "file": "partitioner.py", "old": "            (byte_array[i4 + 0] & 0xFF)\n            + ((byte_array[i4 + 1] & 0xFF) << 8)",
     "new": "            ((byte_array[i4 + 1] & 0xFF) << 0)\n            + ((byte_array[i4 + 0] & 0xFF) << 8)", "expect": "C18.R4"},
    {"id": "tail-elif", "file": "partitioner.py", "old": "    if extra_bytes >= 2:", "new": "    if extra_bytes == 2:", "expect": "C18.R4"},
    {"id": "wrong-m", "file": "partitioner.py", "old": "    m = 0x5BD1E995", "new": "    m = 0x5BD1E997", "expect": "C18.R4"},
    {"id": "final-shift", "file": "partitioner.py", "old": "    h ^= (h % 0x100000000) >> 13  # h >>> 13;", "new": "    h ^= (h % 0x100000000) >> 12  # h >>> 13;", "expect": "C18.R4"},
    {"id": "text-key-normalised", "file": "partitioner.py", "old": "                key = key.encode(\"UTF-8\")",
     "new": "                key = key.strip().encode(\"UTF-8\")", "expect": "C18.R3", "note": "seeded C18-4 (key transformed before encoding)"},
    {"id": "partition-list-filtered", "file": "producer.py", "old": "        # Do we have a partitioner for this topic already?",
     "new": "        partitions = [p for p in partitions if p is not None] or partitions\n        # Do we have a partitioner for this topic already?",
     "expect": "C18.R6", "note": "seeded C18-5"},
    {"id": "rr-double-advance", "file": "partitioner.py", "old": "            self._set_partitions(partitions)\n        return next(self.iterpart)",
     "new": "            self._set_partitions(partitions)\n        next(self.iterpart)\n        return next(self.iterpart)", "expect": "C18.R5"},
    {"id": "rr-always-rebuild", "file": "partitioner.py", "old": "        if self.partitions != partitions:\n            self._set_partitions(partitions)",
     "new": "        self._set_partitions(partitions)", "expect": "C18.R5"},
    {"id": "partitioner-per-call", "file": "producer.py", "old": "        if topic not in self.partitioners:\n            # No, create", "new": "        if True:\n            # No, create",
     "expect": "C18.R6"},
]
TWINS = [
    {"id": "mask-decimal", "file": "partitioner.py", "old": "(self._hash(key) & 0x7FFFFFFF)", "new": "(self._hash(key) & 2147483647)"},
    {"id": "mod-instead-of-and", "file": "partitioner.py", "old": "        k *= m\n        k &= mod32bits\n        k ^= (k % 0x100000000) >> r",
     "new": "        k *= m\n        k %= 2 ** 32\n        k ^= (k % 0x100000000) >> r"},
]

"""C07 - requests reach the responsible broker; results return in payload order.

Decided: each payload is grouped under the result of the leader/coordinator
lookup made with its own topic/partition (or the group), a missing leader
raises before anything is sent; one request per broker carrying that broker's
list, sent through that broker's client with one fresh id; the per-request
lists stay in lock step; the result is rebuilt over the original key order;
failures account for every payload; the coordinator path; the fallback order
of broker-agnostic requests; who may construct broker clients; host
normalisation.  Not decided: which broker *is* the leader (run-time metadata).
"""
import ast

from ..model import self_attr, unparse, walk_body_shallow
from .util import *  # noqa: F401,F403
from .util import at, deferred_origins, value_origins, list_adds, call_name, call_recv, calls_in, kwarg, need, norm, where

TECHNIQUE = "def-use of the grouping key and payload, lock-step append pairing, loop/except fall-through order, who-may-construct"
EXPLANATION = (
    "Rules over KafkaClient._send_broker_aware_request, _send_request_to_coordinator, _send_broker_unaware_request, "
    "_send_bootstrap_request, _get_brokerclient and _normalize_hosts: def-use chains from the loop variables to the "
    "grouping key, the encoder argument, the broker client and the correlation id; paired appends in one block; the "
    "result comprehension iterates the original key list; except arms inside the fallback loops fall through; the "
    "unavailable error is raised only after the last host."
    ' Also: an answered request accounts for every payload - those its reply left out go to the failed list (R5, finding F38); the per-broker attempt has a handler for every class of the error table and skips only ids no longer known (R7).'
)
SHARED = [('C04', ['R2'], 'the grouping of a request\'s payloads by topic and partition is total: no payload of a broker\'s share is left out of its request'), ('C08', ['R1'], 'the leader the routing looks up is the one the metadata reply names (a listed leader is not turned into `no leader`)'), ('C08', ['R2', 'R5'], 'requests go to the address the current metadata names'), ('C11', ['R1'], 'a request to a broker that never answers ends in the failed list, not in silence')]
ASSUMPTIONS = ["dict/defaultdict preserve insertion order; DeferredList preserves the order of its input list"]
KC = "client:KafkaClient"


def run(ctx):
    prog = ctx.prog
    sba = ctx.func(KC + "._send_broker_aware_request")
    cf = ctx.cfg(sba)
    facts = ctx.facts(sba, kill_on_suspend=False)

    # ---- R1 payload -> its leader
    r = ctx.rule("R1", "each payload is grouped under the lookup made with its own topic/partition (or the group); no leader raises", 3, "A")
    gl = [n for n in cf.nodes if n.kind == "for" and norm(n.stmt.iter) == sba.params[1]]
    need(len(gl) == 1, "grouping loop over the payload list not found")
    pv = unparse(gl[0].stmt.target)
    body = cf.reach([gl[0].id], avoid=[t for t, lab in cf.succ[gl[0].id] if lab == ("iter", False)])
    def _grouping(c):
        # M[K].append(p)  (M a defaultdict of lists)  or  M.setdefault(K, []).append(p): (map expr, key expr)
        if call_name(c) != "append":
            return None
        rv_ = c.func.value
        if isinstance(rv_, ast.Subscript):
            return rv_.value, rv_.slice
        if isinstance(rv_, ast.Call) and call_name(rv_) == "setdefault" and len(rv_.args) == 2 and isinstance(rv_.args[1], ast.List) and not rv_.args[1].elts:
            return rv_.func.value, rv_.args[0]
        return None
    apps = [cf.nodes[i] for i in body if any(_grouping(c) is not None for c in cf.nodes[i].calls())]
    need(len(apps) == 1, "grouping append not found once")
    ac = [c for c in apps[0].calls() if _grouping(c) is not None][0]
    gmap_e, key_e = _grouping(ac)
    by_id = isinstance(key_e, ast.Attribute) and key_e.attr == "node_id"
    keyv = unparse(key_e.value) if by_id else unparse(key_e)
    gmap = unparse(gmap_e)
    # where the broker entry used as the key comes from: the lookups, through copies (`target = leader`)
    og_k = value_origins(cf, apps[0].id, ast.Name(id=keyv, ctx=ast.Load()), params=sba.params) or []
    lookups = [cf.nodes[dn_] for dn_, e_ in og_k if dn_ in body]
    ok = norm(ac.args[0]) == pv and len(lookups) == 2 and len(og_k) == 2
    for n in lookups:
        calls = [c for c in n.calls() if call_name(c) in ("_get_leader_for_partition", "_get_coordinator_for_group")]
        if len(calls) != 1:
            ok = False
            continue
        c = calls[0]
        if call_name(c) == "_get_leader_for_partition":
            ok = ok and [norm(a) for a in c.args] == ["%s.topic" % pv, "%s.partition" % pv] and ("consumer_group is None", True) in facts[n.id]
        else:
            ok = ok and [norm(a) for a in c.args] == ["consumer_group"] and ("consumer_group is None", False) in facts[n.id]
    r.check(ok, "%s#grouping-key" % sba.qname, "a payload is grouped under a broker looked up with something other than its own "
            "topic/partition (or the group)", where(sba, ac), "payload sent to a broker that does not lead its partition")
    r.check(by_id, "%s#grouped-by-node-id" % sba.qname, "payloads are grouped under `%s`, not under the broker's node id" % norm(key_e), where(sba, ac),
            "the lookup for a later payload reloads the metadata and learns a new address for a broker an earlier payload already "
            "resolved: the same node appears under two keys and gets two requests")
    def _not_none_at_key():
        if ("%s is None" % keyv, False) in facts[apps[0].id]:
            return True
        # the key variable is a copy made in each arm after that arm's own None test
        ds_ = reaching_defs(cf, apps[0].id, keyv)
        okn = bool(ds_)
        for d_ in ds_:
            st_ = cf.nodes[d_].stmt
            v_ = st_.value if isinstance(st_, ast.Assign) else None
            okn = okn and isinstance(v_, ast.Name) and ("%s is None" % v_.id, False) in facts[d_]
        return okn
    r.check(_not_none_at_key(), "%s#no-leader-raises" % sba.qname,
            "a payload without a leader/coordinator is grouped instead of raising", where(sba, ac), "request sent to broker None / KeyError later")
    sends = [n for n in cf.nodes if any(call_name(c) == "_make_request_to_broker" for c in n.calls())]
    need(len(sends) == 1, "send site not found once")
    r.check(sends[0].id not in body and cf.dominates([gl[0].id], sends[0].id), "%s#group-all-before-send" % sba.qname,
            "requests are sent before every payload has been routed", where(sba, sends[0].stmt))

    # ---- R2 one request per broker
    r = ctx.rule("R2", "one request per grouping entry: its list, its broker client, one fresh id used for encoder and wrapper", 1, "A")
    sl = [n for n in cf.nodes if n.kind == "for" and norm(n.stmt.iter) == "%s.items()" % gmap]
    need(len(sl) == 1, "send loop over the grouping map not found")
    kv, lv = [unparse(e) for e in sl[0].stmt.target.elts]
    sbody = cf.reach([sl[0].id], avoid=[t for t, lab in cf.succ[sl[0].id] if lab == ("iter", False)])
    def assigned(name):
        return [cf.nodes[i].stmt for i in sbody if isinstance(cf.nodes[i].stmt, ast.Assign) and unparse(cf.nodes[i].stmt.targets[0]) == name]
    sc = [c for c in sends[0].calls() if call_name(c) == "_make_request_to_broker"][0]
    bvar, idvar, reqvar = [norm(a) for a in sc.args[:3]]
    ok = sends[0].id in sbody
    b = assigned(bvar)
    ok = ok and len(b) == 1 and norm(b[0].value) == ("self._get_brokerclient(%s)" % kv if by_id else "self._get_brokerclient(%s.node_id)" % kv)
    i = assigned(idvar)
    ok = ok and len(i) == 1 and norm(i[0].value) == "self._next_id()"
    q = assigned(reqvar)
    ok = ok and len(q) == 1 and isinstance(q[0].value, ast.Call) and norm(q[0].value.func) == sba.params[2] and \
        norm(kwarg(q[0].value, "payloads")) == lv and norm(kwarg(q[0].value, "correlation_id")) == idvar
    r.check(ok, "%s#per-broker-request" % sba.qname, "the request for a broker is not built from that broker's payload list / "
            "sent via that broker's client / under one fresh id", where(sba, sc), "payloads of broker A travel in the request to broker B")

    # ---- R3 lock-step lists
    r = ctx.rule("R3", "inFlight/payloadsList appended together; original_keys appended once per payload, in payload order", 2, "B")
    # positional association (seqsym): the loop over the results binds, for one and the same send-loop iteration, the
    # (flag, value) DeferredList reports for the request made in that iteration and that iteration's payload list -
    # whether the code keeps parallel lists, one list of pairs, or comprehensions over them
    from ..seqsym import Seq
    sq_ = Seq(ctx, sba)
    zl, zenv = [], None
    for n in cf.nodes:
        if n.kind == "for" and n.id != sl[0].id and n.id not in sbody:
            env_ = sq_.zip_env(n)
            if env_ and any(v_[0] == "flag" for k_, v_ in env_.items() if k_ != "#loop"):
                zl.append(n)
                zenv = env_
    flagv = respv = plv = None
    if len(zl) == 1:
        for k_, v_ in zenv.items():
            if k_ == "#loop":
                continue
            if v_[0] == "flag" and v_[1] == ("call", sc):
                flagv = k_
            elif v_[0] == "value" and v_[1] == ("call", sc):
                respv = k_
            elif v_ == ("iter", sl[0].id, lv):
                plv = k_
    ok = len(zl) == 1 and zenv["#loop"] == sl[0].id and None not in (flagv, respv, plv)
    r.check(ok, "%s#inflight-payloads-lockstep" % sba.qname, "the result of each request is not kept together with the payload list of "
            "that same request (parallel lists appended in lock-step, or one list of pairs)", where(sba, sends[0].stmt),
            "a failed request is blamed on another request's payloads")
    okz = ok
    ka = [cf.nodes[i] for i in body if any(call_name(c) == "append" and _grouping(c) is None for c in cf.nodes[i].calls())]
    okk = len(ka) == 1 and (any(s == ka[0].id and lab is None for s, lab in cf.succ[apps[0].id]) or any(
        s == apps[0].id and lab is None for s, lab in cf.succ[ka[0].id]))
    kc = [c for c in ka[0].calls() if call_name(c) == "append" and _grouping(c) is None][0] if ka else None
    okk = okk and norm(kc.args[0]) == "(%s.topic, %s.partition)" % (pv, pv)
    r.check(okz and okk, "%s#results-zip-and-keys" % sba.qname, "results are not matched with payload lists positionally, or the key "
            "list is not appended once per payload", where(sba, sba.node), "responses attributed to the wrong payloads / wrong order")
    keys = call_recv(kc) if kc is not None else "original_keys"

    # ---- R4 ordered result
    r = ctx.rule("R4", "the returned list is built over the original key order", 1, "A")
    rv = [x for x in walk_body_shallow(sba.body) if isinstance(x, ast.Expr) and isinstance(x.value, ast.Call) and call_name(x.value) == "returnValue"]
    need(rv, "returnValue not found")
    resv = norm(rv[-1].value.args[0])
    defs = [x for x in walk_body_shallow(sba.body) if isinstance(x, ast.Assign) and unparse(x.targets[0]) == resv]
    ok = False
    for d in defs:
        for lc in [x for x in ast.walk(d.value) if isinstance(x, ast.ListComp)]:
            if norm(lc.generators[0].iter) == keys and isinstance(lc.elt, ast.Subscript) and norm(lc.elt.slice) == unparse(lc.generators[0].target):
                ok = True
    if not ok:
        # loop form: for k in <keys>: if k in acc: <result>.append(acc[k])
        for lp in [x for x in walk_body_shallow(sba.body) if isinstance(x, ast.For) and norm(x.iter) == keys]:
            for c in [y for y in ast.walk(lp) if isinstance(y, ast.Call) and call_name(y) == "append" and call_recv(y) == resv]:
                if isinstance(c.args[0], ast.Subscript) and norm(c.args[0].slice) == unparse(lp.target):
                    ok = all(isinstance(d.value, (ast.List, ast.Call)) and not getattr(d.value, "elts", None) for d in defs)
    # `X = [acc[k] for k in keys if k in acc] if acc else []` written as a statement: the other definition is the empty list
    nonempty_defs = [d for d in defs if not (isinstance(d.value, (ast.List, ast.Tuple)) and not d.value.elts)]
    r.check(ok and len(nonempty_defs) <= 1 and len(defs) - len(nonempty_defs) <= 1, "%s#result-order" % sba.qname, "the result list is not a comprehension over the original keys",
            where(sba, defs[0] if defs else sba.node), "caller receives responses in broker-answer order, not payload order")

    # ---- R5 accounting
    r = ctx.rule("R5", "a failed broker result puts every payload of that request on the failed list, an answered one those its reply left out; the error carries both lists", 3, "A")
    zv = [None, plv] if plv else []
    # the operation that records the payloads of one result: adds (payload, <response>) for every payload of that result
    zbody = cf.reach([zl[0].id], avoid=[t for t, lab in cf.succ[zl[0].id] if lab == ("iter", False)]) if zl else set()
    adds = [a for a in list_adds(sba) if a[2] is not None and zv and norm(a[2]) == zv[1] and cf.containing(a[4]) and cf.containing(a[4])[0].id in zbody]
    fe = [a[4] for a in adds]
    ok = len(adds) == 1 and isinstance(adds[0][1], ast.Tuple) and len(adds[0][1].elts) == 2 and norm(adds[0][1].elts[0]) == norm(adds[0][3])
    if ok:
        # recorded for EVERY failed result: the only condition the statement may depend on is the result's own flag
        en = cf.containing(fe[0])[0]
        lbody = cf.reach([zl[0].id], avoid=[t for t, lab in cf.succ[zl[0].id] if lab == ("iter", False)])
        deps = sorted(norm(t.stmt.test) for t, lab in cf.control_deps_transitive(en.id, within=lbody) if t.kind == "test")
        ok = flagv is not None and deps in (["not %s" % flagv], ["%s is False" % flagv], ["%s" % flagv])
        r.check(ok, "%s#failed-result-always-recorded" % sba.qname,
                "recording a failed request's payloads depends on %s, not only on the result's own success flag" % deps, where(sba, fe[0]),
                "acks=0 (no reply expected) and the broker request fails: nothing is reported failed, the producer sees an empty "
                "result and reports success although nothing was handed to a connection")
        ok = True
    r.check(ok, "%s#all-payloads-of-failed-request" % sba.qname, "not every payload of a failed request is recorded as failed",
            where(sba, fe[0] if fe else sba.node), "some payloads are neither answered nor reported failed")
    # an *answered* request accounts for every payload too: the result list drops keys that no reply named (`if k in
    # acc`), so the payloads of a request whose reply left them out must go to the failed list - or the lookup must
    # be unfiltered (a missing key then fails loudly)
    from ..cfg import cond_atoms
    acc_stores = [n_ for n_ in cf.nodes if n_.id in zbody and n_.kind == "stmt" and isinstance(n_.stmt, ast.Assign) and isinstance(
        n_.stmt.targets[0], ast.Subscript) and isinstance(n_.stmt.targets[0].value, ast.Name) and isinstance(n_.stmt.targets[0].slice, ast.Tuple)
        and [norm(e_).split(".")[-1] for e_ in n_.stmt.targets[0].slice.elts] == ["topic", "partition"]]
    filtered = any(lc.generators[0].ifs for d in defs for lc in ast.walk(d.value) if isinstance(lc, ast.ListComp)) or any(
        isinstance(y, ast.If) for lp in walk_body_shallow(sba.body) if isinstance(lp, ast.For) and norm(lp.iter) == keys for y in ast.walk(lp))
    okc, whyc = True, ""
    if acc_stores and filtered and plv and fe:
        accn = acc_stores[0].stmt.targets[0].value.id
        failed_list = call_recv(fe[0])

        def _is_unanswered(conds, tgt):
            key_txt = "(%s.topic, %s.partition) in %s" % (tgt, tgt, accn)
            return any((key_txt, False) in cond_atoms(c_, True) for c_ in conds)
        coll = [fc for fc in filtered_collects(sba) if norm(fc[2]) == plv and isinstance(fc[3], ast.Name) and _is_unanswered(fc[4], fc[3].id)]
        okc, whyc = False, "no statement collects the payloads of an answered request whose key is not in `%s`" % accn
        for name_, elt_, _src, tgt_, _conds in coll:
            if name_ == failed_list:
                sites = [(elt_, tgt_, None)]
            else:
                sites = [(a[1], a[3], a[4]) for a in list_adds(sba) if a[0] == failed_list and a[2] is not None and norm(a[2]) == name_]
            for e_, t_, call_ in sites:
                if not (isinstance(e_, ast.Tuple) and len(e_.elts) == 2 and t_ is not None and norm(e_.elts[0]) == norm(t_)):
                    whyc = "the unanswered payloads are not recorded as (payload, failure) pairs on `%s`" % failed_list
                    continue
                an = cf.containing(call_)[0] if call_ is not None and cf.containing(call_) else None
                if an is not None:
                    if an.id not in zbody or an.id not in cf.reach([acc_stores[0].id]):
                        whyc = "the unanswered payloads are not recorded after the reply was decoded, inside the loop over the results"
                        continue
                    base = {norm(t.stmt.test) for t, lab in cf.control_deps_transitive(acc_stores[0].id, within=zbody) if t.kind == "test"}
                    extra = [norm(t.stmt.test) for t, lab in cf.control_deps_transitive(an.id, within=zbody) if t.kind == "test"
                             and norm(t.stmt.test) not in base and norm(t.stmt.test) not in (name_, "len(%s)" % name_, "len(%s) > 0" % name_,
                                                                                               "%s != []" % name_, "len(%s) != 0" % name_)]
                    if extra:
                        whyc = "recording the unanswered payloads depends on %s" % extra
                        continue
                okc = True
    r.check(okc, "%s#answered-request-accounts-for-every-payload" % sba.qname, whyc, where(sba, acc_stores[0].stmt if acc_stores else sba.node),
            "a reply that leaves out a partition of its request: the caller gets a shorter list, the producer's send for that "
            "partition never completes")
    rs = [x for x in walk_body_shallow(sba.body) if isinstance(x, ast.Raise) and isinstance(x.exc, ast.Call) and call_name(x.exc) == "FailedPayloadsError"]
    ok = len(rs) == 1 and norm(rs[0].exc.args[0]) == resv and norm(rs[0].exc.args[1]) == call_recv(fe[0]) if fe else False
    r.check(ok, "%s#error-carries-both" % sba.qname, "FailedPayloadsError does not carry (responses, failed payloads)", where(sba, sba.node))

    # ---- R6 coordinator path
    r = ctx.rule("R6", "group requests resolve the coordinator, raise when unknown, and use that broker's client", 1, "A")
    src = ctx.func(KC + "._send_request_to_coordinator")
    cs = ctx.cfg(src)
    fs = ctx.facts(src, kill_on_suspend=False)
    look = [n for n in cs.nodes if any(call_name(c) == "_get_coordinator_for_group" for c in n.calls())]
    gb = [n for n in cs.nodes if any(call_name(c) == "_get_brokerclient" for c in n.calls())]
    ok = len(look) == 1 and len(gb) == 1 and isinstance(look[0].stmt, ast.Assign)
    if ok:
        cv = unparse(look[0].stmt.targets[0])
        ok = norm([c for c in look[0].calls() if call_name(c) == "_get_coordinator_for_group"][0].args[0]) == src.params[1] and \
            ("%s is None" % cv, False) in fs[gb[0].id] and norm(at(ctx, src, gb[0].id, [c for c in gb[0].calls() if call_name(c) == "_get_brokerclient"][0].args[0])) == "%s.node_id" % cv
        snd = [n for n in cs.nodes if any(call_name(c) == "_make_request_to_broker" for c in n.calls())]
        ok = ok and len(snd) == 1 and norm([c for c in snd[0].calls() if call_name(c) == "_make_request_to_broker"][0].args[0]) == unparse(gb[0].stmt.targets[0])
    r.check(ok, "%s#coordinator-route" % src.qname, "group request is not routed to the group's coordinator (or a missing coordinator does not raise)",
            where(src, src.node), "JoinGroup/Heartbeat sent to a broker that is not the coordinator")

    # ---- R7 fallback order
    r = ctx.rule("R7", "broker-agnostic: all known brokers connected-first, then every bootstrap host, then the unavailable error", 7, "B")
    sbu = ctx.func(KC + "._send_broker_unaware_request")
    cu = ctx.cfg(sbu)
    def _all_keys_of(e, table):  # a fresh list of every key of the mapping: list(T), list(T.keys()), [k for k in T]
        if isinstance(e, ast.Call) and isinstance(e.func, ast.Name) and e.func.id == "list" and len(e.args) == 1:
            a = e.args[0]
            if isinstance(a, ast.Call) and isinstance(a.func, ast.Attribute) and a.func.attr == "keys" and not a.args:
                a = a.func.value
            return norm(a) == table
        if isinstance(e, ast.ListComp) and len(e.generators) == 1 and not e.generators[0].ifs and isinstance(e.elt, ast.Name) and isinstance(
                e.generators[0].target, ast.Name) and e.elt.id == e.generators[0].target.id:
            return _all_keys_of(ast.Call(func=ast.Name(id="list", ctx=ast.Load()), args=[e.generators[0].iter], keywords=[]), table)
        return False
    ids = [x for x in walk_body_shallow(sbu.body) if isinstance(x, ast.Assign) and _all_keys_of(x.value, "self._brokers")]
    srt = [c for c in calls_in(sbu, "sort") if ids and call_recv(c) == unparse(ids[0].targets[0])]
    lp = [n for n in cu.nodes if n.kind == "for" and ids and norm(n.stmt.iter) == unparse(ids[0].targets[0])]
    ok = bool(ids) and len(srt) == 1 and norm(kwarg(srt[0], "reverse") or ast.Constant(value=0)) == "True" and kwarg(srt[0], "key") is not None and len(lp) == 1
    if ok:
        keyf = prog.resolve_callable(sbu, kwarg(srt[0], "key"))
        ok = keyf is not None and any(call_name(c) == "connected" for c in calls_in(keyf))
        ok = ok and cu.dominates([cu.containing(srt[0])[0].id], lp[0].id)
    elif ids and not srt:
        # partition form: every id goes to exactly one of two lists, by a test on its client's connected(); the attempt
        # loop runs over <connected list> + <other list>
        idv = unparse(ids[0].targets[0])
        for ploop in [n for n in cu.nodes if n.kind == "for" and norm(n.stmt.iter) == idv]:
            pv_ = unparse(ploop.stmt.target)
            pbody = cu.reach([t for t, lab in cu.succ[ploop.id] if lab == ("iter", True)], avoid=[ploop.id], include_src=True)
            apps_ = [(cu.nodes[i], c) for i in sorted(pbody) for c in cu.nodes[i].calls() if call_name(c) == "append" and c.args and norm(c.args[0]) == pv_
                     and isinstance(c.func.value, ast.Name)]
            tests_ = [cu.nodes[i] for i in pbody if cu.nodes[i].kind == "test" and any(call_name(c) == "connected" for c in cu.nodes[i].calls())]
            if len(apps_) != 2 or len(tests_) != 1:
                continue
            arms = {}
            for n_, c_ in apps_:
                for t_, lab in cu.control_deps(n_.id):
                    if t_ is tests_[0] or t_.id == tests_[0].id:
                        arms[lab[2] if lab and lab[0] == "cond" else None] = c_.func.value.id
            exhaustive = ploop.id not in cu.reach([t for t, lab in cu.succ[ploop.id] if lab == ("iter", True)], avoid=[n_.id for n_, _c in apps_] + [ploop.id]) and \
                [t for t, lab in cu.succ[ploop.id] if lab == ("iter", True)][0] not in (ploop.id,)
            if set(arms) == {True, False} and exhaustive:
                want = "%s + %s" % (arms[True], arms[False])
                lp = [n for n in cu.nodes if n.kind == "for" and norm(n.stmt.iter) == want and ploop.id not in cu.reach([n.id]) and n.id in cu.reach([ploop.id])]
                ok = len(lp) == 1
    r.check(ok, "%s#all-known-connected-first" % sbu.qname, "known brokers are not all tried, connected ones first",
            where(sbu, sbu.node), "a reachable known broker is skipped; idle brokers dialled before connected ones")
    exc = [n for n in cu.nodes if n.kind == "except"]
    okx = bool(exc) and bool(lp)
    for e in exc:
        arm = cu.reach([e.id], avoid=[lp[0].id] if lp else [])
        okx = okx and cu.exit.id not in arm and cu.raise_exit.id not in arm and lp[0].id in cu.reach([e.id])
    # ... whatever Kafka error the attempt ends with (case analysis over the package's error table): the try around the
    # per-broker request has a handler for each class
    from .c09 import exc_table
    anc_, _al = exc_table(prog)
    reqs_ = [n for n in cu.nodes if lp and n.id in cu.reach([lp[0].id], avoid=[t for t, lab in cu.succ[lp[0].id] if lab == ("iter", False)]) and
             any(call_name(c) == "_make_request_to_broker" for c in n.calls())]
    trys_ = [x for x in ast.walk(sbu.node) if isinstance(x, ast.Try) and reqs_ and any(reqs_[0].stmt is y or reqs_[0].stmt in list(ast.walk(y)) for b in x.body for y in [b])]
    uncaught = []
    if trys_:
        for cls_ in sorted(k for k, up in anc_.items() if "KafkaError" in up):
            if not any(handler_for(prog, cu, t_, cls_, anc_) is not None for t_ in trys_):
                uncaught.append(cls_)
    okx = okx and bool(trys_) and not uncaught
    r.check(okx, "%s#failure-falls-through" % sbu.qname, "a failed broker ends the attempt instead of trying the next one%s" % (
        " (not caught: %s%s)" % (", ".join(uncaught[:6]), " ..." if len(uncaught) > 6 else "") if uncaught else ""), where(sbu, sbu.node),
            "one unreachable broker makes metadata loading fail although others are up")
    # the loop runs over a snapshot of the broker ids and suspends in its body: the address book can lose a broker
    # meanwhile (a full refresh answered to another lookup).  Whatever looks an id up in the book again (the broker-client
    # getter does) is reached only with the id re-validated - or sits inside the try whose handlers go on to the next one
    fu_ = ctx.facts(sbu)
    if lp:
        lv_ = unparse(lp[0].stmt.target)
        body_ = cu.reach([lp[0].id], avoid=[t for t, lab in cu.succ[lp[0].id] if lab == ("iter", False)])
        susp_ = any(cu.nodes[i].suspends for i in body_)
        for n in [cu.nodes[i] for i in sorted(body_)]:
            for c in n.calls():
                if call_name(c) == "_get_brokerclient" and call_recv(c) == "self":
                    revalidated = ("%s in self._brokers" % lv_, True) in fu_[n.id] or ("%s not in self._brokers" % lv_, False) in fu_[n.id]
                    falls_through = any(lab == ("exc",) and cu.nodes[t].kind == "except" and lp[0].id in cu.reach([t]) and
                                        cu.raise_exit.id not in cu.reach([t], avoid=[lp[0].id]) and (
                                            cu.nodes[t].stmt.type is None or "KeyError" in norm(cu.nodes[t].stmt.type) or norm(cu.nodes[t].stmt.type) in ("Exception", "BaseException"))
                                        for t, lab in cu.succ[n.id])
                    r.check(revalidated or falls_through or not susp_, "%s#snapshot-loop-revalidates" % sbu.qname,
                            "the broker loop runs over a snapshot of the known ids and suspends, but looks `%s` up again without checking that it "
                            "is still known" % lv_, where(sbu, c), "a full metadata refresh removes a broker that has not been tried yet while an "
                            "earlier one is awaited; that one fails: the lookup of the removed id raises KeyError and the operation fails "
                            "at once - the remaining brokers and the bootstrap hosts are never tried")
    # every known broker is asked: an iteration ends without the request having been made only for an id that is no longer
    # in the address book
    if lp and reqs_:
        lv2 = unparse(lp[0].stmt.target)
        b_entry = [t for t, lab in cu.succ[lp[0].id] if lab == ("iter", True)]
        noreq = set(cu.reach(b_entry, avoid=[reqs_[0].id, lp[0].id], follow_exc=False)) | set(b_entry)
        skippers = [cu.nodes[i] for i in noreq if i != reqs_[0].id and any(t == lp[0].id for t, lab in cu.succ[i] if lab != ("exc",))]
        bad_skip = [n for n in skippers if not (("%s not in self._brokers" % lv2, True) in fu_[n.id] or ("%s in self._brokers" % lv2, False) in fu_[n.id])]
        r.check(not bad_skip, "%s#every-known-broker-asked" % sbu.qname, "a known broker is passed over without being asked (line %s)" % ", ".join(
            str(n.lineno) for n in bad_skip), where(sbu, bad_skip[0].stmt if bad_skip else sbu.node),
            "the only broker that could answer is being reconnected to: it is skipped, the others and the bootstrap hosts fail, "
            "the caller sees an unavailable error")
    # the address book the loop runs over loses entries only through the metadata refresh (`_update_brokers`)
    kc_ci = prog.cls(KC)
    shrink = []
    for f_ in [x for x in prog.funcs.values() if x.cls is kc_ci and x.name not in ("_update_brokers", "__init__")]:
        for x in walk_body_shallow(f_.body):
            if isinstance(x, ast.Call) and call_name(x) in ("clear", "pop", "popitem") and call_recv(x) == "self._brokers":
                shrink.append("%s line %d" % (f_.qname, x.lineno))
            if isinstance(x, ast.Delete) and any(isinstance(t_, ast.Subscript) and norm(t_.value) == "self._brokers" for t_ in x.targets):
                shrink.append("%s line %d" % (f_.qname, x.lineno))
            if isinstance(x, ast.Assign) and any(norm(t_) == "self._brokers" for t_ in x.targets):
                shrink.append("%s line %d" % (f_.qname, x.lineno))
    r.check(not shrink, "%s#known-brokers-forgotten-only-by-refresh" % KC, "the table of known brokers is emptied / shrunk outside the metadata refresh: %s" % shrink,
            where(sbu, sbu.node), "a partial broker failure resets the metadata: the next lookup skips every known (healthy, connected) broker and "
            "depends on the bootstrap hosts alone")
    bs = [n for n in cu.nodes if any(call_name(c) == "_send_bootstrap_request" for c in n.calls())]
    lbody = cu.reach([lp[0].id], avoid=[t for t, lab in cu.succ[lp[0].id] if lab == ("iter", False)]) if lp else set()
    r.check(len(bs) == 1 and bs[0].id not in lbody and cu.dominates([lp[0].id], bs[0].id) if lp else False, "%s#bootstrap-after-brokers" % sbu.qname,
            "bootstrap hosts are not tried exactly after all known brokers failed", where(sbu, sbu.node))
    sb = ctx.func(KC + "._send_bootstrap_request")
    cb = ctx.cfg(sb)
    hl = [n for n in cb.nodes if n.kind == "for"]
    hv = [x for x in walk_body_shallow(sb.body) if isinstance(x, ast.Assign) and norm(x.value) == "list(self._bootstrap_hosts)"]
    rz = [n for n in cb.nodes if n.kind == "stmt" and isinstance(n.stmt, ast.Raise) and "KafkaUnavailableError" in norm(n.stmt)]
    ok = len(hl) == 1 and bool(hv) and norm(hl[0].stmt.iter) == unparse(hv[0].targets[0]) and len(rz) == 1
    if ok:
        hbody = cb.reach([hl[0].id], avoid=[t for t, lab in cb.succ[hl[0].id] if lab == ("iter", False)])
        def _normal_or_raised(src, avoid=()):
            # what the handler can lead to when its own statements complete: normal edges, and the edges of explicit `raise`
            seen_, st_ = set(), [src]
            while st_:
                x_ = st_.pop()
                if x_ in seen_ or x_ in avoid:
                    continue
                seen_.add(x_)
                n_ = cb.nodes[x_]
                for t_, lab_ in cb.succ[x_]:
                    if lab_ == ("exc",) and not (n_.kind == "stmt" and isinstance(n_.stmt, ast.Raise)):
                        continue
                    st_.append(t_)
            return seen_
        ok = rz[0].id not in hbody and all(hl[0].id in _normal_or_raised(e.id) and cb.raise_exit.id not in _normal_or_raised(e.id, avoid=[hl[0].id])
                                           for e in cb.nodes if e.kind == "except")
    if ok:
        hs = [e for e in cb.nodes if e.kind == "except"]
        ok = len(hs) >= 2 and all(e.stmt.type is None or norm(e.stmt.type) in ("Exception", "BaseException") for e in hs)
    r.check(ok, "%s#every-host-then-unavailable" % sb.qname, "the unavailable error can be raised before every bootstrap host was tried",
            where(sb, sb.node), "first bootstrap host down: client unusable although others are up")

    # ---- R8 who may construct broker clients
    r = ctx.rule("R8", "_KafkaBrokerClient is constructed only in _get_brokerclient, keyed by the node id it was looked up with", 1, "A")
    sites = sorted({f.qname for f in prog.funcs.values() if f.module.name != "brokerclient" for c in calls_in(f, "_KafkaBrokerClient")})
    gbc = ctx.func(KC + "._get_brokerclient")
    cgb = ctx.cfg(gbc)
    ctor = [c for c in calls_in(gbc, "_KafkaBrokerClient")]
    ok = sites == [gbc.qname] and len(ctor) == 1
    if ok:
        # the constructed client is stored under the looked-up node id in the client map (possibly through a local / an alias of the map)
        stores = []
        for n in cgb.nodes:
            if n.kind == "stmt" and isinstance(n.stmt, ast.Assign) and len(n.stmt.targets) == 1 and isinstance(n.stmt.targets[0], ast.Subscript):
                tgt = n.stmt.targets[0]
                if norm(at(ctx, gbc, n.id, tgt.value)) == "self.clients" and norm(tgt.slice) == gbc.params[1]:
                    og = deferred_origins(cgb, n.id, n.stmt.value) or []
                    if len(og) == 1 and og[0] is ctor[0]:
                        stores.append(n)
        ok = len(stores) == 1
        # the constructor's arguments, a `*args` of a tuple built in place included
        cargs = []
        for a in ctor[0].args:
            if isinstance(a, ast.Starred):
                ogs_ = value_origins(cgb, cgb.containing(ctor[0])[0].id, a.value, params=gbc.params) if isinstance(a.value, ast.Name) else [(None, a.value)]
                if ogs_ and len(ogs_) == 1 and isinstance(ogs_[0][1], (ast.Tuple, ast.List)):
                    cargs += list(ogs_[0][1].elts)
                    continue
            cargs.append(a)
        bmo = [a for a in cargs if (value_origins(cgb, cgb.containing(ctor[0])[0].id, a, params=gbc.params) or [(None, a)]) and any(
            norm(e) == "self._brokers[%s]" % gbc.params[1] for n_, e in (value_origins(cgb, cgb.containing(ctor[0])[0].id, a, params=gbc.params) or []))]
        ok = ok and bool(bmo)
    r.check(ok, "%s#construction" % gbc.qname, "broker clients are constructed elsewhere or with another broker's address", where(gbc, gbc.node), facts=sites)

    # ---- R9 host normalisation
    r = ctx.rule("R9", "_normalize_hosts: unique via set, deterministic via sorted, default port", 1, "A")
    nh = ctx.func("client:_normalize_hosts")
    rets = [x for x in walk_body_shallow(nh.body) if isinstance(x, ast.Return)]
    ok = len(rets) == 1 and isinstance(rets[0].value, ast.Call) and call_name(rets[0].value) == "sorted"
    if ok:
        rvn = norm(rets[0].value.args[0])
        ok = any(isinstance(x, ast.Assign) and unparse(x.targets[0]) == rvn and norm(x.value) == "set()" for x in walk_body_shallow(nh.body)) and \
            "DefaultKafkaPort" in unparse(nh.node)
    r.check(ok, "%s#unique-sorted-default-port" % nh.qname, "host list is not de-duplicated, ordered and port-defaulted", where(nh, nh.node))


MUTANTS = [
    {"id": "left-out-payloads-dropped", "file": "client.py",
     "old": "            unanswered = [p for p in payloads if (p.topic, p.partition) not in acc]\n            if unanswered:\n",
     "new": "            unanswered = [p for p in payloads if (p.topic, p.partition) not in acc]\n            if unanswered and False:\n",
     "expect": "C07.R5", "note": "finding F38"},
    {"id": "left-out-payloads-of-another-request", "file": "client.py",
     "old": "            unanswered = [p for p in payloads if (p.topic, p.partition) not in acc]\n",
     "new": "            unanswered = [p for plist in payloadsList for p in plist if (p.topic, p.partition) not in acc]\n",
     "expect": "C07.R5", "note": "finding F38: payloads of requests not yet looked at are reported as left out"},
    {"id": "unaware-loop-no-revalidation", "file": "client.py",
     "old": "            if node_id not in self._brokers:\n                # A metadata refresh removed this broker while an earlier one\n                # was being tried: there is nobody to ask, go on to the next\n                continue\n",
     "new": "", "expect": "C07.R7", "note": "finding F34"},

    {"id": "grouped-by-metadata-tuple", "file": "client.py",
     "edits": [("client.py", "            payloads_by_broker[leader.node_id].append(payload)", "            payloads_by_broker[leader].append(payload)"),
               ("client.py", "        for node_id, payloads in payloads_by_broker.items():\n            broker = self._get_brokerclient(node_id)",
                "        for broker_meta, payloads in payloads_by_broker.items():\n            broker = self._get_brokerclient(broker_meta.node_id)")],
     "expect": "C07.R1", "note": "finding F21"},
    {"id": "leader-of-first-payload", "file": "client.py", "old": "leader = yield self._get_leader_for_partition(payload.topic, payload.partition)",
     "new": "leader = yield self._get_leader_for_partition(payloads[0].topic, payloads[0].partition)", "expect": "C07.R1"},
    {"id": "no-leader-grouped", "file": "client.py",
     "old": "                if leader is None:\n                    raise LeaderUnavailableError(\n                        \"Leader not available for topic %s partition %s\" % (payload.topic, payload.partition)\n                    )\n",
     "new": "", "expect": "C07.R1"},
    {"id": "all-payloads-to-each-broker", "file": "client.py", "old": "        for node_id, payloads in payloads_by_broker.items():\n            broker",
     "new": "        for node_id, _p in payloads_by_broker.items():\n            broker", "expect": ["C07.R2", "C07.R3"], "accept_analysis_error": True},
    {"id": "wrong-broker-client", "file": "client.py", "old": "            broker = self._get_brokerclient(node_id)\n            requestId = self._next_id()",
     "new": "            broker = self._get_brokerclient(next(iter(self._brokers)))\n            requestId = self._next_id()", "expect": "C07.R2"},
    {"id": "payloads-list-before-send-only-on-success", "file": "client.py", "old": "            inFlight.append(d)\n            payloadsList.append(payloads)",
     "new": "            inFlight.append(d)\n            if expectResponse:\n                payloadsList.append(payloads)", "expect": "C07.R3"},
    {"id": "result-in-answer-order", "file": "client.py", "old": "responses = [acc[k] for k in original_keys if k in acc] if acc else []",
     "new": "responses = list(acc.values())", "expect": "C07.R4"},
    {"id": "noreply-skips-failure-accounting", "file": "client.py",
     "old": "            if not success:\n                # The brokerclient deferred was errback()'d:\n                #   The send failed, or this request was cancelled (by timeout)\n                log.debug(\"%r: request:%r to broker failed: %r\", self, payloads, response)\n                failed_payloads.extend([(p, response) for p in payloads])\n                continue\n            if not expectResponse:\n                continue\n",
     "new": "            if not expectResponse:\n                continue\n            if not success:\n                # The brokerclient deferred was errback()'d:\n                #   The send failed, or this request was cancelled (by timeout)\n                log.debug(\"%r: request:%r to broker failed: %r\", self, payloads, response)\n                failed_payloads.extend([(p, response) for p in payloads])\n                continue\n",
     "expect": "C07.R5", "note": "seeded C01-1"},
    {"id": "failed-first-payload-only", "file": "client.py", "old": "failed_payloads.extend([(p, response) for p in payloads])",
     "new": "failed_payloads.extend([(p, response) for p in payloads[:1]])", "expect": "C07.R5"},
    {"id": "coordinator-none-not-raised", "file": "client.py",
     "old": "        if coordinator is None:\n            raise CoordinatorNotAvailable(\"Coordinator not known for group {!r}\".format(group))\n", "new": "", "expect": "C07.R6"},
    {"id": "connected-last", "file": "client.py", "old": "node_ids.sort(reverse=True, key=connected)", "new": "node_ids.sort(key=connected)", "expect": "C07.R7"},
    {"id": "first-broker-failure-raises", "file": "client.py", "old": "                    e,\n                )\n\n        # The request was not handled",
     "new": "                    e,\n                )\n                raise\n\n        # The request was not handled", "expect": "C07.R7"},
    {"id": "bootstrap-raise-in-loop", "file": "client.py", "old": "                log.debug(\"%s: bootstrap connect to %s:%s -> %s\", self, host, port, e)\n                continue",
     "new": "                log.debug(\"%s: bootstrap connect to %s:%s -> %s\", self, host, port, e)\n                raise", "expect": "C07.R7"},
    {"id": "bootstrap-connect-handler-narrowed", "file": "client.py",
     "old": "            except Exception as e:\n                log.debug(\"%s: bootstrap connect to %s:%s -> %s\", self, host, port, e)",
     "new": "            except OSError as e:\n                log.debug(\"%s: bootstrap connect to %s:%s -> %s\", self, host, port, e)", "expect": "C07.R7", "note": "seeded C07-4"},
    {"id": "unsorted-hosts", "file": "client.py", "old": "    return sorted(result)", "new": "    return list(result)", "expect": "C07.R9"},
]
TWINS = [
    {"id": "result-built-by-loop", "file": "client.py",
     "old": "        responses = [acc[k] for k in original_keys if k in acc] if acc else []",
     "new": "        responses = []\n        for k in original_keys:\n            if k in acc:\n                responses.append(acc[k])"},
    {"id": "leader-check-inverted", "file": "client.py",
     "old": "                leader = yield self._get_coordinator_for_group(consumer_group)\n                if leader is None:\n                    raise CoordinatorNotAvailable(\"Coordinator not available for group: %s\" % (consumer_group))",
     "new": "                leader = yield self._get_coordinator_for_group(consumer_group)\n                if leader is not None:\n                    pass\n                else:\n                    raise CoordinatorNotAvailable(\"Coordinator not available for group: %s\" % (consumer_group))"},
]

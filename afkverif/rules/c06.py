"""C06 - each request completes exactly once, with the response bearing its own id.

Decided: request-table discipline (insert after the duplicate test, every fire
preceded by removal of the entry), the response handler fires the entry popped
with the id extracted from that very frame, with that frame; id byte offsets
agree with the header layouts; unknown-id and cancelled-id arms are inert; the
canceller keeps a tombstone iff the request was written; framing limits and
lengthLimitExceeded overrides; one request per bootstrap connection; fires of
bootstrap Deferreds follow removal from the pending table.
Not decided: reassembly of arbitrarily chunked streams (Twisted IntNStringReceiver).
"""
import ast
import struct

from ..cfg import known_falsy
from ..model import self_attr, unparse, walk_body_shallow
from .util import *  # noqa: F401,F403
from .util import const_value, call_name, call_recv, calls_in, kwarg, need, node_assign_value, norm, where

TECHNIQUE = "request-table typestate (remove-before-fire dominance), def-use of the correlated frame, header offset " \
            "agreement, inert-branch effect check, framing override check"
EXPLANATION = (
    "Rules over afkak/brokerclient.py, afkak/_protocol.py, afkak/kafkacodec.py and the bootstrap loop of client.py: "
    "every `<entry>.d.callback/errback` is dominated by a removal of that entry from self.requests; handleResponse's "
    "fired Deferred, key and value all derive from the same frame parameter; the correlation-id slices used on the "
    "bootstrap connection equal the offsets computed from the struct format of the request header encoder; effect "
    "sets of the unknown/cancelled arms are empty; subclasses of Int32StringReceiver bound MAX_LENGTH and always "
    "drop the connection in lengthLimitExceeded."
    " The length prefix of the framing base class stays unsigned 32-bit (`structFormat` / `prefixLength` not redefined)."
)
SHARED = [('C10', ['R2'], 'a request taken out of the table while the queue is being flushed is not written: its id is free and may be reused'), ('C10', ['R1'], 'requests kept across a reconnect stay in the ordered table that close() drains and fails'), ('C10', ['R5', 'R6', 'R7'], 'a request accepted by the broker client is eventually written or failed (connector hygiene, closed gate, written at once on a live connection)')]
ASSUMPTIONS = ["Twisted Int32StringReceiver reassembles frames and calls lengthLimitExceeded for oversized prefixes",
               "struct.calcsize gives the wire size of big-endian standard formats"]
BC = "brokerclient:_KafkaBrokerClient"


def _removals(cf):
    out = []
    for n in cf.nodes:
        if n.kind == "stmt" and isinstance(n.stmt, ast.Delete) and "self.requests[" in norm(n.stmt):
            out.append(n)
        elif any(call_name(c) in ("pop", "popitem") and call_recv(c) == "self.requests" for c in n.calls()):
            out.append(n)
    return out


def run(ctx):
    prog = ctx.prog
    ci = prog.cls(BC)
    mk = ctx.func(BC + ".makeRequest")
    hr = ctx.func(BC + ".handleResponse")
    cr = ctx.func(BC + "._cancelRequest")

    # ---- R1 table discipline
    r = ctx.rule("R1", "insert only after the duplicate test; every fire of a request Deferred follows removal of its entry", 4, "A+B")
    cm = ctx.cfg(mk)
    fm = ctx.facts(mk)
    ins = [n for n, _k, _v in table_stores(ctx, mk, "self.requests")]
    need(len(ins) == 1, "table insertion not found once in makeRequest")
    key = [unparse(t.slice) for t in ins[0].stmt.targets if isinstance(t, ast.Subscript)][0]
    r.check(("%s in self.requests" % key, False) in fm[ins[0].id], "%s#insert-after-duplicate-test" % mk.qname,
            "a request is stored under an id that may already be in flight", where(mk, ins[0].stmt),
            "the earlier request's entry is overwritten: its Deferred never fires and its response goes to the later one")
    n_fire = 0
    for f in [x for x in prog.funcs.values() if x.cls is ci]:
        cf = ctx.cfg(f)
        rem = _removals(cf)
        for n in cf.nodes:
            for c in n.calls():
                if call_name(c) in ("callback", "errback") and (call_recv(c) or "").endswith(".d"):
                    n_fire += 1
                    # the while-loop in close() pops then fires: dominance holds there too
                    ok = cf.dominates([m.id for m in rem], n.id)
                    r.check(ok, "%s#fire(%s.%s)" % (f.qname, call_recv(c), call_name(c)),
                            "a request Deferred is fired while its entry is still in the table", where(f, c),
                            "late response / reconnect fires it a second time (AlreadyCalledError) or re-sends an "
                            "answered request")
    r.info("fire sites of request Deferreds: %d" % n_fire)

    # ---- R2 own response
    r = ctx.rule("R2", "the response handler fires the entry popped with the id of that frame, with that frame", 2, "A")
    p = hr.first_param()
    ch = ctx.cfg(hr)
    ids = [x for x in walk_body_shallow(hr.body) if isinstance(x, ast.Assign) and isinstance(x.value, ast.Call) and
           call_name(x.value) == "get_response_correlation_id"]
    pops = [x for x in walk_body_shallow(hr.body) if isinstance(x, ast.Assign) and isinstance(x.value, ast.Call) and
            call_name(x.value) == "pop" and call_recv(x.value) == "self.requests"]
    fires = [c for c in calls_in(hr, "callback")]
    ok = (len(ids) == 1 and len(pops) == 1 and len(fires) >= 1 and norm(ids[0].value.args[0]) == p
          and norm(pops[0].value.args[0]) == unparse(ids[0].targets[0])
          and all(call_recv(fc) == "%s.d" % unparse(pops[0].targets[0]) and norm(fc.args[0]) == p for fc in fires))
    r.check(ok, "%s#own-response" % hr.qname, "the Deferred fired is not the one registered under the id carried by the frame "
            "delivered as its value", where(hr, hr.node), "response delivered to a different request")
    sr = ctx.func("_protocol:KafkaBootstrapProtocol.stringReceived")
    p2 = sr.first_param()
    ids2 = [x for x in walk_body_shallow(sr.body) if isinstance(x, ast.Assign) and isinstance(x.value, ast.Subscript) and
            unparse(x.value.value) == p2]
    pops2 = [x for x in walk_body_shallow(sr.body) if isinstance(x, ast.Assign) and isinstance(x.value, ast.Call) and
             call_name(x.value) == "pop" and call_recv(x.value) == "self._pending"]
    f2 = calls_in(sr, "callback")
    ok = (len(ids2) == 1 and len(pops2) == 1 and len(f2) == 1 and norm(pops2[0].value.args[0]) == unparse(ids2[0].targets[0])
          and call_recv(f2[0]) == unparse(pops2[0].targets[0]) and norm(f2[0].args[0]) == p2)
    r.check(ok, "%s#own-response" % sr.qname, "bootstrap protocol does not fire the Deferred stored under the frame's id with that frame",
            where(sr, sr.node))

    # a request whose write raises (whatever the transport raises) is removed and failed: the handler around the write is a catch-all
    srq = ctx.func(BC + "._sendRequest")
    csr = ctx.cfg(srq)
    wn = [n for n in csr.nodes if any(call_name(c) == "sendString" for c in n.calls())]
    hs_ = [n for n in csr.nodes if n.kind == "except"]
    okw = bool(wn) and bool(hs_) and all(h.stmt.type is None or norm(h.stmt.type) in ("Exception", "BaseException") for h in hs_) and any(
        lab == ("exc",) and t in [h.id for h in hs_] for t, lab in csr.succ[wn[0].id])
    if okw:
        arm = csr.reach([hs_[0].id])
        okw = any(any(call_name(c) == "errback" for c in csr.nodes[i].calls()) for i in arm) and any(
            isinstance(csr.nodes[i].stmt, ast.Delete) or any(call_name(c) in ("pop", "popitem") for c in csr.nodes[i].calls()) for i in arm if csr.nodes[i].stmt is not None)
    r2b = ctx.rule("R9", "a request whose write fails for any reason is removed from the table and failed", 1, "B")
    r2b.check(okw, "%s#write-failure-fails-request" % srq.qname,
              "an exception raised while writing the request is handled only for %s (or the handler does not remove and fail the request)" % [
                  norm(h.stmt.type) if h.stmt.type is not None else "everything" for h in hs_], where(srq, srq.node),
              "a request whose write raises anything else never completes, stays in the table, and the exception escapes into the "
              "connect chain: the requests queued behind it are not written on the connection that just came up")

    # ---- R3 id offsets
    r = ctx.rule("R3", "correlation-id slices agree with the header layouts (request offset 4, response offset 0)", 3, "F")
    hdr = ctx.func("kafkacodec:KafkaCodec._encode_message_header")
    # the header grammar as extracted from the encoder (one pack or several, formats through constants): the
    # correlation id is the leaf bound to the parameter of that name; its offset is the size of the leaves before it
    from .. import wireshape as W
    hterms, henv = W.encoder_terms(prog, hdr)
    cid_param = [p_ for p_ in hdr.params if "correlation" in p_]
    need(cid_param, "correlation id parameter of the header encoder not found")
    SIZES = {"INT8": 1, "UINT8": 1, "INT16": 2, "UINT16": 2, "INT32": 4, "UINT32": 4, "INT64": 8, "UINT64": 8}
    CODE = {"INT8": "b", "UINT8": "B", "INT16": "h", "UINT16": "H", "INT32": "i", "UINT32": "I", "INT64": "q", "UINT64": "Q"}
    off, size, code = 0, None, None
    for t in hterms:
        if t[0] == "P" and t[2] == cid_param[0]:
            size, code = SIZES[t[1]], CODE[t[1]]
            break
        need(t[0] == "P", "header struct.pack not found")
        off += SIZES[t[1]]
    need(size is not None, "correlation_id is not packed by the header encoder")
    fmt = "".join(sorted(henv.endians)) + "".join(CODE[t[1]] for t in hterms if t[0] == "P")
    codes = [code]
    k = 0
    req = ctx.func("_protocol:KafkaBootstrapProtocol.request")
    sl = [x.value for x in walk_body_shallow(req.body) if isinstance(x, ast.Assign) and isinstance(x.value, ast.Subscript) and
          unparse(x.value.value) == req.first_param()]
    ok = len(sl) == 1 and slice_bounds(prog, req, sl[0]) == (off, off + size)
    r.check(ok, "%s#request-id-slice" % req.qname, "bootstrap request id slice is not [%d:%d] (header format %r)" % (off, off + size, fmt),
            where(req, req.node), "responses never match: every bootstrap request times out", facts=["fmt=%s offset=%d size=%d" % (fmt, off, size)])
    okr = len(ids2) == 1 and slice_bounds(prog, sr, ids2[0].value) == (0, size)
    r.check(okr, "%s#response-id-slice" % sr.qname, "bootstrap response id slice is not [0:%d]" % size, where(sr, sr.node))
    gid = ctx.func("kafkacodec:KafkaCodec.get_response_correlation_id")
    ru = calls_in(gid, "relative_unpack")
    rfm = const_value(prog, gid, ru[0].args[0]) if len(ru) == 1 else None
    ok = len(ru) == 1 and isinstance(rfm, str) and struct.calcsize(rfm) == size and \
        rfm.lstrip("><!") == codes[k] and rfm[:1] in "><!" and norm(ru[0].args[2]) == "0"
    r.check(ok, "%s#response-id-decode" % gid.qname, "response correlation id is not decoded as %r at offset 0" % codes[k], where(gid, gid.node))

    # ---- R4 inert branches
    r = ctx.rule("R4", "unknown-id and cancelled-id arms of the response handler have no effect on any request", 2, "B")
    fh = ctx.facts(hr)
    tv = unparse(pops[0].targets[0]) if pops else "tReq"
    arms = {"unknown": [n for n in ch.nodes if ("%s is None" % tv, True) in fh[n.id] and n.kind != "test"],
            "cancelled": [n for n in ch.nodes if ("%s.cancelled is None" % tv, False) in fh[n.id] and n.kind != "test"]}
    for name, nodes in sorted(arms.items()):
        bad = []
        for n in nodes:
            if n.stmt is None:
                continue
            for c in n.calls():
                if call_name(c) in ("callback", "errback", "cancel", "loseConnection", "close", "_connect", "pop", "popitem",
                                    "_abortRequest", "disconnect", "clear"):
                    bad.append(norm(c, 50))
            if n.kind == "stmt" and isinstance(n.stmt, (ast.Delete,)) or (isinstance(n.stmt, ast.Assign) and any(
                    "self." in unparse(t) for t in n.stmt.targets)):
                bad.append(n.text(50))
        r.check(bool(nodes) and not bad, "%s#inert(%s)" % (hr.qname, name),
                "the %s-id arm has effects: %s" % (name, bad), where(hr, hr.node),
                "a late, duplicate or unsolicited frame changes the outcome of another request")

    # ---- R5 tombstone
    r = ctx.rule("R5", "canceller keeps the entry iff the request was written", 1, "B")
    cc = ctx.cfg(cr)
    fc = ctx.facts(cr)
    marks = [n for n in cc.nodes if n.kind == "stmt" and isinstance(n.stmt, ast.Assign) and norm(n.stmt.targets[0]).endswith(".cancelled")]
    dels = [n for n in cc.nodes if n.kind == "stmt" and isinstance(n.stmt, ast.Delete)]
    ok = (len(marks) == 1 and len(dels) == 1 and any(t.endswith(".sent is None") and not pol for t, pol in fc[marks[0].id])
          and any(t.endswith(".sent is None") and pol for t, pol in fc[dels[0].id])
          and dels[0].id not in cc.reach([marks[0].id]) and marks[0].id not in cc.reach([dels[0].id]))
    r.check(ok, "%s#tombstone-iff-sent" % cr.qname, "canceller does not keep a tombstone exactly for written requests",
            where(cr, cr.node), "late reply logged as unexpected / unsent cancelled request is written after reconnect")

    # ---- R6 framing
    r = ctx.rule("R6", "protocol classes bound MAX_LENGTH and always drop the connection on an oversized frame", 5, "A")
    pm = prog.module("_protocol")
    protos = [c for c in pm.classes.values() if any("Int32StringReceiver" in b for x in prog.mro(c) for b in x.base_names)]
    need(len(protos) >= 2, "protocol classes not found")
    FRAMING = {"dataReceived", "sendString", "makeConnection", "pauseProducing", "resumeProducing", "stopProducing"}
    for c in sorted(protos, key=lambda c: c.name):
        over = sorted(FRAMING & set(c.methods))
        # ... nor reach into its reassembly buffer (what Twisted leaves there after an oversized prefix is what keeps the
        # dying connection from being parsed any further)
        pokes = sorted({"%s line %d" % (a_, getattr(x, "lineno", 0)) for m_ in c.methods.values() for x in ast.walk(m_.node)
                        if isinstance(x, ast.Attribute) and isinstance(x.ctx, (ast.Store, ast.Del)) and isinstance(x.value, ast.Name) and x.value.id == "self"
                        for a_ in [x.attr] if a_ in ("_unprocessed", "recvd", "_compatibilityOffset", "_unprocessed_offset")})
        r.check(not pokes, "_protocol:%s#receive-buffer-untouched" % c.name, "the protocol class writes the receiver's reassembly buffer: %s" % pokes,
                "afkak/_protocol.py:%d" % c.node.lineno, "after a frame announcing an impossible length the buffered prefix is thrown away: the bytes "
                "that follow are parsed from an arbitrary offset and can complete a pending request with garbage")
        r.check(not over, "_protocol:%s#framing-not-overridden" % c.name, "the protocol class overrides %s of the length-prefixed receiver" % over,
                "afkak/_protocol.py:%d" % c.node.lineno, "bytes of a reply to a live request are dropped or re-framed: that request is neither "
                "resolved nor is its timer released; it is re-sent although it was answered")
        # the length prefix stays the receiver's own: four bytes, unsigned, network order - read as a signed number a prefix with
        # the top bit set passes the MAX_LENGTH test as a negative length and the parse position moves backwards
        prefix_bad = []
        for x in prog.mro(c):
            for an_, okv_ in (("structFormat", ("!I", ">I")), ("prefixLength", (4,))):
                if an_ in x.class_attrs:
                    v_ = x.class_attrs[an_]
                    if not (isinstance(v_, ast.Constant) and v_.value in okv_ and type(v_.value) is type(okv_[0])):
                        prefix_bad.append("%s.%s = %s" % (x.name, an_, norm(v_)))
        r.check(not prefix_bad, "_protocol:%s#length-prefix-unsigned-int32" % c.name, "the frame length prefix is redefined: %s" % prefix_bad,
                "afkak/_protocol.py:%d" % c.node.lineno, "a prefix of 0x80000000 or more is taken for a negative length: not refused, the "
                "connection is not terminated, dataReceived raises or spins")
        ml = None
        for x in prog.mro(c):
            if "MAX_LENGTH" in x.class_attrs:
                ml = x.class_attrs["MAX_LENGTH"]
                break
        val = None
        try:
            val = eval(compile(ast.Expression(ml), "<ml>", "eval"), {"__builtins__": {}}) if ml is not None else None
        except Exception:
            val = None
        okm = isinstance(val, int) and 0 < val <= 2 ** 31 - 1
        if not c.methods and not [m for m in c.methods]:
            pass
        concrete = any(m in c.methods for m in ("stringReceived",))
        if not concrete:
            r.check(okm, "_protocol:%s#MAX_LENGTH" % c.name, "MAX_LENGTH unset or above 2**31-1 (%r)" % val, "afkak/_protocol.py:%d" % c.node.lineno)
            continue
        lle = prog.method(c, "lengthLimitExceeded")
        okl = False
        if lle is not None and lle.module.name == "_protocol":
            cl = ctx.cfg(lle)
            drops = [n.id for n in cl.nodes if any(call_name(x) == "loseConnection" for x in n.calls())]
            okl = bool(drops) and not cl.normal_exits_from(cl.entry.id, avoid=drops)
        r.check(okm and okl, "_protocol:%s#length-limit" % c.name,
                "oversized frame is not answered by dropping the connection (MAX_LENGTH=%r)" % val, "afkak/_protocol.py:%d" % c.node.lineno,
                "a frame announcing an impossible length is buffered without bound")

    # ---- R7 one request per bootstrap connection
    r = ctx.rule("R7", "bootstrap: one request per connection and the connection is always dropped afterwards", 1, "B")
    sb = ctx.func("client:KafkaClient._send_bootstrap_request")
    cb = ctx.cfg(sb)
    from .util import bootstrap_names
    epv, prv = bootstrap_names(sb)
    reqs = [n for n in cb.nodes if any(call_name(c) == "request" and call_recv(c) == prv for c in n.calls())]
    drops = [n.id for n in cb.nodes if any(call_name(c) == "loseConnection" for c in n.calls())]
    loop = [n for n in cb.nodes if n.kind == "for"]
    ok = len({n.stmt for n in reqs}) == 1 and bool(drops) and bool(loop)
    if ok:
        q = reqs[0]
        ok = q.id not in cb.reach([q.id], avoid=[loop[0].id]) and loop[0].id not in cb.reach([q.id], avoid=drops) and \
            cb.exit.id not in cb.reach([q.id], avoid=drops) and cb.raise_exit.id not in cb.reach([q.id], avoid=drops)
    r.check(ok, "%s#one-request-then-drop" % sb.qname, "a bootstrap connection can carry more than one request or survive it",
            where(sb, sb.node), "the drop-on-unknown-id policy of the bootstrap protocol would fail an unrelated request / connections leak")

    # ---- R8 bootstrap pending table: fire after removal
    r = ctx.rule("R8", "bootstrap Deferreds are fired only after removal from the pending table; closed protocol refuses requests", 4, "C")
    cl = ctx.func("_protocol:KafkaBootstrapProtocol.connectionLost")
    ccl = ctx.cfg(cl)
    swap = [n for n in ccl.nodes if node_assign_value(n, "_pending") is not None]
    ebs = [n for n in ccl.nodes if any(call_name(c) == "errback" for c in n.calls())]
    loopv = [n for n in ccl.nodes if n.kind == "for"]
    ok = bool(swap) and bool(ebs) and ccl.dominates([swap[0].id], ebs[0].id) and bool(loopv) and "self." not in norm(loopv[0].stmt.iter)
    r.check(ok, "%s#swap-then-fail-all" % cl.qname, "connection loss does not detach the pending table before failing its Deferreds",
            where(cl, cl.node), "re-entrant request() during errback is failed twice or lost")
    # who may take an entry out of the pending table: the frame that answers it (stringReceived) and the loss of the
    # connection (which detaches the whole table).  An entry whose caller gave up (cancel, timeout) stays, so that its late
    # reply is absorbed instead of being an "unknown id" - which drops the connection and fails every other request on it
    bp = prog.cls("_protocol:KafkaBootstrapProtocol")
    removers = set()
    for meth in [m for m in bp.node.body if isinstance(m, (ast.FunctionDef, ast.AsyncFunctionDef))]:
        for x in ast.walk(meth):
            hit = False
            if isinstance(x, ast.Call) and isinstance(x.func, ast.Attribute) and x.func.attr in ("pop", "popitem", "clear") and self_attr(x.func.value) == "_pending":
                hit = True
            if isinstance(x, ast.Delete) and any(isinstance(t, ast.Subscript) and self_attr(t.value) == "_pending" for t in x.targets):
                hit = True
            if hit:
                removers.add(meth.name)
    r.check(removers <= {sr.name, cl.name} and sr.name in removers, "_protocol:KafkaBootstrapProtocol#pending-removers",
            "entries leave the bootstrap pending table in %s; only the answering frame and the loss of the connection may remove one" % sorted(removers),
            where(sr, sr.node), "a request that was cancelled / timed out is forgotten; its late reply is then an unknown id: the connection "
            "is dropped and the other request outstanding on it fails instead of receiving its response", facts=sorted(removers))
    csr = ctx.cfg(sr)
    fire = [n for n in csr.nodes if any(call_name(c) == "callback" for c in n.calls())]
    popn = [n for n in csr.nodes if any(call_name(c) == "pop" and call_recv(c) == "self._pending" for c in n.calls())]
    r.check(bool(fire) and bool(popn) and csr.dominates([popn[0].id], fire[0].id), "%s#pop-then-fire" % sr.qname,
            "bootstrap response fires a Deferred still in the pending table", where(sr, sr.node), "duplicate frame fires it twice")
    crq = ctx.cfg(req)
    frq = ctx.facts(req)
    st = [n for n in crq.nodes if n.kind == "stmt" and isinstance(n.stmt, ast.Assign) and any(
        isinstance(t, ast.Subscript) and self_attr(t.value) == "_pending" for t in n.stmt.targets)]
    r.check(bool(st) and all(("self._failed is None", True) in frq[n.id] for n in st), "%s#refuses-when-failed" % req.qname,
            "request() on a lost connection is queued instead of failed", where(req, req.node), "that request never completes")


MUTANTS = [
    {"id": "no-duplicate-test", "file": "brokerclient.py",
     "old": "            raise DuplicateRequestError(\"Reuse of correlationId={}\".format(correlationId))", "new": "            pass", "expect": "C06.R1"},
    {"id": "response-peek-not-pop", "file": "brokerclient.py", "old": "tReq = self.requests.pop(correlationId, None)",
     "new": "tReq = self.requests.get(correlationId, None)", "expect": ["C06.R1", "C06.R2"]},
    {"id": "send-error-keeps-entry", "file": "brokerclient.py",
     "old": "            del self.requests[tReq.correlationId]\n            tReq.d.errback(e)", "new": "            tReq.d.errback(e)", "expect": "C06.R1"},
    {"id": "fires-oldest", "file": "brokerclient.py", "old": "            tReq.d.callback(response)",
     "new": "            next(iter(self.requests.values()), tReq).d.callback(response)", "expect": "C06.R2"},
    {"id": "bootstrap-id-offset", "file": "_protocol.py", "old": "correlation_id = request[4:8]", "new": "correlation_id = request[0:4]", "expect": "C06.R3"},
    {"id": "unknown-id-drops-connection", "file": "brokerclient.py",
     "old": "                _aLongerRepr.repr(response),\n            )\n", "new": "                _aLongerRepr.repr(response),\n            )\n            self.proto.transport.loseConnection()\n",
     "expect": "C06.R4"},
    {"id": "cancelled-reply-fires", "file": "brokerclient.py",
     "old": "                len(response),\n            )\n        else:", "new": "                len(response),\n            )\n            tReq.d.callback(response)\n        else:",
     "expect": ["C06.R4"]},
    {"id": "tombstone-inverted", "file": "brokerclient.py", "old": "        if tReq.sent is not None:\n            tReq.cancelled",
     "new": "        if tReq.sent is None:\n            tReq.cancelled", "expect": "C06.R5"},
    {"id": "limit-only-logs", "file": "_protocol.py",
     "old": "            self.MAX_LENGTH,\n        )\n        self.transport.loseConnection()\n\n\nclass KafkaBootstrapProtocol",
     "new": "            self.MAX_LENGTH,\n        )\n\n\nclass KafkaBootstrapProtocol", "expect": "C06.R6"},
    {"id": "max-length-huge", "file": "_protocol.py", "old": "MAX_LENGTH = 2**31 - 1", "new": "MAX_LENGTH = 2**40", "expect": "C06.R6"},
    {"id": "bootstrap-keeps-connection", "file": "client.py", "old": "            finally:\n                protocol.transport.loseConnection()\n",
     "new": "            finally:\n                pass\n", "expect": "C06.R7"},
    {"id": "bootstrap-lost-iterates-live", "file": "_protocol.py",
     "old": "        pending, self._pending = self._pending, None\n        for d in pending.values():", "new": "        for d in self._pending.values():",
     "expect": "C06.R8"},
]
TWINS = [
    {"id": "response-handler-branches-reordered", "file": "brokerclient.py",
     "old": "        if tReq is None:\n            # The broker sent us a response to a request we didn't make.\n            log.error(\n                \"Unexpected response with correlationId=%d: %s\",\n                correlationId,\n                _aLongerRepr.repr(response),\n            )\n        elif tReq.cancelled is not None:",
     "new": "        if tReq is not None and tReq.cancelled is None:\n            tReq.d.callback(response)\n            return\n        if tReq is None:\n            # The broker sent us a response to a request we didn't make.\n            log.error(\n                \"Unexpected response with correlationId=%d: %s\",\n                correlationId,\n                _aLongerRepr.repr(response),\n            )\n        elif tReq.cancelled is not None:"},
    {"id": "cancel-branches-swapped", "file": "brokerclient.py",
     "old": "        if tReq.sent is not None:\n            tReq.cancelled = datetime.utcfromtimestamp(self._reactor.seconds())\n        else:\n            del self.requests[correlationId]",
     "new": "        if tReq.sent is None:\n            del self.requests[correlationId]\n        else:\n            tReq.cancelled = datetime.utcfromtimestamp(self._reactor.seconds())"},
]

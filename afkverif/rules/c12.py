"""C12 - corrupted or truncated message data is never delivered as a message.

Decided: the checksum comparison dominates every interpretation of a message;
encoder and decoder checksum the same region; the truncation policy of the
message-set iterator; cursor monotonicity of the primitive readers (interval
reasoning on the decoded length under the guards in force); every count-driven
loop of a decoder consumes at least one checked fixed-size read per iteration
(so iterations are bounded by the input length); no raw struct.unpack on
received data outside the checked primitives; the consumer grows its buffer
instead of skipping.  CRC-32 detecting every burst <= 32 bits is an arithmetic
fact (trusted).  Not decided: decompression ratio (gzip bombs); snappy paths.
"""
import ast
import re
import struct

from .. import linear
from ..model import unparse, walk_body_shallow
from .util import *  # noqa: F401,F403
from .util import const_value, reaching_defs, unchanged_between, call_name, call_recv, calls_in, need, node_assign_value, node_writes_attr, norm, where

TECHNIQUE = "dominance of the CRC check, interval analysis of reader cursors, consumption check of count loops, " \
            "who-may-call struct.unpack"
EXPLANATION = (
    "Rules over afkak/kafkacodec.py, afkak/_util.py and the too-small arm of the consumer: must-hold fact `crc == "
    "crc32(...)` (negated test) at the magic dispatch; slice/format agreement of the checksummed region between "
    "_encode_message and _decode_message; shape of the BufferUnderflowError handler; for read_short_bytes / "
    "read_int_string / relative_unpack an integer-interval solve over the guard facts at the final return proves the "
    "decoded length >= 0 (returned cursor >= input cursor + prefix, <= len(data)); for each `for _ in range(count)` in "
    "a decoder every path through the body passes a checked primitive read."
    ' Also: the field readers slice the buffer with both bounds (R4: decoding n fields copies O(n) bytes).'
    " The set iterator stops only in the underflow arm or where its loop condition is false (a complete minimal entry is never dropped), and the fetch reply decoder hands the message set over as the lazy iterator (the too-small signal is raised where the consumer's handler stands)."
)
SHARED = [('C05', ['R3'], 'the string readers hand back an advanced cursor on every path, so count-driven loops consume their input'), ('C05', ['R4'], 'compressed payloads are inflated by the library reader, which terminates (with an error) on a truncated stream'), ('C05', ['R1'], 'decoders read counted arrays element by element through checked primitives')]
ASSUMPTIONS = ["CRC-32 detects all burst errors of length <= 32 bits", "struct.calcsize(fmt) >= 0; struct raises on malformed formats",
               "snappy library absent: xerial framing loop excluded from the termination claim"]
READERS = ("relative_unpack", "read_short_bytes", "read_short_ascii", "read_short_text", "read_int_string")


def lower_bound(facts, var):
    """Greatest integer lower bound on `var` implied by simple comparison facts."""
    lb = None
    excluded = set()
    pat = re.compile(r"^%s (<|<=|>|>=|==|!=) (-?\d+)$" % re.escape(var))
    for t, pol in facts:
        m = pat.match(t)
        if not m:
            continue
        op, c = m.group(1), int(m.group(2))
        if not pol:
            op = {"<": ">=", "<=": ">", ">": "<=", ">=": "<", "==": "!=", "!=": "=="}[op]
        if op == ">=":
            lb = c if lb is None else max(lb, c)
        elif op == ">":
            lb = c + 1 if lb is None else max(lb, c + 1)
        elif op == "==":
            lb = c if lb is None else max(lb, c)
        elif op == "!=":
            excluded.add(c)
    while lb is not None and lb in excluded:
        lb += 1
    return lb, excluded


def run(ctx):
    prog = ctx.prog
    dm = ctx.func("kafkacodec:KafkaCodec._decode_message")
    em = ctx.func("kafkacodec:KafkaCodec._encode_message")
    it = ctx.func("kafkacodec:KafkaCodec._decode_message_set_iter")

    # ---- R1 CRC before use
    r = ctx.rule("R1", "the checksum comparison (raising ChecksumError) dominates the magic dispatch, every field read and every return", 3, "B")
    cf = ctx.cfg(dm)
    facts = ctx.facts(dm)
    raises = [n for n in cf.nodes if n.kind == "stmt" and isinstance(n.stmt, ast.Raise) and "ChecksumError" in norm(n.stmt)]
    tests = [n for n in cf.nodes if n.kind == "test" and "crc32" in norm(n.stmt.test)]
    need(tests, "checksum comparison not found in _decode_message")
    t = tests[0]
    ctext = norm(t.stmt.test)
    ok = isinstance(t.stmt.test, ast.Compare) and isinstance(t.stmt.test.ops[0], ast.NotEq) and any(
        cf.dominates([t.id], x.id) and (ctext, True) in facts[x.id] for x in raises)
    r.check(ok, "%s#mismatch-raises" % dm.qname, "a checksum mismatch does not raise ChecksumError", where(dm, t.stmt),
            "altered bytes are decoded and delivered as a message")
    disp = [n for n in cf.nodes if n.kind == "stmt" and isinstance(n.stmt, ast.Return) and isinstance(n.stmt.value, ast.Call) and
            prog.resolve_callable(dm, n.stmt.value.func) is not None]
    r.check(bool(disp) and all((ctext, False) in facts[n.id] for n in disp), "%s#dispatch-after-check" % dm.qname,
            "the per-format decoder is entered without the checksum having been verified", where(dm, dm.node),
            "key/value/attributes of a corrupted message are interpreted (decompression of garbage, wrong codec)")
    early = []
    for n in cf.nodes:
        if n.stmt is None or cf.dominates([t.id], n.id) or n.id == t.id:
            continue
        for c in n.calls():
            if call_name(c) in ("read_int_string", "gzip_decode", "snappy_decode", "Message"):
                early.append(norm(c, 40))
    # ... and nothing is answered before it either: every return of the message decoder (an empty result included) comes
    # after the comparison - a byte inside the checksummed region must not be able to turn a message into "nothing"
    pre = [n for n in cf.nodes if n.kind == "stmt" and isinstance(n.stmt, ast.Return) and not cf.dominates([t.id], n.id)]
    r.check(not pre, "%s#no-answer-before-check" % dm.qname, "the message decoder returns (line %s) without having compared the checksum" % ", ".join(
        str(n.lineno) for n in pre), where(dm, pre[0].stmt if pre else dm.node), "a single flipped bit in the magic byte makes the message vanish "
        "from the set instead of failing the fetch with a checksum error")
    r.check(not early, "%s#no-read-before-check" % dm.qname, "fields are read before the checksum comparison: %s" % early, where(dm, dm.node))

    # ---- R2 CRC region agreement
    r = ctx.rule("R2", "decoder and encoder checksum exactly the bytes that follow the CRC field", 3, "F")
    ru = [c for c in calls_in(dm, "relative_unpack")]
    need(ru and isinstance(ru[0].args[0], ast.Constant), "header unpack of _decode_message not found")
    fmt = ru[0].args[0].value
    first = fmt[0] + [ch for ch in fmt if ch.isalpha()][0] if fmt[0] in "><!" else fmt[0]
    crc_size = struct.calcsize(first)
    m = re.search(r"crc32\((\w+)\[(\d+):\]\)", ctext)
    r.check(bool(m) and int(m.group(2)) == crc_size and m.group(1) == dm.params[1] and first[-1] in "IL" and norm(ru[0].args[2]) == "0",
            "%s#region" % dm.qname, "decoder does not checksum data[%d:] against an unsigned 32-bit field at offset 0 (%s)" % (crc_size, ctext),
            where(dm, t.stmt), "every valid message fails the check, or corrupted bytes outside the region pass")
    ce = ctx.cfg(em)
    fe = ctx.facts(em)
    cands = []  # (node id, value expr) of every value that can be returned
    for n in ce.nodes:
        if n.kind == "stmt" and isinstance(n.stmt, ast.Return) and n.stmt.value is not None:
            v = n.stmt.value
            if isinstance(v, ast.Name):
                for d in reaching_defs(ce, n.id, v.id):
                    dn = ce.nodes[d]
                    val = dn.stmt.value if isinstance(dn.stmt, (ast.Assign, ast.AnnAssign)) else None
                    if isinstance(dn.stmt, ast.AugAssign):
                        val = None
                    cands.append((d, val, unchanged_between(ce, d, n.id, v.id)))
            else:
                cands.append((n.id, v, True))

    def crc_ok(nid, val, stable):
        if not stable or not (isinstance(val, ast.BinOp) and isinstance(val.op, ast.Add)):
            return "returned value is not `pack(crc) + body`"
        left, right = val.left, val.right
        from .. import wireshape as W_
        wenv = W_.Env(prog, em)
        pc = W_._pack_call(wenv, left)  # struct.pack(fmt, v) / a precompiled Struct's .pack(v), module- or class-level
        if not (pc is not None and len(pc[1]) == 1 and isinstance(right, ast.Name)):
            return "returned value is not `pack(crc) + body`"
        f2 = W_._fmt_value(wenv, pc[0])
        if not (isinstance(f2, str) and f2[:1] in ">!" and struct.calcsize(f2) == crc_size and f2[-1] in "IL"):
            return "checksum field is not a big-endian unsigned 32-bit integer"
        cexpr = pc[1][0]
        cdefs = [(nid, cexpr)] if not isinstance(cexpr, ast.Name) else [
            (d, ce.nodes[d].stmt.value if isinstance(ce.nodes[d].stmt, ast.Assign) else None) for d in reaching_defs(ce, nid, cexpr.id)]
        if not cdefs:
            return "checksum value has no definition"
        for d, cv in cdefs:
            crcs = [x for x in ast.walk(cv) if isinstance(x, ast.Call) and call_name(x) == "crc32"] if cv is not None else []
            masked = cv is not None and isinstance(cv, ast.BinOp) and isinstance(cv.op, ast.BitAnd) and 0xFFFFFFFF in (
                const_value(prog, em, cv.left), const_value(prog, em, cv.right))
            if len(crcs) != 1 or not masked or len(crcs[0].args) != 1 or norm(crcs[0].args[0]) != right.id:
                return "checksum is not crc32(%s) & 0xffffffff of the bytes that follow it" % right.id
            if d != nid and not unchanged_between(ce, d, nid, right.id):
                return "`%s` is modified between the checksum computation and its use" % right.id
            if isinstance(cexpr, ast.Name) and d != nid and not unchanged_between(ce, d, nid, cexpr.id):
                return "checksum variable is modified before use"
        return None

    for mag in (0, 1):
        feas = [(nid, val, st) for nid, val, st in cands if ("message.magic == %d" % mag, False) not in fe[nid]]
        probs = [p for p in (crc_ok(*c) for c in feas) if p]
        r.check(bool(feas) and not probs, "%s#region[message.magic == %d]" % (em.qname, mag),
                "encoder does not prepend crc32 of exactly the bytes that follow it: %s" % ("; ".join(sorted(set(probs))) or "no returned value for this format"),
                where(em, ce.nodes[feas[0][0]].stmt if feas else em.node), "brokers reject every message / decoder and encoder disagree")

    # ---- R3 truncation policy
    r = ctx.rule("R3", "underflow inside a set: too-small signal iff nothing was yielded, else stop; nothing else is swallowed", 3, "B")
    ci = ctx.cfg(it)
    fi = ctx.facts(it)
    hs = [n for n in ci.nodes if n.kind == "except"]
    r.check(len(hs) == 1 and norm(hs[0].stmt.type) == "BufferUnderflowError", "%s#only-underflow-handled" % it.qname,
            "the set iterator handles %s" % [norm(h.stmt.type) if h.stmt.type else "everything" for h in hs], where(it, it.node),
            "checksum or protocol errors are swallowed: corrupted tail silently dropped")
    rs = [n for n in ci.nodes if n.kind == "stmt" and isinstance(n.stmt, ast.Raise) and "ConsumerFetchSizeTooSmall" in norm(n.stmt)]
    # boolean flags of the iterator: locals that are only ever assigned True / False
    assigns = {}
    for x in walk_body_shallow(it.body):
        if isinstance(x, ast.Assign) and len(x.targets) == 1 and isinstance(x.targets[0], ast.Name):
            assigns.setdefault(x.targets[0].id, []).append(x.value)
    flags = [k for k, vs in assigns.items() if all(isinstance(v, ast.Constant) and isinstance(v.value, bool) for v in vs)]
    # ... or a counter used as one: initialised to 0, only ever incremented
    augs = {}
    for x in walk_body_shallow(it.body):
        if isinstance(x, ast.AugAssign) and isinstance(x.target, ast.Name):
            augs.setdefault(x.target.id, []).append(x)
    counters = [k for k, vs in assigns.items() if k in augs and all(isinstance(v, ast.Constant) and v.value == 0 and not isinstance(v.value, bool) for v in vs) and all(
        isinstance(a.op, ast.Add) and isinstance(a.value, ast.Constant) and isinstance(a.value.value, int) and a.value.value > 0 for a in augs[k])]
    flags = [k for k in flags if k not in augs] + counters

    def falsy(f, v):
        return (v, False) in f or (v + " is False", True) in f or (v + " is True", False) in f or ("not " + v, True) in f or (v + " == 0", True) in f or (
            v + " > 0", False) in f or (v + " != 0", False) in f

    def truthy(f, v):
        return (v, True) in f or (v + " is False", False) in f or (v + " is True", True) in f or ("not " + v, False) in f or (v + " == 0", False) in f or (
            v + " > 0", True) in f or (v + " != 0", True) in f

    flagv = None
    for v in flags:
        if rs and all(falsy(fi[x.id], v) for x in rs):
            flagv = v
    ok = bool(rs) and flagv is not None
    if ok:
        ys = [n for n in ci.nodes if any(isinstance(x, ast.Yield) for x in n.walk())]
        sets = [n for n in ci.nodes if n.kind == "stmt" and ((isinstance(n.stmt, ast.Assign) and unparse(n.stmt.targets[0]) == flagv and
                getattr(n.stmt.value, "value", None) is True) or (isinstance(n.stmt, ast.AugAssign) and unparse(n.stmt.target) == flagv and flagv in counters))]
        ok = bool(ys) and bool(sets) and all(ci.dominates([s.id for s in sets], y.id) for y in ys) and all(
            any(y.id in [tt for tt, lab in ci.succ[s.id]] for y in ys) for s in sets)
        arm = ci.reach([hs[0].id])
        rets = [ci.nodes[i] for i in arm if ci.nodes[i].kind == "stmt" and isinstance(ci.nodes[i].stmt, ast.Return)]
        ok = ok and bool(rets) and all(truthy(fi[x.id], flagv) for x in rets)
    r.check(ok, "%s#too-small-iff-nothing-yielded" % it.qname, "truncation is not reported as fetch-size-too-small exactly when no message was complete",
            where(it, it.node), "consumer never grows its buffer (stalls) or drops complete messages")
    # ... and the iterator stops nowhere else: a `return` / `break` is either in the underflow arm or where the cursor has
    # reached the end of the data (every entry that is completely there is decoded, however small it is)
    if len(hs) == 1:
        stops = [n for n in ci.nodes if n.kind == "stmt" and isinstance(n.stmt, (ast.Return, ast.Break))]
        loops_ = [n for n in ci.nodes if n.kind == "test" and isinstance(n.stmt, ast.While)]
        end_txts = set()
        for l_ in loops_:
            from ..cfg import cond_atoms as _ca3
            end_txts |= {t for t, p in _ca3(l_.stmt.test, False) if p}
        early = [n for n in stops if not ci.dominates([hs[0].id], n.id) and not any((t, True) in fi[n.id] for t in end_txts)]
        r.check((bool(loops_) or any(n.kind == "for" for n in ci.nodes)) and not early, "%s#stops-only-at-the-end-or-on-underflow" % it.qname,
                "the set iterator can stop (line %s) although data remains and nothing underflowed" % [n.stmt.lineno for n in early],
                where(it, early[0].stmt if early else it.node), "a complete final entry of minimal size (null key and value: 26 bytes) is dropped silently")
    hs2 = [n for n in cf.nodes if n.kind == "except"]
    r.check(not hs2, "%s#no-handlers" % dm.qname, "_decode_message swallows exceptions", where(dm, dm.node))

    # ---- R4 cursor monotonicity of the primitives (linear symbolic evaluation of every return path)
    r = ctx.rule("R4", "readers: on every normal exit the returned cursor >= input cursor + prefix and <= len(data); only the field is copied", 6, "E")
    for name in ("read_short_bytes", "read_int_string", "relative_unpack"):
        f = ctx.func("_util:" + name)
        c = ctx.cfg(f)
        const = lambda e, _f=f: const_value(prog, _f, e)  # noqa: E731
        if name == "relative_unpack":
            dp, cp, prefix = f.params[1], f.params[2], 0
            okfmt = True
        else:
            dp, cp = f.params[0], f.params[1]
            ups = [x for x in walk_body_shallow(f.body) if isinstance(x, ast.Call) and call_name(x) == "unpack"]
            need(len(ups) == 1, "length decode not found in %s" % name)
            fmt = const(ups[0].args[0])
            prefix = {"read_short_bytes": 2, "read_int_string": 4}[name]
            okfmt = isinstance(fmt, str) and fmt[:1] in "!>" and struct.calcsize(fmt) == prefix
        problems, npaths = [], 0
        loops = [n for n in c.nodes if n.kind in ("for",) or (n.kind == "test" and isinstance(n.stmt, ast.While))]
        if loops:
            problems.append("reader contains a loop (not evaluated)")
        for rn, env, cons in linear.run_paths(c, f.params, const):
            npaths += 1
            v = rn.stmt.value
            if not (isinstance(v, ast.Tuple) and len(v.elts) == 2):
                problems.append("return at line %d is not a (value, cursor) pair" % rn.lineno)
                continue
            newcur = linear.lin_of(v.elts[1], env, const)
            cur0, ln = linear.Lin.atom(cp), linear.Lin.atom("len(%s)" % dp)
            if newcur is None:
                problems.append("cursor returned at line %d is not a linear expression" % rn.lineno)
                continue
            if not linear.entails_ge0(newcur - cur0 - linear.Lin(prefix), cons):
                problems.append("line %d: returned cursor `%r` is not provably >= %s + %d (a length below 0 moves the cursor backwards)" % (
                    rn.lineno, newcur, cp, prefix))
            if not linear.entails_ge0(ln - newcur, cons):
                problems.append("line %d: returned cursor `%r` is not provably <= len(%s) (no bounds check on this path)" % (rn.lineno, newcur, dp))
        # a field reader is called once per field: whatever it copies out of the buffer is bounded by the field (both slice
        # bounds given), never "the rest of the buffer" - decoding n fields would otherwise copy O(n^2) bytes
        openended = [norm(x) for x in ast.walk(f.node) if isinstance(x, ast.Subscript) and isinstance(x.slice, ast.Slice) and norm(x.value) == dp
                     and (x.slice.upper is None or x.slice.step is not None)]
        r.check(not openended, "_util:%s#copies-the-field-only" % name, "the reader slices the input buffer without an upper bound: %s" % openended,
                where(f, f.node), "a set of n small messages is decoded in time and memory quadratic in the reply size")
        r.check(okfmt and not problems and npaths >= (1 if name == "relative_unpack" else 2), "_util:%s#cursor-monotone" % name,
                "; ".join(problems) or "length prefix format/size mismatch or no return path", where(f, f.node),
                "a length < -1 passes `len(data) < cur + n`, the cursor moves backwards and a count-driven decoder "
                "loop makes no progress: a 31-byte reply can claim 2**31-1 iterations", facts=["prefix=%d return paths=%d" % (prefix, npaths)])

    # ---- R5 count loops consume
    # floor: 19 loops on the reference tree; the two per-version produce decoders (2 loops each) may legitimately be one
    r = ctx.rule("R5", "every count-driven loop of a decoder passes a checked read on every path through its body", 17, "B")
    kc = prog.cls("kafkacodec:KafkaCodec")
    n_loops = 0
    for f in sorted([x for x in prog.funcs.values() if x.module.name == "kafkacodec" and "decode" in x.qname], key=lambda x: x.qname):
        c = ctx.cfg(f)
        for n in c.nodes:
            if n.kind == "for" and isinstance(n.stmt.iter, ast.Call) and call_name(n.stmt.iter) == "range":
                n_loops += 1
                readers = [m.id for m in c.nodes if any(call_name(x) in READERS for x in m.calls())]
                body = [tt for tt, lab in c.succ[n.id] if lab == ("iter", True)]
                skip = bool(body) and (body[0] == n.id or n.id in c.reach(body, avoid=readers, follow_exc=False)) and body[0] not in readers
                r.check(not skip, "%s#count-loop(%s)@%s" % (f.qname, norm(n.stmt.iter), norm(n.stmt.target)),
                        "an iteration of a count-driven loop can complete without consuming input", where(f, n.stmt),
                        "a hostile count field makes the decoder spin / allocate without bound on a short input")
        for x in ast.walk(f.node):
            if isinstance(x, ast.BinOp) and isinstance(x.op, ast.Mult) and (isinstance(x.left, (ast.List, ast.Tuple)) or isinstance(x.right, (ast.List, ast.Tuple))):
                r.fail("%s#allocation-by-count(%s)" % (f.qname, norm(x)), "allocation sized by a decoded count", where(f, x))
            if isinstance(x, ast.Call) and call_name(x) in ("bytes", "bytearray") and x.args and isinstance(x.args[0], ast.Name) and isinstance(x.func, ast.Name):
                r.fail("%s#allocation-by-count(%s)" % (f.qname, norm(x)), "allocation sized by a decoded count", where(f, x))
    r.info("count loops found: %d" % n_loops)

    # the block loop of the xerial-framed snappy decoder: every pass hands its block to the decompressor, which rejects an
    # empty or malformed block - that is what makes a block length <= 0 an error instead of a cursor that stands still
    sd = ctx.func("codec:snappy_decode")
    csd_ = ctx.cfg(sd)
    wl = [n for n in csd_.nodes if n.kind == "test" and isinstance(n.stmt, ast.While)]
    okb = bool(wl)
    for w_ in wl:
        ent = [t for t, lab in csd_.succ[w_.id] if lab and lab[0] == "cond" and lab[2]]
        dec = [n.id for n in csd_.nodes if any(call_name(c) == "decompress" for c in n.calls())]
        back = set(csd_.reach(ent, avoid=dec, follow_exc=False)) | set(x for x in ent if x not in dec)
        okb = okb and bool(dec) and bool(ent) and w_.id not in back
    r.check(okb, "codec:snappy_decode#block-loop-consumes", "a pass of the block loop can complete without decompressing its block",
            where(sd, wl[0].stmt if wl else sd.node), "a block length of -4 puts the cursor back on its own length field: a 20-byte CRC-valid "
            "snappy message makes the decoder spin for ever")

    # variable-length fields are taken out of a buffer by the checked readers only: a decoder that slices its input with a
    # length it has just decoded must repeat their bounds arithmetic, and getting it wrong by a few bytes turns "message
    # larger than the buffer" into a checksum failure (the buffer then never grows)
    hand = []
    for f_ in sorted([x for x in prog.funcs.values() if x.module.name == "kafkacodec"], key=lambda x: x.qname):
        dps = [p_ for p_ in f_.params if p_ in ("data", "payload", "msg", "message_set")][:1]
        for x in walk_body_shallow(f_.body):
            if isinstance(x, ast.Subscript) and isinstance(x.slice, ast.Slice) and dps and norm(x.value) == dps[0]:
                parts = [b_ for b_ in (x.slice.lower, x.slice.upper) if b_ is not None]
                if any(isinstance(y, ast.Name) for b_ in parts for y in ast.walk(b_)):
                    hand.append("%s line %d: `%s`" % (f_.qname, x.lineno, norm(x, 40)))
    r.check(not hand, "kafkacodec#fields-through-checked-readers", "a decoder slices its input with decoded lengths itself: %s" % hand,
            "afkak/kafkacodec.py:1", "an entry 1..12 bytes larger than the fetch buffer is reported as a checksum failure instead of "
            "fetch-size-too-small: the same fetch is retried for ever")

    # ---- R6 no raw unpack on received data
    r = ctx.rule("R6", "struct.unpack* on received data occurs only inside the checked primitives of _util", 1, "A")
    raw = []
    for f in prog.funcs.values():
        if f.module.name not in ("kafkacodec", "consumer", "client", "brokerclient", "_protocol", "_group"):
            continue
        if f.cls is not None and f.cls.name == "_ReprRequest":
            continue  # formats *requests* this client built, behind an explicit length check
        for x in calls_in(f):
            if call_name(x) in ("unpack", "unpack_from") and "struct" in (call_recv(x) or "").lower() or call_name(x) == "unpack_from":
                raw.append("%s: %s" % (f.qname, norm(x, 50)))
    r.check(not raw, "afkak#raw-unpack-sites", "raw struct.unpack on received bytes outside _util: %s" % raw, facts=raw,
            witness="struct.error (not a Kafka error) escapes, or data is read past the buffer checks")

    # ---- R7 consumer grows, never skips
    r = ctx.rule("R7", "the consumer's too-small arm grows the buffer and does not move the fetch position", 2, "B")
    hfr = ctx.func("consumer:Consumer._handle_fetch_response")
    cc = ctx.cfg(hfr)
    ex = [n for n in cc.nodes if n.kind == "except" and "ConsumerFetchSizeTooSmall" in norm(n.stmt.type)]
    need(ex, "too-small handler missing in the consumer")
    arm = [cc.nodes[i] for i in cc.reach([ex[0].id])]
    from .c14 import buffer_kernel
    buffer_kernel(ctx, r)
    # the signal is raised where the consumer's handler stands: the reply decoder hands the message set over as the (lazy)
    # iterator - decoded inside the client it would surface as a failed request and be retried with the same buffer for ever
    dfr = ctx.func("kafkacodec:KafkaCodec.decode_fetch_response")
    # (the constructor call may sit in a closure of the decoder or in a helper of the codec)
    mk_ = [(f2, ctx.cfg(f2), n, c) for f2 in sorted(prog.functions(module="kafkacodec"), key=lambda x: x.qname) for n in ctx.cfg(f2).nodes
           for c in n.calls() if call_name(c) == "FetchResponse"]
    okl = bool(mk_)
    for f2, cdf, n, c in mk_:
        marg = kwarg(c, "messages") if kwarg(c, "messages") is not None else (c.args[4] if len(c.args) > 4 else None)
        ogs = (value_origins(cdf, n.id, marg, params=f2.params) if isinstance(marg, ast.Name) else [(n.id, marg)]) if marg is not None else None
        okl = okl and bool(ogs) and all(isinstance(e_, ast.Call) and call_name(e_) == "_decode_message_set_iter" for _d, e_ in ogs)
    r.check(okl, "%s#message-set-handed-over-undecoded" % dfr.qname, "the fetch reply decoder does not hand the message set to the consumer as the "
            "lazy iterator of the set decoder", where(mk_[0][0], mk_[0][3]) if mk_ else where(dfr, dfr.node), "a message larger than the fetch buffer: the too-small "
            "signal is raised inside the client, the consumer sees a failed fetch and retries with the same buffer for ever")
    r.check(not any(n.stmt is not None and node_writes_attr(n, "_fetch_offset") for n in arm) and any(
        n.stmt is not None and node_writes_attr(n, "buffer_size") for n in arm), "%s#grow-not-skip" % hfr.qname,
        "too-small arm moves the fetch position or does not grow the buffer", where(hfr, ex[0].stmt), "the large message is skipped")


MUTANTS = [
    {"id": "crc-check-removed", "file": "kafkacodec.py",
     "old": "        if crc != zlib.crc32(data[4:]) & 0xFFFFFFFF:\n            raise ChecksumError(\"Message checksum failed\")\n", "new": "", "expect": "C12.R1",
     "accept_analysis_error": True},
    {"id": "crc-check-only-logs", "file": "kafkacodec.py",
     "old": "        if crc != zlib.crc32(data[4:]) & 0xFFFFFFFF:\n            raise ChecksumError(\"Message checksum failed\")\n",
     "new": "        if crc != zlib.crc32(data[4:]) & 0xFFFFFFFF:\n            log.warning(\"Message checksum failed\")\n", "expect": "C12.R1"},
    {"id": "crc-region-shifted", "file": "kafkacodec.py", "old": "if crc != zlib.crc32(data[4:]) & 0xFFFFFFFF:", "new": "if crc != zlib.crc32(data[6:]) & 0xFFFFFFFF:",
     "expect": "C12.R2"},
    {"id": "underflow-always-stops", "file": "kafkacodec.py",
     "old": "                if read_message is False:\n                    # If we get a partial read of a message, but haven't\n                    # yielded anything there's a problem\n                    raise ConsumerFetchSizeTooSmall() from None\n                else:\n                    return",
     "new": "                return", "expect": "C12.R3", "accept_analysis_error": True},
    {"id": "iterator-swallows-everything", "file": "kafkacodec.py", "old": "            except BufferUnderflowError:\n                # NOTE: Not sure",
     "new": "            except Exception:\n                # NOTE: Not sure", "expect": "C12.R3"},
    {"id": "negative-length-accepted", "file": "_util.py",
     "old": "    if strlen < 0:\n        raise _buffer_underflow(\"long string (invalid length {})\".format(strlen), data, cur, 4)\n", "new": "", "expect": "C12.R4"},
    {"id": "short-negative-length-accepted", "file": "_util.py",
     "old": "    if strlen < 0:\n        raise _buffer_underflow(\"short string (invalid length {})\".format(strlen), data, cur, 2)\n", "new": "", "expect": "C12.R4"},
    {"id": "no-upper-check", "file": "_util.py",
     "old": "    cur += 4\n    if len(data) < cur + strlen:\n        raise _buffer_underflow(\"long string\", data, cur, strlen)\n", "new": "    cur += 4\n", "expect": "C12.R4"},
    {"id": "unpack-no-bounds", "file": "_util.py",
     "old": "    if len(data) < cur + size:\n        raise _buffer_underflow(fmt, data, cur, size)\n\n    out = struct.unpack(fmt, data[cur : cur + size])",
     "new": "    out = struct.unpack(fmt, data[cur : cur + size].ljust(size, b\"\\0\"))", "expect": "C12.R4"},
    {"id": "count-loop-no-consumption", "file": "kafkacodec.py",
     "old": "                offsets = []\n                for _i in range(num_offsets):\n                    ((offset,), cur) = relative_unpack(\">q\", data, cur)\n                    offsets.append(offset)",
     "new": "                offsets = []\n                for _i in range(num_offsets):\n                    offsets.append(partition)", "expect": "C12.R5"},
    {"id": "allocate-by-count", "file": "kafkacodec.py", "old": "        brokers = {}\n        for _i in range(numbrokers):",
     "new": "        brokers = {}\n        slots = [None] * numbrokers\n        for _i in range(numbrokers):", "expect": "C12.R5"},
    {"id": "raw-unpack-in-decoder", "file": "kafkacodec.py", "old": "        ((correlation_id, error), cur) = relative_unpack(\">ih\", data, 0)\n        return _HeartbeatResponse(error)",
     "new": "        (correlation_id, error) = struct.unpack(\">ih\", data[:6])\n        return _HeartbeatResponse(error)", "expect": "C12.R6"},
    {"id": "too-small-skips-message", "file": "consumer.py", "old": "            factor = 2\n            if self.buffer_size <= 2**20:",
     "new": "            factor = 2\n            self._fetch_offset += 1\n            if self.buffer_size <= 2**20:", "expect": "C12.R7"},
]
TWINS = [
    {"id": "length-guard-le-minus-two", "file": "_util.py",
     "old": "    if strlen < 0:\n        raise _buffer_underflow(\"long string (invalid length {})\".format(strlen), data, cur, 4)\n",
     "new": "    if strlen <= -2:\n        raise _buffer_underflow(\"long string (invalid length {})\".format(strlen), data, cur, 4)\n"},
]

"""C15 - group assignment gives every partition to exactly one subscribed member.

Decided: exactly one append of the partition per iteration of the assignment
loop, dominated by the exit condition of the member search (subscribed);
order independence as an order-taint question (member cycle and partition
list must be built through sorted()/sort()); one advance of the member cycle
per partition plus the search loop; the encoded blob of a member is keyed by
the id used for the lookup and absent members get the empty assignment; the
leader loads partition lists before assigning.  Blob encode/decode symmetry is
decided with the wire grammars (C05.R3).  Not decided: balance for
non-identical subscriptions (not claimed by the property).
"""
import ast

from ..model import unparse, walk_body_shallow
from .util import *  # noqa: F401,F403
from .util import call_name, call_recv, calls_in, kwarg, names_in, need, norm, where

TECHNIQUE = "exactly-one-append per loop path, guard-fact dominance, order-taint, advance counting"
EXPLANATION = (
    "Rules over _ConsumerProtocol in afkak/_group.py: CFG of _round_robin_assignment - every path through one "
    "iteration of the partition loop performs exactly one append of that partition (cycle check on the CFG), the "
    "append carries the must-hold fact `topic in subscriptions[member]` (exit condition of the search loop); the "
    "sequences driving the pairing are order-tainted unless they pass sorted()/sort(); one next() on the cycle "
    "outside the search loop; generate_assignments keys blob and lookup by the same member id."
    ' Also: the partition snapshot covers every requested topic (R6, finding F42), the lists handed to the second generation come from the load alone, sorts have no key function.'
    " No construct stores one mutable object under several keys of the assignment (dict.fromkeys with a mutable default); a topic enters the leader's partition snapshot only with its metadata error found to be 0."
)
SHARED = [('C05', ['R3'], "each member decodes from the leader's encoded assignment exactly what was encoded (blob encoder/decoder agree)"),
          ('C16', ['R1'], 'what a member decoded is what it consumes: one partition consumer for every (topic, partition) of its share')]
ASSUMPTIONS = ["itertools.cycle yields its elements round-robin; sorted() is deterministic for str/int keys"]
PROTO = "_group:_ConsumerProtocol"


def run(ctx):
    prog = ctx.prog
    rra = ctx.func(PROTO + "._round_robin_assignment")
    gen = ctx.func(PROTO + ".generate_assignments")
    jas = ctx.func("_group:Coordinator._join_and_sync")
    cf = ctx.cfg(rra)
    facts = ctx.facts(rra)

    loops = [n for n in cf.nodes if n.kind == "for"]
    # the assignment loop appends to (an element of) the value the function returns; loops that only build the
    # list of pairs append to a local that is iterated afterwards
    returned = {root_name(x.value) for x in ast.walk(rra.node) if isinstance(x, ast.Return) and x.value is not None}
    main = None
    for n in loops:
        body = cf.reach([n.id], avoid=[t for t, lab in cf.succ[n.id] if lab == ("iter", False)])
        if any(any(call_name(c) == "append" and root_name(c.func.value) in returned for c in cf.nodes[i].calls()) for i in body):
            if main is None or n.id not in cf.reach([t for t, lab in cf.succ[main.id] if lab == ("iter", True)], avoid=[main.id]):
                main = n
    need(main is not None, "assignment loop not found")
    tgt = [unparse(e) for e in main.stmt.target.elts] if isinstance(main.stmt.target, ast.Tuple) else [unparse(main.stmt.target)]
    need(len(tgt) == 2, "assignment loop does not iterate (topic, partition) pairs")
    topic_v, part_v = tgt
    apps = [n for n in cf.nodes if any(call_name(c) == "append" and c.args and norm(c.args[0]) == part_v for c in n.calls())]

    # ---- R1 exactly one member per partition
    r = ctx.rule("R1", "every path through one iteration appends the partition exactly once", 1, "B")
    ok = len(apps) == 1
    if ok:
        a = apps[0]
        body_entry = [t for t, lab in cf.succ[main.id] if lab == ("iter", True)]
        skip = main.id in cf.reach(body_entry, avoid=[a.id]) or (body_entry and body_entry[0] == main.id)
        twice = a.id in cf.reach([a.id], avoid=[main.id])
        ok = not skip and not twice
    r.check(ok, "%s#one-append-per-partition" % rra.qname,
            "an iteration of the assignment loop can append the partition zero or several times", where(rra, main.stmt),
            "a partition is assigned to nobody, or to two members")
    # the list appended to belongs to one (member, topic): no construct that puts ONE mutable object under several keys
    shared = []
    for x in ast.walk(rra.node):
        if isinstance(x, ast.Call) and call_name(x) == "fromkeys" and len(x.args) == 2 and (isinstance(x.args[1], (ast.List, ast.Dict, ast.Set, ast.ListComp, ast.DictComp)) or (
                isinstance(x.args[1], ast.Call) and call_name(x.args[1]) in ("list", "dict", "set", "defaultdict", "OrderedDict"))):
            shared.append("line %d: `%s`" % (x.lineno, norm(x, 60)))
        if isinstance(x, ast.BinOp) and isinstance(x.op, ast.Mult) and any(isinstance(o, ast.List) and any(isinstance(e, (ast.List, ast.Dict, ast.Set)) for e in o.elts)
                                                                           for o in (x.left, x.right)):
            shared.append("line %d: `%s`" % (x.lineno, norm(x, 60)))
    r.check(not shared, "%s#slots-not-aliased" % rra.qname, "one mutable object is stored under several keys of the assignment: %s" % shared,
            where(rra, main.stmt), "a member subscribed to two topics: every topic of the member lists the union of its partitions - "
            "partitions with two owners, partitions that do not exist")
    need(apps, "no append of the partition")
    a = apps[0]

    # ---- R2 only subscribed members
    r = ctx.rule("R2", "the append is dominated by `topic in subscriptions[member]`", 1, "B")
    ac = [c for c in a.calls() if call_name(c) == "append"][0]
    # assignment[member][topic].append(partition)
    recv = ac.func.value
    member_v = None
    if isinstance(recv, ast.Subscript) and isinstance(recv.value, ast.Subscript):
        member_v = unparse(recv.value.slice)
        ok_t = unparse(recv.slice) == topic_v
    else:
        ok_t = False
    sub = [t for t, pol in facts[a.id] if not pol and t.startswith("%s not in " % topic_v) and member_v and
           "[%s]" % member_v in t and t.endswith(".subscriptions")]
    r.check(ok_t and bool(sub), "%s#append-guarded-by-subscription" % rra.qname,
            "partition appended for a member without `%s in <metadata>[%s].subscriptions` being established" % (topic_v, member_v),
            where(rra, ac), "a member receives partitions of a topic it did not subscribe to",
            facts=sorted(t for t, pol in facts[a.id] if "subscriptions" in t))

    # ---- R3 order independence (order taint)
    r = ctx.rule("R3", "member cycle and partition list are built through sorted()/sort()", 2, "A")
    it = unparse(main.stmt.iter)
    # sorted by the pairs themselves: a key function that does not separate every pair leaves ties in the order of the set
    def _total(c_):
        return not [k_ for k_ in c_.keywords if k_.arg == "key"]
    sorts = [n for n in cf.nodes if any(call_name(c) == "sort" and call_recv(c) == it and _total(c) for c in n.calls())]
    assigned_sorted = any(isinstance(x, ast.Assign) and unparse(x.targets[0]) == it and isinstance(x.value, ast.Call) and
                          call_name(x.value) == "sorted" and _total(x.value) for x in walk_body_shallow(rra.body))
    r.check((bool(sorts) and cf.dominates([s.id for s in sorts], main.id)) or assigned_sorted or
            (isinstance(main.stmt.iter, ast.Call) and call_name(main.stmt.iter) == "sorted" and _total(main.stmt.iter)),
            "%s#partition-order-untainted" % rra.qname,
            "the (topic, partition) sequence is built from a set/dict without sorting", where(rra, main.stmt),
            "two leaders (or one leader given two member orders) compute different assignments")
    cyc = [x for x in walk_body_shallow(rra.body) if isinstance(x, ast.Call) and call_name(x) == "cycle"]
    need(len(cyc) == 1, "member cycle not found")
    arg = cyc[0].args[0]
    def total_sort(e):
        # sorted() by the element itself: a key function that does not separate every pair leaves ties in listing order
        return isinstance(e, ast.Call) and call_name(e) == "sorted" and not [k for k in e.keywords if k.arg in ("key",)]
    srt = total_sort(arg)
    if isinstance(arg, ast.Name):
        srt = any(isinstance(x, ast.Assign) and unparse(x.targets[0]) == arg.id and total_sort(x.value) for x in walk_body_shallow(rra.body))
    r.check(srt, "%s#member-order-untainted" % rra.qname, "the member cycle is built from the member map without sorting",
            where(rra, cyc[0]), "assignment depends on the order in which members are listed")

    # ---- R4 one advance per partition plus the search loop
    r = ctx.rule("R4", "one next() on the member cycle per partition, further advances only in the search loop", 1, "B")
    cyc_var = None
    for x in walk_body_shallow(rra.body):
        if isinstance(x, ast.Assign) and x.value is cyc[0]:
            cyc_var = unparse(x.targets[0])
    nexts = [n for n in cf.nodes if any(call_name(c) == "next" and c.args and unparse(c.args[0]) == cyc_var for c in n.calls())]
    # an advance may be followed by another one only across the outcome "this member is not subscribed to the topic"
    from ..cfg import cond_atoms

    def _unsub(lab):
        return bool(lab) and lab[0] == "cond" and any(
            (not pol) and t.startswith("%s in " % topic_v) and member_v and "[%s]" % member_v in t and t.endswith(".subscriptions")
            for t, pol in cond_atoms(lab[1], lab[2]))
    next_ids = {n.id for n in nexts}
    body_entry = [t for t, lab in cf.succ[main.id] if lab == ("iter", True)]
    starts = [b for b in body_entry if b not in next_ids]
    first = bool(nexts) and a.id not in starts and a.id not in cf.reach(starts, avoid=list(next_ids) + [main.id])
    again = 0
    for n in nexts:
        seen, stack = set(), [t for t, lab in cf.succ[n.id] if lab != ("exc",) and not _unsub(lab)]
        while stack:
            x = stack.pop()
            if x in seen or x == main.id:
                continue
            seen.add(x)
            if x in next_ids:
                again += 1
                continue
            stack.extend(t for t, lab in cf.succ[x] if lab != ("exc",) and not _unsub(lab))
    in_loop = set(cf.reach(body_entry, avoid=[main.id])) | set(body_entry)
    ok = first and not again and next_ids <= in_loop \
        and all(norm(n.stmt.value) == "next(%s)" % cyc_var and unparse(n.stmt.targets[0]) == member_v for n in nexts
                if isinstance(n.stmt, ast.Assign)) and all(isinstance(n.stmt, ast.Assign) for n in nexts)
    r.check(ok, "%s#single-advance" % rra.qname, "the member cycle is not advanced exactly once per partition apart from skipping unsubscribed members "
            "(advance before the append: %s; unconditional further advances: %d)" % (first, again), where(rra, main.stmt), "identical subscriptions: spread between members exceeds one partition")

    # ---- R5 blob keyed by the looked-up member; absent -> empty
    r = ctx.rule("R5", "each member's blob encodes the assignment looked up under that member's id (empty if absent)", 1, "A")
    # the per-member unit: a loop over the members, or a one-parameter closure mapped over them by a comprehension
    units = [(unparse(x.target), x, x.iter) for x in walk_body_shallow(gen.body) if isinstance(x, ast.For) and isinstance(x.target, ast.Name)]
    for comp in [x for x in walk_body_shallow(gen.body) if isinstance(x, (ast.ListComp, ast.GeneratorExp)) and len(x.generators) == 1
                 and not x.generators[0].ifs and isinstance(x.elt, ast.Call) and isinstance(x.elt.func, ast.Name) and x.elt.func.id in gen.nested]:
        g_ = gen.nested[comp.elt.func.id]
        tv_ = unparse(comp.generators[0].target)
        if len(g_.params) == 1 and len(comp.elt.args) == 1 and norm(comp.elt.args[0]) == tv_:
            units.append((g_.params[0], g_.node, comp.generators[0].iter))
        elif len(g_.params) == 1 and len(comp.elt.args) == 1 and norm(comp.elt.args[0]) == "%s.member_id" % tv_:
            # the closure is handed the member's id itself
            units.append(("=" + g_.params[0], g_.node, comp.generators[0].iter))
    # ... or a helper method of the protocol class handed the member and the assignment map
    amap_alias = {}
    amap0 = [unparse(x.targets[0]) for x in walk_body_shallow(gen.body) if isinstance(x, ast.Assign) and isinstance(x.value, ast.Call)
             and call_name(x.value) == "_round_robin_assignment"]
    for comp in [x for x in walk_body_shallow(gen.body) if isinstance(x, (ast.ListComp, ast.GeneratorExp)) and len(x.generators) == 1
                 and not x.generators[0].ifs and isinstance(x.elt, ast.Call) and isinstance(x.elt.func, ast.Attribute)]:
        g_ = prog.resolve_call(gen, comp.elt)
        tv_ = unparse(comp.generators[0].target)
        if g_ is None or g_.cls is not gen.cls or comp.elt.keywords:
            continue
        ps_ = [p_ for p_ in g_.params if p_ not in ("self", "cls")]
        if len(ps_) == 2 and len(comp.elt.args) == 2 and norm(comp.elt.args[0]) == tv_ and amap0 and norm(comp.elt.args[1]) == amap0[0] and not any(
                isinstance(y, ast.Name) and isinstance(y.ctx, ast.Store) and y.id in ps_ for y in ast.walk(g_.node)):
            units.append((ps_[0], g_.node, comp.generators[0].iter))
            amap_alias[id(g_.node)] = ps_[1]
    ok = False
    for lv, scope_, it_ in units:
        encs = [c for c in ast.walk(scope_) if isinstance(c, ast.Call) and call_name(c) == "encode_sync_group_member_assignment"]
        mems = [c for c in ast.walk(scope_) if isinstance(c, ast.Call) and call_name(c) == "_SyncGroupRequestMember"]
        if encs and mems:
            av = kwarg(encs[0], "assignments", 1)
            encv = [unparse(x.targets[0]) for x in ast.walk(scope_) if isinstance(x, ast.Assign) and x.value is encs[0]]
            amap = [unparse(x.targets[0]) for x in walk_body_shallow(gen.body) if isinstance(x, ast.Assign) and isinstance(x.value, ast.Call)
                    and call_name(x.value) == "_round_robin_assignment"]
            mid = lv[1:] if lv.startswith("=") else "%s.member_id" % lv
            if id(scope_) in amap_alias and amap:
                amap = [amap_alias[id(scope_)]]
            ok = (bool(amap) and norm(av) in ("%s.get(%s, {})" % (amap[0], mid),) and norm(mems[0].args[0]) == mid
                  and ((encv and norm(mems[0].args[1]) == encv[0]) or mems[0].args[1] is encs[0]) and unparse(it_) == gen.params[1])
    r.check(ok, "%s#blob-keyed-by-member" % gen.qname, "blob and lookup do not use the same member id, or absent members do "
            "not get the empty assignment", where(gen, gen.node), "a member decodes another member's partitions")

    # ---- R6 leader loads partitions first
    r = ctx.rule("R6", "need-partitions signal -> load -> regenerate, before the sync request", 2, "B")
    cj = ctx.cfg(jas)
    exc = [n for n in cj.nodes if n.kind == "except" and "_NeedTopicPartitions" in norm(n.stmt.type)]
    need(exc, "need-partitions handler not found in _join_and_sync")
    arm = cj.reach([exc[0].id])
    load = [cj.nodes[i] for i in arm if any(call_name(c) == "_load_topic_partitions" for c in cj.nodes[i].calls())]
    regen = [cj.nodes[i] for i in arm if any(call_name(c) == "generate_assignments" for c in cj.nodes[i].calls())]
    sync = [n for n in cj.nodes if any(call_name(c) == "send_sync_group_request" for c in n.calls())]
    ok = bool(load) and bool(regen) and bool(sync) and regen[0].id in cj.reach([load[0].id]) and sync[0].id in cj.reach([regen[0].id])
    if ok:
        lv = unparse(load[0].stmt.targets[0]) if isinstance(load[0].stmt, ast.Assign) else None
        gc = [c for c in regen[0].calls() if call_name(c) == "generate_assignments"][0]
        ok = lv is not None and norm(kwarg(gc, "topic_partitions", 1)) == lv and norm(load[0].calls()[0].args[0]) .startswith("*%s.topics" % exc[0].stmt.name)
        # ... and from nothing but that load: a fallback to whatever is cached can hand the generator empty lists
        og_ = value_origins(cj, regen[0].id, kwarg(gc, "topic_partitions", 1), params=jas.params) or []
        ok = ok and bool(og_) and all(isinstance(e_, (ast.Yield, ast.Await)) and isinstance(e_.value, ast.Call) and call_name(e_.value) == "_load_topic_partitions"
                                      for _d, e_ in og_)
        gv = unparse(regen[0].stmt.targets[0]) if isinstance(regen[0].stmt, ast.Assign) else None
        sc = [c for c in sync[0].calls() if call_name(c) == "send_sync_group_request"][0]
        ok = ok and gv is not None and sc.args and norm(sc.args[0]) == gv
    # the need-partitions signal is raised exactly for topics that are absent from the map (a KeyError / `not in`), never
    # for a topic whose list is present but empty: the reload cannot change that and the second raise is unhandled
    rra_ = ctx.func("_group:_ConsumerProtocol._round_robin_assignment")
    crr = ctx.cfg(rra_)
    frr = ctx.facts(rra_)
    sig = [n for n in crr.nodes if n.kind == "stmt" and isinstance(n.stmt, ast.Raise) and "_NeedTopicPartitions" in norm(n.stmt)]
    kerr = [n for n in crr.nodes if n.kind == "except" and n.stmt.type is not None and norm(n.stmt.type) == "KeyError"]
    oks = bool(sig)
    for n in sig:
        in_handler = any(n.id in crr.reach([h.id]) for h in kerr)
        absent = any(pol and " not in " in t for t, pol in frr[n.id])
        oks = oks and (in_handler or absent)
    r.check(oks, "%s#signal-only-for-absent-topics" % rra_.qname, "the need-partitions signal is raised under another condition than `topic absent "
            "from the partition map`", where(rra_, sig[0].stmt if sig else rra_.node),
            "a subscribed topic that maps to an empty list: the leader raises again after the reload, nothing handles it, no SyncGroup is sent")
    # the snapshot handed to the leader is the cached list itself, not a filtered view of it
    ltp = ctx.func("client:KafkaClient._load_topic_partitions")
    # the mapping that is returned (whatever its local is called, also through a copy `snapshot = usable`): every entry
    # stored in it is the cached list of that very topic
    cl_ = ctx.cfg(ltp)
    maps = set()
    for n_ in cl_.nodes:
        for c_ in n_.calls():
            if call_name(c_) == "returnValue" and c_.args and isinstance(c_.args[0], ast.Name):
                maps.add(c_.args[0].id)
                for _dn, e_ in (value_origins(cl_, n_.id, c_.args[0], params=ltp.params) or []):
                    if isinstance(e_, ast.Name):
                        maps.add(e_.id)
        if n_.kind == "stmt" and isinstance(n_.stmt, ast.Return) and isinstance(n_.stmt.value, ast.Name):
            maps.add(n_.stmt.value.id)
    for _ in range(2):
        for x in walk_body_shallow(ltp.body):
            if isinstance(x, ast.Assign) and isinstance(x.value, ast.Name) and any(isinstance(t, ast.Name) and t.id in maps for t in x.targets):
                maps.add(x.value.id)
    snaps = [(n_, t, n_.stmt.value) for n_ in cl_.nodes if n_.kind == "stmt" and isinstance(n_.stmt, ast.Assign) for t in n_.stmt.targets
             if isinstance(t, ast.Subscript) and isinstance(t.value, ast.Name) and t.value.id in maps]
    oksn = bool(snaps)
    for n_, t, v in snaps:
        key_ = norm(t.slice)
        inner = v.args[0] if isinstance(v, ast.Call) and call_name(v) in ("list", "sorted", "tuple") and len(v.args) == 1 else v
        ogs = value_origins(cl_, n_.id, inner, params=ltp.params) if isinstance(inner, ast.Name) else [(n_.id, inner)]
        oksn = oksn and bool(ogs) and all(norm(e_) in ("self.topic_partitions[%s]" % key_, "self.topic_partitions.get(%s)" % key_) for _d, e_ in ogs)
    # ... only of a topic whose metadata carries no error (a topic that is coming up lists a partial partition set next to
    # LEADER_NOT_AVAILABLE: assigning from it leaves the missing partitions to nobody)
    import re as _re6
    fl6 = ctx.facts(ltp, kill_on_suspend=False)
    err_ok = bool(snaps)
    for n_, t, v in snaps:
        good = False
        for tx, pol in fl6[n_.id]:
            if "metadata_error_for_topic(" not in tx and "topic_errors" not in tx:
                # a local holding the error: `errno = self.metadata_error_for_topic(topic)`
                try:
                    te_ = ast.parse(tx, mode="eval").body
                except SyntaxError:
                    continue
                nm_ = [y for y in ast.walk(te_) if isinstance(y, ast.Name)]
                if len(nm_) != 1:
                    continue
                ogs_ = value_origins(cl_, n_.id, nm_[0], params=ltp.params)
                if not ogs_ or len(ogs_) != 1 or not any(k_ in norm(ogs_[0][1]) for k_ in ("metadata_error_for_topic(", "topic_errors")):
                    continue
                tx = tx.replace(nm_[0].id, norm(ogs_[0][1]))
            if (_re6.search(r"(!= 0|> 0)$", tx) and not pol) or (_re6.search(r"== 0$", tx) and pol) or (tx.startswith("not ") and pol and " " not in tx[4:].split("(")[0]) or (
                    not pol and _re6.fullmatch(r"self\.metadata_error_for_topic\([^()]*\)|self\.topic_errors\.get\([^()]*\)|self\.topic_errors\[[^\[\]]*\]", tx)):
                good = True
        err_ok = err_ok and good
    r.check(err_ok, "%s#snapshot-only-of-error-free-topics" % ltp.qname, "a topic enters the snapshot without its metadata error having been found to be 0",
            where(ltp, snaps[0][0].stmt if snaps else ltp.node), "a topic coming up (LEADER_NOT_AVAILABLE plus a partial partition list): the leader assigns "
            "only the partitions visible at that moment, the rest go to no member")
    # ... for every topic that was asked about: the loop that fills the map runs over the requested names (the parameter,
    # possibly coerced), not over whatever the reply chose to list
    cover_ok, cover_why = bool(snaps), "no loop fills the snapshot"
    vararg = ltp.node.args.vararg.arg if ltp.node.args.vararg is not None else (ltp.params[1] if len(ltp.params) > 1 else None)
    for n_, t, v in snaps:
        loops_ = [m_ for m_ in cl_.nodes if m_.kind == "for" and n_.id in cl_.reach([t2 for t2, lab in cl_.succ[m_.id] if lab == ("iter", True)], avoid=[m_.id])]
        if not loops_:
            cover_ok, cover_why = False, "the snapshot is not filled by a loop over the requested topics"
            continue
        lp_ = loops_[-1]
        ogs = value_origins(cl_, lp_.id, lp_.stmt.iter, params=tuple(ltp.params) + ((vararg,) if vararg else ())) if isinstance(lp_.stmt.iter, ast.Name) else [(lp_.id, lp_.stmt.iter)]
        for d_, e_ in (ogs or [(None, None)]):
            from_param = e_ is not None and vararg is not None and vararg in names_in(e_) and not any(
                isinstance(y, (ast.Yield, ast.Await)) or (isinstance(y, ast.Call) and (call_name(y) or "").startswith("decode_")) for y in ast.walk(e_))
            if isinstance(e_, ast.Name) and e_.id == vararg and d_ != cl_.entry.id:
                from_param = False
            if not from_param:
                cover_ok, cover_why = False, ("the loop filling the snapshot runs over `%s`, which is not the requested topic names" % norm(e_)) if e_ is not None else (
                    "the loop filling the snapshot runs over `%s`, which was re-bound since the call (to something that is not the requested topic names)" % norm(lp_.stmt.iter))
    r.check(cover_ok, "%s#snapshot-covers-requested-topics" % ltp.qname, cover_why, where(ltp, snaps[0][0].stmt if snaps else ltp.node),
            "a metadata reply leaves out a requested topic (it does not exist yet): the call completes without it, the leader's second "
            "assignment attempt signals missing partitions again - unhandled - and the group never syncs")
    r.check(oksn, "%s#snapshot-unfiltered" % ltp.qname, "the partition snapshot given to the group leader is not the cached partition list of the topic",
            where(ltp, snaps[0] if snaps else ltp.node), "a momentarily leaderless partition is left out and assigned to nobody for the whole generation")
    gens = [c for n in cj.nodes for c in n.calls() if call_name(c) == "generate_assignments"]
    fresh = True
    for c in gens:
        tp = kwarg(c, "topic_partitions", 1)
        lv2 = unparse(load[0].stmt.targets[0]) if load and isinstance(load[0].stmt, ast.Assign) else None
        if not ((isinstance(tp, ast.Dict) and not tp.keys) or (tp is not None and norm(tp) == lv2 and "self." not in norm(tp))):
            fresh = False
    r.check(bool(gens) and fresh, "%s#partition-map-fresh-per-join" % jas.qname,
            "the leader assigns from a partition map that outlives the join (an attribute), not from `{}` / the lists it has just loaded",
            where(jas, jas.node), "same member elected leader twice, partitions added in between: the new partitions are assigned to nobody")
    r.check(ok, "%s#load-then-assign-then-sync" % jas.qname, "the leader does not load the missing partition lists, regenerate "
            "the assignment from them and send that assignment", where(jas, exc[0].stmt))


MUTANTS = [
    {"id": "append-in-search-loop", "file": "_group.py",
     "old": "                member_id = next(member_iter)\n            assignment[member_id][topic].append(partition)",
     "new": "                assignment[member_id][topic].append(partition)\n                member_id = next(member_iter)\n            assignment[member_id][topic].append(partition)",
     "expect": ["C15.R1", "C15.R2"]},
    {"id": "no-subscription-check", "file": "_group.py",
     "old": "            while topic not in member_metadata[member_id].subscriptions:\n                member_id = next(member_iter)\n", "new": "",
     "expect": "C15.R2"},
    {"id": "members-unsorted", "file": "_group.py", "old": "itertools.cycle(sorted(member_metadata.keys()))",
     "new": "itertools.cycle(member_metadata.keys())", "expect": "C15.R3"},
    {"id": "members-sorted-by-weak-key", "file": "_group.py", "old": "itertools.cycle(sorted(member_metadata.keys()))",
     "new": "itertools.cycle(sorted(member_metadata, key=lambda m: len(member_metadata[m].subscriptions)))", "expect": "C15.R3", "note": "seeded C15-5"},
    {"id": "leader-caches-partition-map", "file": "_group.py",
     "edits": [("_group.py", "                    topic_partitions={},", "                    topic_partitions=self.__dict__.setdefault('_tp', {}),")],
     "expect": "C15.R6", "note": "seeded C15-4"},
    {"id": "partitions-unsorted", "file": "_group.py", "old": "        all_topic_partitions.sort()\n", "new": "", "expect": "C15.R3"},
    {"id": "double-advance", "file": "_group.py", "old": "            member_id = next(member_iter)\n\n            # Because",
     "new": "            member_id = next(member_iter)\n            member_id = next(member_iter)\n\n            # Because", "expect": "C15.R4"},
    {"id": "blob-wrong-member", "file": "_group.py", "old": "assignments=assignments.get(member.member_id, {}),",
     "new": "assignments=assignments.get(members[0].member_id, {}),", "expect": "C15.R5"},
    {"id": "stale-assignment-synced", "file": "_group.py",
     "old": "                assignments = yield self.protocol.generate_assignments(\n                    join_response.members,\n                    topic_partitions=topic_partitions,",
     "new": "                assignments = yield self.protocol.generate_assignments(\n                    join_response.members,\n                    topic_partitions={},",
     "expect": "C15.R6"},
]
TWINS = [
    {"id": "sorted-call-form", "file": "_group.py",
     "edits": [("_group.py", "        all_topic_partitions.sort()\n", "        all_topic_partitions = sorted(all_topic_partitions)\n")]},
]

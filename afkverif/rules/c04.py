"""C04 - every request on the wire conforms to the Kafka protocol grammar.

Decided: for each encoder the grammar extracted from the source (symbolic
evaluation of the byte accumulator: struct formats flattened, write_* calls,
count-prefixed loops, header inlined) equals the hand-transcribed protocol
schema, leaf bindings included (API key, header version, which argument feeds
which field, counts taken from the iterated collection); the primitive
writers' null/empty/length arms; message and message-set layout; codec
pairing; order preservation; version dispatch agreement of encoder, decoder and
client for the negotiated versions {0} and [2, inf); the tri-state discipline
of the discovered version table; big-endian formats only.
Not decided: value ranges (struct.error at run time), the clock timestamp,
get_api_version's lookup by list position (assumption).
"""
import ast
import struct

from .. import kafka_schema as KS
from .. import wireshape as W
from ..model import self_attr, unparse, walk_body_shallow
from .util import *  # noqa: F401,F403
from .util import concrete_values, expand, holds_mod, const_value, call_name, call_recv, calls_in, kwarg, need, norm, where

TECHNIQUE = "wire-grammar extraction by symbolic evaluation of encoders, compared with a hand-transcribed Kafka schema; " \
            "abstract version-dispatch evaluation; tri-state read discipline"
EXPLANATION = (
    "afkverif.wireshape turns every encode_* function of afkak/kafkacodec.py (and the primitives of _util.py) into a "
    "grammar term over INT8..INT64/STRING/BYTES/ARRAY/SIZED/MSGSET with the canonical source of every leaf; "
    "afkverif.kafka_schema is the oracle transcribed from the protocol guide. Terms are compared leaf by leaf, so "
    "splitting or merging struct formats or renaming locals is invisible while a dropped, extra, re-typed, reordered or "
    "mis-bound field is reported by name. Version dispatch is evaluated on the abstract values {0} and >= 2."
    ' Also: the compressed wrapper is written in the format of the messages it wraps (R4); the fallback state of the version table is one falsy constant used by every store and comparison (R6/R7).'
    " The negotiated version state is written only by the discovery functions, never reset to `undiscovered` after construction, and the fall-back is stored only where `_api_versions is None` holds since the last suspension (overlapping discoveries)."
)
SHARED = [('C16', ['R3'], 'after UNKNOWN_MEMBER_ID the member id is reset to the empty string the JoinGroup grammar asks for on a first join (not to a null)'), ('C07', ['R7'], 'version discovery tries every broker and every bootstrap host whatever the error, and so ends in an answer or in the fallback to version 0')]
ASSUMPTIONS = ["Kafka protocol guide layouts as transcribed in afkverif/kafka_schema.py (DESIGN.md appendix A)",
               "brokers list ApiVersions entries by ascending key so that table[key] is that key's entry (get_api_version)"]
KCQ = "kafkacodec:KafkaCodec"


def tmatch(got_t, want_t):
    return got_t in want_t if isinstance(want_t, tuple) else got_t == want_t


def _tri_eval(test, read, value):
    """Value of `test` when the expression node `read` evaluates to `value` (None or 0); None if it cannot be told."""
    if test is read:
        return bool(value)
    if isinstance(test, ast.UnaryOp) and isinstance(test.op, ast.Not):
        v = _tri_eval(test.operand, read, value)
        return None if v is None else (not v)
    if isinstance(test, ast.BoolOp):
        vals = [_tri_eval(v, read, value) for v in test.values]
        if isinstance(test.op, ast.And):
            if any(v is False for v in vals):
                return False
            return True if all(v is True for v in vals) else None
        if any(v is True for v in vals):
            return True
        return False if all(v is False for v in vals) else None
    if isinstance(test, ast.Compare) and len(test.ops) == 1:
        a, b = test.left, test.comparators[0]
        other = b if a is read else (a if b is read else None)
        if other is None:
            return None
        try:
            c = ast.literal_eval(other)
        except (ValueError, TypeError, SyntaxError):
            return None
        op = test.ops[0]
        if isinstance(op, (ast.Eq,)):
            return value == c
        if isinstance(op, (ast.NotEq,)):
            return value != c
        if isinstance(op, ast.Is):
            return value is c
        if isinstance(op, ast.IsNot):
            return value is not c
    return None


def diff_terms(got, want, path="", check_bind=True):
    """first mismatch between extracted and schema terms, or None"""
    for i in range(max(len(got), len(want))):
        if i >= len(got):
            return "%s: field #%d missing, schema expects %s" % (path or "body", i, _short(want[i]))
        if i >= len(want):
            return "%s: extra field #%d %s not in the schema" % (path or "body", i, _short(got[i]))
        g, w = got[i], want[i]
        if g[0] != w[0]:
            return "%s: field #%d is %s, schema expects %s" % (path or "body", i, _short(g), _short(w))
        if g[0] == "P":
            if not tmatch(g[1], w[1]):
                return "%s: field #%d (%s) has type %s, schema says %s" % (path or "body", i, g[2], g[1], w[1])
            if check_bind and w[2] is not None and g[2] != w[2]:
                return "%s: field #%d %s is bound to `%s`, schema says `%s`" % (path or "body", i, g[1], g[2], w[2])
        elif g[0] in ("STR", "BYTES", "RAW", "MSGSET"):
            if check_bind and w[1] is not None and g[1] != w[1]:
                return "%s: field #%d %s is bound to `%s`, schema says `%s`" % (path or "body", i, g[0], g[1], w[1])
            if g[0] == "STR" and len(w) > 2 and w[2] is not None and len(g) > 2 and g[2] != w[2]:
                return "%s: field #%d (%s) is a %s string, the protocol string is UTF-8 %s here" % (path or "body", i, g[1], g[2], w[2])
        elif g[0] == "SIZED":
            d = diff_terms([g[1]], [w[1]], path + "/sized", check_bind)
            if d:
                return d
        elif g[0] == "ARRAY":
            if check_bind and w[1] is not None and g[1] != w[1]:
                return "%s: array #%d counts/iterates `%s`, schema says `%s`" % (path or "body", i, g[1], w[1])
            d = diff_terms(g[2], w[2], "%s/array#%d" % (path, i), check_bind)
            if d:
                return d
        else:
            return "%s: field #%d unrecognised construct %s" % (path or "body", i, _short(g))
    return None


def _short(t):
    if t[0] == "P":
        return "%s<-%s" % (t[1], t[2])
    if t[0] == "ARRAY":
        return "ARRAY(%s)" % t[1]
    return "%s(%s)" % (t[0], t[1] if len(t) > 1 and not isinstance(t[1], (list, tuple)) else "...")


def codec_consts(prog):
    ci = prog.cls(KCQ)
    out = {}
    for k, v in ci.class_attrs.items():
        if isinstance(v, ast.Constant) and isinstance(v.value, int):
            out[k] = v.value
    return out


def eval_version_arms(func, var, samples):
    """For an if/elif chain on `var` return {sample: index of first true arm or None}; chain = first If mentioning var."""
    chains = [st for st in walk_body_shallow(func.body) if isinstance(st, ast.If) and var in norm(st.test)]
    res = {}
    if not chains:
        return None, res
    st = chains[0]
    arms = []
    cur = st
    while True:
        arms.append((cur.test, cur.body))
        if len(cur.orelse) == 1 and isinstance(cur.orelse[0], ast.If):
            cur = cur.orelse[0]
            continue
        arms.append((None, cur.orelse))
        break
    for s in samples:
        res[s] = None
        for i, (t, b) in enumerate(arms):
            ok = True if t is None else bool(eval(compile(ast.Expression(t), "<v>", "eval"), {"__builtins__": {}}, {var: s}))
            if ok:
                res[s] = i
                break
    return arms, res


def run(ctx):
    prog = ctx.prog
    kc = prog.cls(KCQ)
    keys = codec_consts(prog)

    # ---- R1 request shapes
    r = ctx.rule("R1", "each request encoder's grammar (types, order, bindings, API key, header version) equals the schema", 14, "F")
    endians = set()
    for name, (api, ver, body) in sorted(KS.REQUESTS.items()):
        f = ctx.func("%s.%s" % (KCQ, name))
        terms, env = W.encoder_terms(prog, f)
        endians |= env.endians
        terms = W.collapse_alts(terms)
        hdr, rest = terms[:4], terms[4:]
        problem = diff_terms(hdr, KS.HEADER, "header", check_bind=False)
        if not problem:
            kb = hdr[0][2]
            kval = keys.get(kb.split(".")[-1]) if not kb.lstrip("-").isdigit() else int(kb)
            if name == "encode_api_versions_request":
                # the key comes from the request struct built by the client
                site = [c for c in calls_in(ctx.func("client:KafkaClient.fetch_api_versions"), "ApiVersionRequest")]
                kval = keys.get(norm(site[0].args[0]).split(".")[-1]) if site else None
            if kval != KS.API_KEYS[api]:
                problem = "header: api key is %r (%s), schema says %d for %s" % (kval, kb, KS.API_KEYS[api], api)
            vb = hdr[1][2]
            if not problem:
                if ver == "negotiated":
                    # derived from the negotiated version (R6 evaluates which value it takes); a literal is not
                    if vb.lstrip("-").isdigit() or not (vb.isidentifier() or "api_version" in vb):
                        problem = "header: api version `%s` is not the negotiated version" % vb
                elif vb != str(ver):
                    problem = "header: api version is `%s`, body layout is version %d" % (vb, ver)
            if not problem and (hdr[2][2] != "correlation_id" or hdr[3][1] != "client_id"):
                problem = "header: correlation id / client id bound to %s / %s" % (hdr[2][2], hdr[3][1])
        if not problem:
            problem = diff_terms(rest, body)
        r.check(not problem, "%s.%s#grammar" % (KCQ, name), "%s request: %s" % (api, problem), where(f, f.node),
                "brokers (or an independent parser) read different values than the caller supplied / reject the request",
                facts=["%d leaves" % len(W.leaves(terms))])
    for name, body in sorted(KS.BLOB_ENCODERS.items()):
        f = ctx.func("%s.%s" % (KCQ, name))
        terms, env = W.encoder_terms(prog, f)
        endians |= env.endians
        problem = diff_terms(W.collapse_alts(terms), body)
        r.check(not problem, "%s.%s#grammar" % (KCQ, name), "consumer-protocol blob: %s" % problem, where(f, f.node))

    # ---- R2 primitives
    r = ctx.rule("R2", "primitive writers: null -> -1 prefix, else length prefix + bytes; short strings reject > 32767", 4, "F+E")
    util = prog.module("_util")
    null_short = util.constants.get("_NULL_SHORT_STRING")
    ok_null = null_short is not None and norm(null_short) in ("struct.pack('>h', -1)",)
    wsb = ctx.func("_util:write_short_bytes")
    cf = ctx.cfg(wsb)
    fa = ctx.facts(wsb)
    p = wsb.params[0]
    rets = [n for n in cf.nodes if n.kind == "stmt" and isinstance(n.stmt, ast.Return)]
    good = ok_null and len(rets) == 2
    for n in rets:
        v = norm(expand(prog, wsb, n.stmt.value))
        if v == "struct.pack('>h', -1)":
            good = good and holds_mod(prog, wsb, fa[n.id], "%s is None" % p, True)
        elif v == "struct.pack('>h', len(%s)) + %s" % (p, p):
            good = good and holds_mod(prog, wsb, fa[n.id], "%s is None" % p, False) and holds_mod(prog, wsb, fa[n.id], "len(%s) > 32767" % p, False)
        else:
            good = False
    r.check(good, "_util:write_short_bytes#arms", "short bytes writer does not map None to -1 and bytes to INT16 length + bytes with the 32767 limit",
            where(wsb, wsb.node), "null and empty confused, or a 40000-byte string wraps to a negative length")
    wis = ctx.func("_util:write_int_string")
    ci = ctx.cfg(wis)
    fi = ctx.facts(wis)
    p = wis.params[0]
    rets = [n for n in ci.nodes if n.kind == "stmt" and isinstance(n.stmt, ast.Return)]
    good = len(rets) == 2
    for n in rets:
        v = norm(expand(prog, wis, n.stmt.value))
        if v == "struct.pack('>i', -1)":
            good = good and holds_mod(prog, wis, fi[n.id], "%s is None" % p, True)
        elif v == "struct.pack('>i', len(%s)) + %s" % (p, p):
            good = good and holds_mod(prog, wis, fi[n.id], "%s is None" % p, False)
        else:
            good = False
    r.check(good, "_util:write_int_string#arms", "bytes writer does not map None to -1 and bytes to INT32 length + bytes", where(wis, wis.node))
    for nm, enc in (("write_short_ascii", "ascii"), ("write_short_text", "utf-8")):
        f = ctx.func("_util:" + nm)
        c = ctx.cfg(f)
        fx = ctx.facts(f)
        p = f.params[0]
        rets = [n for n in c.nodes if n.kind == "stmt" and isinstance(n.stmt, ast.Return)]
        good = len(rets) == 2
        for n in rets:
            v = norm(expand(prog, f, n.stmt.value))
            if v == "struct.pack('>h', -1)":
                good = good and holds_mod(prog, f, fx[n.id], "%s is None" % p, True)
            elif v == "write_short_bytes(%s.encode('%s'))" % (p, enc):
                good = good and holds_mod(prog, f, fx[n.id], "%s is None" % p, False)
            else:
                good = False
        r.check(good, "_util:%s#arms" % nm, "text writer does not map None to null and text to %s bytes" % enc, where(f, f.node))

    gb = ctx.func("_util:group_by_topic_and_partition")
    p0 = gb.params[0]
    loops_ = [x for x in gb.body if isinstance(x, ast.For) and norm(x.iter) == p0 and isinstance(x.target, ast.Name) and not x.orelse]
    okg = len(loops_) == 1
    if okg:
        tv = loops_[0].target.id
        stores = [st for st in loops_[0].body if isinstance(st, ast.Assign) and len(st.targets) == 1 and isinstance(st.targets[0], ast.Subscript)]
        okg = len(stores) == 1 and len(loops_[0].body) == 1
        if okg:
            t_ = stores[0].targets[0]
            inner = t_.value
            key_ok = norm(t_.slice) == "%s.partition" % tv and norm(stores[0].value) == tv
            if isinstance(inner, ast.Subscript):  # out[t.topic][t.partition] = t  with out a defaultdict(dict)
                acc_ = inner.value
                dd = [x for x in gb.body if isinstance(x, ast.Assign) and norm(x.targets[0]) == norm(acc_) and isinstance(x.value, ast.Call) and
                      norm(x.value.func).endswith("defaultdict") and x.value.args and norm(x.value.args[0]) == "dict"]
                okg = key_ok and norm(inner.slice) == "%s.topic" % tv and len(dd) == 1
            elif isinstance(inner, ast.Call) and call_name(inner) == "setdefault":  # out.setdefault(t.topic, {})[t.partition] = t
                okg = key_ok and len(inner.args) == 2 and norm(inner.args[0]) == "%s.topic" % tv and isinstance(inner.args[1], ast.Dict) and not inner.args[1].keys
                acc_ = inner.func.value
            else:
                okg = False
            rets_ = [x for x in gb.body if isinstance(x, ast.Return)]
            okg = okg and len(rets_) == 1 and norm(rets_[0].value) == norm(acc_)
    r.check(okg, "_util:group_by_topic_and_partition#total", "the grouping primitive does not store every payload under its own topic and partition "
            "(one pass over the list, result[topic][partition] = payload)", where(gb, gb.node),
            "a topic that re-appears non-adjacently in the payload list (t1/p0, t2/p0, t1/p1) loses its earlier partitions: they are in no request")

    # ---- R3 message and message-set
    r = ctx.rule("R3", "message formats 0 and 1 and the message-set entry layout equal the schema", 4, "F")
    em = ctx.func(KCQ + "._encode_message")
    terms, env = W.encoder_terms(prog, em)
    endians |= env.endians
    arms = {}
    raw_arms = {}
    for t in W.hoist_alt(terms, "magic"):
        if t[0] == "ALT":
            for c, b in t[1]:
                for mag in (0, 1):
                    if c.replace(" ", "") == "message.magic==%d" % mag:
                        arms[mag] = W.collapse_alts(b)
                        raw_arms[mag] = b
    for mag in (0, 1):
        got = arms.get(mag)
        problem = "no arm for magic %d" % mag if got is None else diff_terms(got, KS.MESSAGE[mag], check_bind=False)
        if not problem:
            binds = [(g[2] if g[0] == "P" else g[1]) for g in got]
            want = [None, "message.magic", "message.attributes"] + (["message.timestamp"] if mag == 1 else []) + ["message.key", "message.value"]
            for b, w in zip(binds, want):
                # a bare local (the computed crc, the clock value substituted for a missing timestamp) is not compared
                if w is not None and b != w and w != "message.timestamp":  # the timestamp leaf is examined below
                    problem = "fields bound to %s, expected %s" % (binds, want)
        if not problem and mag == 1:
            # the caller's timestamp is written whenever it is not None (0 is a legal timestamp): the clock may
            # substitute only under the condition `message.timestamp is None`
            ts_leaves = []

            def collect(ts, cond):
                for t in ts:
                    if t[0] == "P" and t[1] == "INT64":
                        ts_leaves.append((cond, t[2]))
                    elif t[0] == "ALT":
                        for c2, b2 in t[1]:
                            collect(b2, c2)
            collect(raw_arms.get(1, []), None)
            direct = [c for c, b in ts_leaves if b == "message.timestamp"]
            others = [(c, b) for c, b in ts_leaves if b != "message.timestamp"]
            if not direct or any(c != "message.timestamp is None" for c, b in others):
                problem = "timestamp leaf is bound to %s; the supplied timestamp must be written unless it `is None`" % ts_leaves
        r.check(not problem, "%s#format-%d" % (em.qname, mag), "message format %d: %s" % (mag, problem), where(em, em.node),
                "brokers reject the message (CRC/size mismatch) or store a different key/value")
    ems = ctx.func(KCQ + "._encode_message_set")
    # the set encoder's own grammar: one uncounted loop over the caller's list; each entry is INT64 offset, INT32
    # len(<encoded>), then exactly what _encode_message writes for that element (bindings `<each messages>.field`:
    # the caller's message as given, not a re-stamped copy)
    mterms, menv = W.encoder_terms(prog, ems)
    endians |= menv.endians
    want_msg, _e3 = W.encoder_terms(prog, em, {em.params[1]: "<each %s>" % ems.params[1]})
    ok = len(mterms) == 1 and mterms[0][0] == "LOOP" and mterms[0][1] == ems.params[1]
    if ok:
        body = mterms[0][2]

        def is_i64(t):
            return (t[0] == "P" and t[1] == "INT64") or (t[0] == "ALT" and all(len(b) == 1 and b[0][0] == "P" and b[0][1] == "INT64" for c, b in t[1]))
        ok = len(body) >= 3 and is_i64(body[0]) and body[1][0] == "P" and body[1][1] == "INT32" and str(body[1][2]).startswith("len(")
        if ok:
            rest = body[2:]

            def arms_equal(ts):
                """every non-empty alternative (a dispatch on the set-level magic) is the message grammar itself"""
                if ts == want_msg:
                    return True
                if len(ts) == 1 and ts[0][0] == "ALT":
                    live = [b for c, b in ts[0][1] if b]
                    return bool(live) and all(arms_equal(b) for b in live)
                return False
            ok = arms_equal(rest)
    r.check(ok, "%s#entry-layout" % ems.qname, "message-set entries are not (INT64 offset, INT32 size, the caller's message as given) in list order",
            where(ems, ems.node), "messages are re-stamped with another format inside the set: inner messages of a compressed wrapper "
            "lose their timestamp / disagree with the wrapper's format")
    kinit = ctx.func("client:KafkaClient.__init__")
    ck = ctx.cfg(kinit)
    sets = [n for n in ck.nodes if n.kind == "stmt" and isinstance(n.stmt, ast.Assign) and any(self_attr(t) in ("clientId", "_clientIdBytes") for t in n.stmt.targets)]
    okc = bool(sets)
    for n in sets:
        deps = [norm(t.stmt.test) for t, lab in ck.control_deps(n.id) if t.kind == "test"]
        okc = okc and deps == ["clientId is not None"]
    r.check(okc, "%s#client-id-null-vs-empty" % kinit.qname, "a supplied client id is not used exactly when it `is not None` (an empty id is a "
            "legal, distinct value)", where(kinit, kinit.node), "client constructed with clientId='' sends the library default id in every header")

    # ---- R4 codec pairing
    # a message carries the key and value it was given: null stays null, empty stays empty (`x or None` loses the difference)
    cmf = ctx.func("kafkacodec:create_message")
    ccm_ = ctx.cfg(cmf)
    okv, whyv = True, ""
    n_ctor = 0
    for n_ in ccm_.nodes:
        for c_ in n_.calls():
            if call_name(c_) == "Message" and len(c_.args) >= 4:
                n_ctor += 1
                for idx_, pname in ((2, cmf.params[1]), (3, cmf.params[0])):
                    og_ = value_origins(ccm_, n_.id, c_.args[idx_], params=cmf.params) if isinstance(c_.args[idx_], ast.Name) else [(n_.id, c_.args[idx_])]
                    if not og_ or not all(isinstance(e_, ast.Name) and e_.id == pname and d_ == ccm_.entry.id for d_, e_ in og_):
                        okv, whyv = False, "Message(...) argument %d is `%s`, not the `%s` parameter as given" % (idx_, norm((og_ or [(0, c_.args[idx_])])[0][1], 50), pname)
    r.check(okv and n_ctor >= 1, "kafkacodec:create_message#key-value-as-given", whyv or "no Message constructed", where(cmf, cmf.node),
            "an empty value goes out as a null (a tombstone on a compacted topic), an empty key as no key: the acknowledged request does not "
            "contain the messages that were sent")

    r = ctx.rule("R4", "attribute constant <-> compression function agree on the encoder side and mirror the decoder; wrapper format = message format", 4, "A")
    pairs = {"create_gzip_message": ("gzip_encode", "CODEC_GZIP"), "create_snappy_message": ("snappy_encode", "CODEC_SNAPPY")}
    for fn, (comp, const) in sorted(pairs.items()):
        f = ctx.func("kafkacodec:" + fn)
        cs = calls_in(f, comp)
        msgs = [c for c in calls_in(f, "Message")]
        ok = len(cs) == 1 and bool(msgs) and all(len(c.args) >= 4 and norm(c.args[1]) == const and norm(c.args[3]) in [
            unparse(t) for x in walk_body_shallow(f.body) if isinstance(x, ast.Assign) and x.value is cs[0] for t in x.targets] for c in msgs)
        inner = [c for c in calls_in(f, "_encode_message_set")]
        ok = ok and len(inner) == 1 and (cs[0].args[0] is inner[0] or norm(cs[0].args[0]) in [
            unparse(t) for x in walk_body_shallow(f.body) if isinstance(x, ast.Assign) and x.value is inner[0] for t in x.targets])
        r.check(ok, "kafkacodec:%s#pairing" % fn, "wrapper message does not carry attribute %s with the %s-compressed inner set" % (const, comp), where(f, f.node),
                "consumers decompress with the wrong codec")
    cms = ctx.func("kafkacodec:create_message_set")
    cc = ctx.cfg(cms)
    fc = ctx.facts(cms)
    ok = True
    for fn, (comp, const) in pairs.items():
        ns = [n for n in cc.nodes if any(call_name(c) == fn for c in n.calls())]
        ok = ok and len(ns) == 1 and ("codec == %s" % const, True) in fc[ns[0].id]
    r.check(ok, "kafkacodec:create_message_set#dispatch", "codec constant dispatches to the wrong wrapper constructor", where(cms, cms.node))
    # the wrapper is written in the format of the messages it wraps: the constructor is handed the set builder's `magic`
    # and stamps it on the wrapper message
    okw, whyw = True, ""
    mparam = "magic" if "magic" in cms.params else None
    for fn in pairs:
        for n in cc.nodes:
            for c in n.calls():
                if call_name(c) != fn:
                    continue
                a_ = kwarg(c, "magic", 1)
                og_ = value_origins(cc, n.id, a_, params=cms.params) if a_ is not None else None
                if mparam is None or not og_ or not all(isinstance(e_, ast.Name) and e_.id == mparam and d_ == cc.entry.id for d_, e_ in og_):
                    okw, whyw = False, "%s is not handed the builder's `magic` (got %s)" % (fn, norm(a_) if a_ is not None else "nothing: its default applies")
        wf = ctx.func("kafkacodec:" + fn)
        wp = [p_ for p_ in wf.params if p_ == "magic"]
        for c in calls_in(wf, "Message"):
            if not (wp and c.args and norm(at(ctx, wf, ctx.cfg(wf).containing(c)[0].id, c.args[0])) == wp[0]):
                okw, whyw = False, "%s stamps the wrapper message with `%s`, not with its `magic` argument" % (fn, norm(c.args[0]) if c.args else None)
    r.check(okw, "kafkacodec:create_message_set#wrapper-format", whyw, where(cms, cms.node),
            "format-1 messages inside a format-0 wrapper: an independent reader rejects the set (magic mismatch), relative offsets are misread")

    # ---- R5 order preservation in the set encoder
    r = ctx.rule("R5", "message-set encoder and builder keep list order (no set/sorted/reversed)", 2, "A")
    for f in (ems, cms):
        bad = [norm(c) for c in calls_in(f) if call_name(c) in ("sorted", "reversed", "set", "frozenset", "shuffle")]
        r.check(not bad, "%s#order" % f.qname, "order-destroying call on a message sequence: %s" % bad, where(f, f.node))

    # ---- R6 version dispatch agreement
    r = ctx.rule("R6", "negotiated version {0} / >=2: header version, body layout and reply layout agree and are implemented", 6, "E")
    samples = [0, 2, 3, 9]
    for name in ("encode_produce_request", "encode_fetch_request"):
        f = ctx.func("%s.%s" % (KCQ, name))
        # the version written into the header, evaluated concretely for each negotiated version along every path to the
        # header call (an if/else clamp, a conditional expression, min(...): whatever computes it)
        cfv = ctx.cfg(f)
        hv = [c for c in calls_in(f, "_encode_message_header")]
        need(bool(hv), "header call not found in %s" % name)
        hnode = cfv.containing(hv[0])[0]
        hexpr = kwarg(hv[0], "api_version", 3)
        vals = {}
        for s_ in samples:
            got = concrete_values(cfv, hnode.id, hexpr, {"api_version": s_}) if hexpr is not None else {None}
            vals[s_] = list(got)[0] if len(got) == 1 else None
        bound = hexpr is not None and norm(hexpr) != "api_version"
        r.check(bound and vals == {0: 0, 2: 2, 3: 2, 9: 2}, "%s.%s#header-version" % (KCQ, name),
                "header version for negotiated {0,2,3,9} is %s; must be 0 for 0 and 2 for >= 2" % vals, where(f, f.node),
                "broker advertising max version 9: request carries version 9 with a version-2 body", facts=["%s" % vals])
    dp = ctx.func(KCQ + ".decode_produce_response")
    # the layout a reply of negotiated version s is parsed with: the nested decoder (and the constants) the dispatch on
    # the version selects for s, compared with the schema of version 0 / version 2
    from .c05 import resolve_decoder
    from ..model import ShapeError as _SE
    layout = {}
    for s in samples:
        try:
            g_, consts_ = resolve_decoder(ctx, "decode_produce_response.v%d" % s)
            terms_, _e = W.decoder_terms(prog, g_, consts_)
            terms_ = [t for t in terms_ if not (t[0] == "ALT" and not any(b for c, b in t[1]))]
            layout[s] = [v for v in ("v0", "v2") if not diff_terms(terms_, KS.RESPONSES["decode_produce_response." + v], check_bind=False)]
            layout[s] = layout[s][0] if layout[s] else None
        except _SE:
            layout[s] = None
    r.check(layout == {0: "v0", 2: "v2", 3: "v2", 9: "v2"}, "%s#reply-layout" % dp.qname, "produce reply layout chosen: %s" % layout, where(dp, dp.node),
            "v2 reply parsed with the v0 layout: offsets and error codes shifted")
    r.info("produce decoder uses the v2 layout for negotiated version 1 (unreachable: minimum 0, maximum >= 2)")
    df = ctx.func(KCQ + ".decode_fetch_response")
    arms, res = eval_version_arms(df, "api_version", samples)
    lay = {}
    for s in samples:
        b = arms[res[s]][1] if arms and res[s] is not None else []
        fm = [norm(c.args[0]) for st in b for c in ast.walk(st) if isinstance(c, ast.Call) and call_name(c) == "relative_unpack"]
        lay[s] = fm[0] if fm else None
    r.check(lay == {0: "'>ii'", 2: "'>iii'", 3: "'>iii'", 9: "'>iii'"}, "%s#reply-layout" % df.qname, "fetch reply header layout chosen: %s" % lay,
            where(df, df.node), "throttle time read as topic count")
    for nm, keyc in (("send_produce_request", "PRODUCE_KEY"), ("send_fetch_request", "FETCH_KEY")):
        f = ctx.func("client:KafkaClient." + nm)
        gv = [x for x in walk_body_shallow(f.body) if isinstance(x, ast.Assign) and isinstance(x.value, ast.Yield) and isinstance(
            x.value.value, ast.Call) and call_name(x.value.value) == "get_api_version"]
        ok = len(gv) == 1 and norm(gv[0].value.value.args[0]).endswith(keyc)
        if ok:
            v = unparse(gv[0].targets[0])
            parts = [c for c in calls_in(f, "partial")]
            ok = len(parts) == 2 and all(norm(kwarg(c, "api_version")) == v for c in parts) and \
                {norm(c.args[0]).split(".")[-1].split("_")[0] for c in parts} == {"encode", "decode"}
        r.check(ok, "client:KafkaClient.%s#same-version-both-ways" % nm, "encoder and decoder are not given the same negotiated version of the right API",
                where(f, f.node), "request sent as v2, reply decoded as v0")
    gav = ctx.func("client:KafkaClient.get_api_version")
    cg = ctx.cfg(gav)
    fg = ctx.facts(gav, kill_on_suspend=False)
    # the "no table" state: the one falsy constant (other than None, which means "not discovered yet") ever stored
    kc_funcs = [x for x in prog.funcs.values() if x.module.name == "client"]
    const_stores = []
    for f_ in kc_funcs:
        for x in walk_body_shallow(f_.body):
            if isinstance(x, ast.Assign) and any(self_attr(t) == "_api_versions" for t in x.targets):
                for leaf_ in ([x.value.body, x.value.orelse] if isinstance(x.value, ast.IfExp) else [x.value]):
                    try:
                        const_stores.append((f_, x, ast.literal_eval(leaf_)))
                    except (ValueError, TypeError, SyntaxError):
                        # a named module-level constant (`_API_VERSIONS_LEGACY = 0`)
                        if isinstance(leaf_, ast.Name) and leaf_.id in f_.module.constants and isinstance(f_.module.constants[leaf_.id], ast.Constant):
                            const_stores.append((f_, x, f_.module.constants[leaf_.id].value))
    fallbacks = [v for _, _, v in const_stores if v is not None]
    need(fallbacks, "no constant fallback state stored in _api_versions")
    S = fallbacks[0]
    S_txt = repr(S)
    ok = all(type(v) is type(S) and v == S for v in fallbacks) and not S and not isinstance(S, bool)
    cmp_bad = []
    for f_ in sorted(prog.funcs.values(), key=lambda f: f.qname):
        for x in walk_body_shallow(f_.body):
            if isinstance(x, ast.Compare) and len(x.ops) == 1 and any(isinstance(y, ast.Attribute) and y.attr == "_api_versions" for y in (x.left, x.comparators[0])):
                other = x.comparators[0] if isinstance(x.left, ast.Attribute) and x.left.attr == "_api_versions" else x.left
                try:
                    c = ast.literal_eval(other)
                except (ValueError, TypeError, SyntaxError):
                    continue
                if c is not None and not (type(c) is type(S) and c == S):
                    cmp_bad.append("%s: `%s`" % (f_.qname, norm(x)))
    r.check(ok and not cmp_bad, "client:KafkaClient#one-fallback-state", "the fallback state of _api_versions is not one falsy constant used by every "
            "store and comparison: stores %s, comparisons with another constant %s" % (sorted(set(map(repr, fallbacks))), cmp_bad),
            where(gav, gav.node), "a reader comparing with the old constant takes the fallback state for a discovered table: format-1 messages in a v0 request")
    # the negotiated state is settled once: a message set is built for the version known when the batch is made and may
    # be re-sent (retry) later - a table forgotten in between sends format-1 messages under whatever a failed
    # re-discovery falls back to
    all_stores = []
    for f_ in sorted(prog.funcs.values(), key=lambda f: f.qname):
        for x in walk_body_shallow(f_.body):
            tg_ = x.targets if isinstance(x, ast.Assign) else ([x.target] if isinstance(x, (ast.AugAssign, ast.AnnAssign)) else [])
            for t in tg_:
                for tt in (t.elts if isinstance(t, ast.Tuple) else [t]):
                    if isinstance(tt, ast.Attribute) and tt.attr == "_api_versions":
                        all_stores.append((f_, x))
    outside = ["%s:%d" % (f_.qname, x.lineno) for f_, x in all_stores if f_.name not in ("__init__", "_handle_api_version_update", "fetch_api_versions")]
    forgets = ["%s:%d" % (f_.qname, x.lineno) for f_, x in all_stores if f_.name != "__init__" and isinstance(x, ast.Assign) and any(
        isinstance(l_, ast.Constant) and l_.value is None for l_ in ([x.value.body, x.value.orelse] if isinstance(x.value, ast.IfExp) else [x.value]))]
    r.check(not outside and not forgets, "client:KafkaClient#negotiated-state-settled-once", "the negotiated version state is written outside the "
            "discovery functions (%s) or reset to `not discovered` after construction (%s)" % (outside, forgets), where(gav, gav.node),
            "a format-1 batch built under the discovered table is retried after the table was forgotten and re-discovery failed: "
            "format-1 messages under a version-0 header")
    # ... and the fall-back is stored only over the undiscovered state: discoveries overlap (a fetch and a produce started
    # together), and the one that failed must not replace what the other one found.  Decided with the facts that survive
    # a suspension point (anything may have run while the coroutine waited)
    fav = ctx.func("client:KafkaClient.fetch_api_versions")
    cfv = ctx.cfg(fav)
    ffv = ctx.facts(fav)
    hau_ = ctx.func("client:KafkaClient._handle_api_version_update")
    fb_sites = []
    for n in cfv.nodes:
        for c in n.calls():
            if prog.resolve_call(fav, c) is hau_ and c.args:
                a0 = c.args[0]
                ogs_ = value_origins(cfv, n.id, a0, params=fav.params) if isinstance(a0, ast.Name) else [(n.id, a0)]
                if ogs_ and any(isinstance(e_, ast.Call) and call_name(e_) == "ApiVersionResponse" and e_.args and isinstance(const_value(prog, fav, e_.args[0]), int)
                                and const_value(prog, fav, e_.args[0]) != 0 for _d, e_ in ogs_):
                    fb_sites.append(n)
        if n.kind == "stmt" and isinstance(n.stmt, ast.Assign) and any(self_attr(t) == "_api_versions" for t in n.stmt.targets):
            try:
                if ast.literal_eval(n.stmt.value) is not None:
                    fb_sites.append(n)
            except (ValueError, TypeError, SyntaxError):
                pass
    okf = bool(fb_sites) and all(("self._api_versions is None", True) in ffv[n.id] or ("self._api_versions is not None", False) in ffv[n.id] for n in fb_sites)
    r.check(okf, "%s#fallback-only-while-undiscovered" % fav.qname, "the fall-back state is stored without `_api_versions is None` having been "
            "established since the last suspension", where(fav, fb_sites[0].stmt if fb_sites else fav.node),
            "two discoveries overlap; one is answered, the other times out: the one that failed stores version 0 over the discovered table")
    rets = [n for n in cg.nodes if n.kind == "stmt" and isinstance(n.stmt, ast.Return)]

    def _is_fallback(facts_):
        return facts_imply(prog, gav, facts_, {"z": "self._api_versions == %s" % S_txt}, lambda env: env["z"]) or (
            ("self._api_versions", False) in facts_ and ("self._api_versions is None", False) in facts_) or (
            ("self._api_versions", False) in facts_)
    zero = [n for n in rets if const_value(prog, gav, n.stmt.value) == 0 and not isinstance(const_value(prog, gav, n.stmt.value), bool) and _is_fallback(fg[n.id])]
    disc = [n for n in cg.nodes if any(call_name(c) == "fetch_api_versions" for c in n.calls())]
    tests = [n for n in cg.nodes if n.kind == "test" and norm(at(ctx, gav, n.id, n.stmt.test)) in ("self._api_versions is None", "not self._api_versions is not None")]
    ok = len(zero) == 1 and len(rets) == 2 and bool(disc) and ("self._api_versions is None", True) in fg[disc[0].id] and bool(tests) and all(
        cg.dominates([tests[0].id], n.id) for n in rets) and disc[0].suspends
    r.check(ok, "%s#fallback-zero" % gav.qname, "version lookup does not discover first and fall back to 0 when discovery failed", where(gav, gav.node))
    hau = ctx.func("client:KafkaClient._handle_api_version_update")
    ch = ctx.cfg(hau)
    fh = ctx.facts(hau)
    sets = [n for n in ch.nodes if n.kind == "stmt" and isinstance(n.stmt, ast.Assign) and self_attr(n.stmt.targets[0]) == "_api_versions"]
    # one store per outcome - two statements, or one statement whose value is a conditional expression (its arms are judged
    # under the outcome of its test)
    from ..cfg import cond_facts as _cf6
    leaves6 = []
    for n in sets:
        v_ = n.stmt.value
        if isinstance(v_, ast.IfExp):
            leaves6.append((v_.body, set(fh[n.id]) | set(_cf6(frozenset(fh[n.id]), v_.test, True))))
            leaves6.append((v_.orelse, set(fh[n.id]) | set(_cf6(frozenset(fh[n.id]), v_.test, False))))
        else:
            leaves6.append((v_, set(fh[n.id])))
    ok = len(leaves6) == 2
    for v_, facts_ in leaves6:
        try:
            cv = ast.literal_eval(v_)
            is_c = True
        except (ValueError, TypeError, SyntaxError):
            cv, is_c = None, False
        if is_c:
            ok = ok and cv is not None and type(cv) is type(S) and cv == S and any(t.endswith(".error_code != 0") and pol for t, pol in facts_)
        else:
            ok = ok and any(t.endswith(".error_code != 0") and not pol for t, pol in facts_) and norm(v_).endswith(".api_versions")
    r.check(ok, "%s#table-or-zero" % hau.qname, "version table is not stored exactly on a successful discovery, the fallback state otherwise", where(hau, hau.node))

    # ---- R9 the correlation id a request travels under is the one its bytes were encoded with
    r = ctx.rule("R9", "every send site passes the correlation id with which the request bytes were encoded (no re-assignment in between)", 6, "A+B")
    for f in sorted([x for x in prog.funcs.values() if x.module.name == "client"], key=lambda x: x.qname):
        cf = ctx.cfg(f)
        for n in cf.nodes:
            for c in n.calls():
                nm = call_name(c)
                if nm == "_send_broker_unaware_request" and len(c.args) >= 2:
                    ida, rqa = c.args[0], c.args[1]
                elif nm == "_make_request_to_broker" and len(c.args) >= 3:
                    ida, rqa = c.args[1], c.args[2]
                else:
                    continue
                if not (isinstance(ida, ast.Name) and isinstance(rqa, ast.Name)) or (ida.id in f.params and rqa.id in f.params):
                    continue
                # where the bytes that are sent were encoded (through copies of the local)
                og_ = value_origins(cf, n.id, rqa, params=f.params) or []
                encs = [cf.nodes[dn_] for dn_, e_ in og_ if isinstance(e_, ast.Call) and cf.nodes[dn_].kind == "stmt" and isinstance(cf.nodes[dn_].stmt, ast.Assign)
                        and cf.nodes[dn_].stmt.value is e_]
                if len(encs) != len(og_):
                    encs = []
                idefs = [m for m in cf.nodes if m.kind == "stmt" and isinstance(m.stmt, ast.Assign) and any(
                    isinstance(t, ast.Name) and t.id == ida.id for t in m.stmt.targets)]
                ok = len(encs) == 1 and bool(idefs)
                why = "request bytes / id not defined by single assignments"
                if ok:
                    e = encs[0]
                    call = e.stmt.value
                    idarg = kwarg(call, "correlation_id", 1)
                    ok = idarg is not None and norm(idarg) == ida.id
                    why = "request is encoded with id `%s` but sent under `%s`" % (norm(idarg) if idarg is not None else None, ida.id)
                    if not ok and isinstance(idarg, ast.Name):
                        # two names for one value: the id sent and the id encoded come from the same single definition
                        # (`requestId = _tmp` where `_tmp = self._next_id()` fed the encoder)
                        o_sent = value_origins(cf, n.id, ida, params=f.params) or []
                        o_enc = value_origins(cf, e.id, idarg, params=f.params) or []
                        if len(o_sent) == 1 and len(o_enc) == 1 and o_sent[0][0] == o_enc[0][0] and o_sent[0][0] != cf.entry.id:
                            ok = True
                            idefs = []
                    if ok:
                        for d in idefs:
                            if d.id in cf.reach([e.id]) and n.id in cf.reach([d.id], avoid=[e.id]):
                                ok = False
                                why = "`%s` is re-assigned (line %d) after the request bytes were encoded and before the send" % (ida.id, d.lineno)
                        if idefs and not any(cf.dominates([d.id], e.id) for d in idefs):
                            ok = False
                            why = "id not assigned before the encode"
                r.check(ok, "%s#send(%s,%s)" % (f.qname, ida.id, rqa.id), why, where(f, c),
                        "retry after a failed attempt: the frame carries id N, the client awaits N+1; the broker's reply is "
                        "discarded as unknown and the request times out")

    # ---- R7 tri-state discipline
    r = ctx.rule("R7", "_api_versions (None/0/table) is read outside the discovery functions only where None is handled", 1, "B")
    discovery = {"fetch_api_versions", "get_api_version", "_handle_api_version_update", "__init__"}
    n_reads = 0
    for f in sorted(prog.funcs.values(), key=lambda f: f.qname):
        if f.module.name in ("common",):
            continue
        for x in walk_body_shallow(f.body):
            if isinstance(x, ast.Attribute) and x.attr == "_api_versions" and isinstance(x.ctx, ast.Load):
                top = f
                while top.parent is not None:
                    top = top.parent
                if top.cls is not None and top.cls.name == "KafkaClient" and top.name in discovery:
                    continue
                n_reads += 1
                cf = ctx.cfg(f)
                node = cf.containing(x)
                facts = ctx.facts(f)[node[0].id] if node else frozenset()
                chain = norm(x)
                handled = ("%s is None" % chain, False) in facts or any(
                    isinstance(y, ast.Compare) and x in list(ast.walk(y)) and any(isinstance(c, ast.Constant) and c.value is None for c in y.comparators)
                    for y in (node[0].walk() if node else []))
                if not handled and node and node[0].kind == "test":
                    # a test that sends the undiscovered state (None) down the same arm as the fallback state (0) is safe:
                    # format 0 / version 0 are valid whatever discovery decides later
                    handled = _tri_eval(node[0].stmt.test, x, None) is not None and _tri_eval(node[0].stmt.test, x, None) == _tri_eval(node[0].stmt.test, x, S)
                if not handled and node:
                    # ... the same for the test of a conditional expression (`1 if table else 0`)
                    for y in node[0].walk():
                        if isinstance(y, ast.IfExp) and any(z is x for z in ast.walk(y.test)):
                            v_none, v_fb = _tri_eval(y.test, x, None), _tri_eval(y.test, x, S)
                            handled = v_none is not None and v_none == v_fb
                r.check(handled, "%s#read(%s)" % (f.qname, chain),
                        "`%s` is read where it may still be None (undiscovered): `None != 0` selects message format 1 before "
                        "discovery; discovery may then fall back to version 0" % chain, where(f, x),
                        "first batch after start against a pre-0.10 broker: format-1 messages inside a Produce v0 request")
    if n_reads == 0:
        r.ok("afkak#no-reads-of-_api_versions-outside-discovery")

    # ---- R8 big-endian
    r = ctx.rule("R8", "every struct format in the codec modules is big-endian", 1, "F")
    bad = []
    n_fmt = 0
    for mname in ("kafkacodec", "_util", "codec"):
        m = prog.module(mname)
        for c in [x for x in ast.walk(m.tree) if isinstance(x, ast.Call)]:
            fn = norm(c.func)
            if fn.split(".")[-1] in ("pack", "unpack", "unpack_from", "iter_unpack", "calcsize", "Struct", "relative_unpack") and c.args:
                a = c.args[0]
                lit = a if isinstance(a, ast.Constant) else (a.left if isinstance(a, ast.BinOp) and isinstance(a.left, ast.Constant) else None)
                if lit is not None and isinstance(lit.value, str):
                    n_fmt += 1
                    if lit.value[:1] not in (">", "!"):
                        bad.append("%s:%d %r" % (mname, c.lineno, lit.value))
    r.check(not bad and n_fmt >= 40, "afkak#struct-formats", "native/little-endian struct formats: %s" % bad, facts=["formats=%d" % n_fmt],
            witness="integers byte-swapped on little-endian hosts")


MUTANTS = [
    {"id": "failed-discovery-overwrites-a-successful-one", "file": "client.py",
     "old": "            if self._api_versions is None:\n                # Nobody else found out meanwhile either\n                self._handle_api_version_update(err)\n",
     "new": "            self._handle_api_version_update(err)\n", "expect": "C04.R6", "note": "finding F49"},
    {"id": "fallback-guard-taken-before-the-wait", "file": "client.py",
     "edits": [("client.py", "        while self._api_versions is None and api_version_failures < 3:\n", "        undiscovered = self._api_versions is None\n        while self._api_versions is None and api_version_failures < 3:\n"),
               ("client.py", "            if self._api_versions is None:\n                # Nobody else found out meanwhile either\n", "            if undiscovered:\n                # Nobody else found out meanwhile either\n")],
     "expect": "C04.R6", "note": "finding F49: the test result is from before the suspension"},
    {"id": "api-versions-stray-int", "file": "kafkacodec.py",
     "old": "        return cls._encode_message_header(client_id, correlation_id, api_version_request.api_key)\n",
     "new": "        return cls._encode_message_header(client_id, correlation_id, api_version_request.api_key) + struct.pack(\n            \">i\", api_version_request.api_version\n        )\n",
     "expect": "C04.R1"},
    {"id": "fetch-fields-swapped", "file": "kafkacodec.py", "old": "message += struct.pack(\">iqi\", partition, payload.offset, payload.max_bytes)",
     "new": "message += struct.pack(\">iiq\", partition, payload.max_bytes, payload.offset)", "expect": "C04.R1"},
    {"id": "commit-wrong-version", "file": "kafkacodec.py", "old": "            KafkaCodec.OFFSET_COMMIT_KEY,\n            api_version=1,",
     "new": "            KafkaCodec.OFFSET_COMMIT_KEY,\n            api_version=2,", "expect": "C04.R1"},
    {"id": "count-of-other-collection", "file": "kafkacodec.py", "old": "            message += struct.pack(\">i\", len(topic_payloads))\n\n            for partition, payload in topic_payloads.items():\n                message += struct.pack(\">iqq\"",
     "new": "            message += struct.pack(\">i\", len(grouped_payloads))\n\n            for partition, payload in topic_payloads.items():\n                message += struct.pack(\">iqq\"", "expect": "C04.R1"},
    {"id": "heartbeat-member-group-swapped", "file": "kafkacodec.py",
     "old": "        message += write_short_text(payload.group)\n        message += struct.pack(\">i\", payload.generation_id)\n        message += write_short_text(payload.member_id)\n        return message\n\n    @classmethod\n    def decode_heartbeat_response",
     "new": "        message += write_short_text(payload.member_id)\n        message += struct.pack(\">i\", payload.generation_id)\n        message += write_short_text(payload.group)\n        return message\n\n    @classmethod\n    def decode_heartbeat_response", "expect": "C04.R1"},
    {"id": "wrong-api-key", "file": "kafkacodec.py", "old": "message = cls._encode_message_header(client_id, correlation_id, KafkaCodec.LEAVE_GROUP_KEY, api_version=0)",
     "new": "message = cls._encode_message_header(client_id, correlation_id, KafkaCodec.HEARTBEAT_KEY, api_version=0)", "expect": "C04.R1"},
    {"id": "metadata-int16-count", "file": "kafkacodec.py", "old": "            struct.pack(\">i\", len(topics)),", "new": "            struct.pack(\">h\", len(topics)),", "expect": "C04.R1"},
    {"id": "null-as-empty", "file": "_util.py", "old": "def write_int_string(s):\n    if s is None:\n        return struct.pack(\">i\", -1)",
     "new": "def write_int_string(s):\n    if s is None:\n        return struct.pack(\">i\", 0)", "expect": "C04.R2"},
    {"id": "short-limit-dropped", "file": "_util.py", "old": "    elif len(b) > 32767:\n        raise struct.error(len(b))\n    else:", "new": "    else:", "expect": "C04.R2"},
    {"id": "v1-key-value-swapped", "file": "kafkacodec.py",
     "old": "                msg = struct.pack('>BBq', message.magic, message.attributes, message.timestamp)\n            msg += write_int_string(message.key)\n            msg += write_int_string(message.value)",
     "new": "                msg = struct.pack('>BBq', message.magic, message.attributes, message.timestamp)\n            msg += write_int_string(message.value)\n            msg += write_int_string(message.key)", "expect": "C04.R3"},
    {"id": "timestamp-truthiness", "file": "kafkacodec.py",
     "old": "            if message.timestamp is None:\n                ts = int(time.time() * 1000)\n                msg = struct.pack('>BBq', message.magic, message.attributes, ts)\n            else:\n                msg = struct.pack('>BBq', message.magic, message.attributes, message.timestamp)",
     "new": "            ts = message.timestamp or int(time.time() * 1000)\n            msg = struct.pack('>BBq', message.magic, message.attributes, ts)", "expect": "C04.R3", "note": "seeded C04-1"},
    {"id": "retry-new-id-old-bytes", "file": "client.py",
     "old": "                log.warning(\"Timed out trying to get API versions from %r\", self)\n                api_version_failures += 1",
     "new": "                log.warning(\"Timed out trying to get API versions from %r\", self)\n                requestId = self._next_id()\n                api_version_failures += 1",
     "expect": "C04.R9", "note": "seeded C04-2"},
    {"id": "commit-group-ascii-only", "file": "kafkacodec.py",
     "old": "        message += write_short_text(group)\n        message += struct.pack(\">i\", group_generation_id)",
     "new": "        message += write_short_ascii(group)\n        message += struct.pack(\">i\", group_generation_id)", "expect": "C04.R1", "note": "finding F14"},
    {"id": "set-restamps-magic", "file": "kafkacodec.py",
     "old": "            if magic == 0:\n                encoded_message = KafkaCodec._encode_message(message)\n            elif magic == 1:\n                encoded_message = KafkaCodec._encode_message(message)",
     "new": "            if message.magic != magic:\n                message = attr.evolve(message, magic=magic)\n            encoded_message = KafkaCodec._encode_message(message)",
     "expect": "C04.R3", "note": "seeded C04-3"},
    {"id": "empty-client-id-replaced", "file": "client.py", "old": "        if clientId is not None:\n            self.clientId = clientId",
     "new": "        if clientId:\n            self.clientId = clientId", "expect": "C04.R3", "note": "seeded C04-4"},
    {"id": "gzip-marked-snappy", "file": "kafkacodec.py", "old": "        return Message(magic, CODEC_GZIP, None, gzipped)", "new": "        return Message(magic, CODEC_SNAPPY, None, gzipped)", "expect": "C04.R4"},
    {"id": "version-not-clamped", "file": "kafkacodec.py", "old": "        if api_version >= 2:\n            req_api_version = 2\n            magic = 1",
     "new": "        if api_version >= 2:\n            req_api_version = api_version\n            magic = 1", "expect": "C04.R6"},
    {"id": "produce-reply-v0-for-v2", "file": "kafkacodec.py", "old": "        if api_version == 0:\n            return v0(data)\n        elif api_version >= 1:",
     "new": "        if api_version <= 2:\n            return v0(data)\n        elif api_version >= 1:", "expect": "C04.R6"},
    {"id": "decoder-other-version", "file": "client.py", "old": "decoder = partial(KafkaCodec.decode_fetch_response, api_version=api_ver)",
     "new": "decoder = partial(KafkaCodec.decode_fetch_response, api_version=0)", "expect": "C04.R6"},
    {"id": "fallback-state-two-constants", "file": "client.py",
     "old": "            log.info(\"Unable to set API versions for %r, using fallback of 0\", self)\n            self._api_versions = 0",
     "new": "            log.info(\"Unable to set API versions for %r, using fallback of 0\", self)\n            self._api_versions = []",
     "expect": "C04.R6", "note": "seeded C04-5 as it was before F5a: the readers still compare with 0"},
    {"id": "little-endian", "file": "kafkacodec.py", "old": "message += struct.pack(\">hii\", acks, timeout, len(grouped_payloads))",
     "new": "message += struct.pack(\"<hii\", acks, timeout, len(grouped_payloads))", "expect": "C04.R8"},
]
TWINS = [
    {"id": "fallback-guard-negated", "file": "client.py",
     "old": "            if self._api_versions is None:\n                # Nobody else found out meanwhile either\n                self._handle_api_version_update(err)\n            return err\n",
     "new": "            if self._api_versions is not None:\n                return err\n            self._handle_api_version_update(err)\n            return err\n",
     "note": "early return instead of a guarded store"},
    {"id": "fallback-state-empty-list", "note": "seeded C04-5, harmless since F5a made the producer test truthiness",
     "edits": [("client.py", "self._api_versions = None if enable_protocol_version_discovery else 0", "self._api_versions = None if enable_protocol_version_discovery else []"),
               ("client.py", "        if self._api_versions == 0:\n            return 0", "        if not self._api_versions:\n            return 0"),
               ("client.py", "using fallback of 0\", self)\n            self._api_versions = 0", "using fallback of 0\", self)\n            self._api_versions = []")]},
    {"id": "format-split", "file": "kafkacodec.py", "old": "message += struct.pack(\">hii\", acks, timeout, len(grouped_payloads))",
     "new": "message += struct.pack(\">h\", acks)\n        message += struct.pack(\">ii\", timeout, len(grouped_payloads))"},
    {"id": "locals-renamed", "file": "kafkacodec.py",
     "old": "            for partition, payload in topic_payloads.items():\n                message += struct.pack(\">iqi\", partition, payload.offset, payload.max_bytes)",
     "new": "            for part_id, fr in topic_payloads.items():\n                message += struct.pack(\">iqi\", part_id, fr.offset, fr.max_bytes)"},
    {"id": "join-via-list", "file": "kafkacodec.py",
     "old": "        message = cls._encode_message_header(client_id, correlation_id, KafkaCodec.LEAVE_GROUP_KEY, api_version=0)\n\n        message += write_short_text(payload.group)\n        message += write_short_text(payload.member_id)\n        return message",
     "new": "        parts = [cls._encode_message_header(client_id, correlation_id, KafkaCodec.LEAVE_GROUP_KEY, api_version=0)]\n        parts.append(write_short_text(payload.group))\n        parts.append(write_short_text(payload.member_id))\n        return b\"\".join(parts)"},
]

"""C02 - consumer delivers every message once, in offset order, never concurrently.

Decided (structural necessary conditions): single invoker of the processor,
a suspension on the processor's Deferred between two invocations, single block
and single fetch in flight (typestate on the handle attributes), the parked
reply arm, the offset discipline of the extraction loop, the delivered fields,
and the offset rule of compressed wrappers per message format.
Not decided: gap/duplicate freedom of whole delivery histories.
"""
import ast

from ..cfg import known_falsy
from ..model import self_attr, unparse, walk_body_shallow, walk_shallow
from .util import *  # noqa: F401,F403
from .util import (single_defs, expand, at, chains_in, value_origins, call_name, call_recv, calls_in, kwarg, names_in, need, node_assign_value, node_writes_attr, norm,
                   one, registrations, where)

TECHNIQUE = "single-flight typestate via must-hold guard facts, CFG cycle check for suspension, offset def-use, wrapper-offset data dependence"
EXPLANATION = (
    "Static rules over afkak/consumer.py and afkak/kafkacodec.py: who invokes the processor, CFG cycle check "
    "for a suspension between invocations, must-hold guard facts for the single-block / single-fetch handles, "
    "shape of the parked-reply arm, def-use of _fetch_offset in the extraction loop, argument binding of "
    "SourcedMessage, and data dependence of offsets yielded from compressed wrappers. Each rule is a necessary "
    "condition of the delivery property; whole-history gap freedom is not decided."
)
SHARED = [('C13', ['R4'], 'the only restart is stop() then start(): start() on a consumer that was not stopped is refused (an in-flight reply would be taken for the new position)'),
          ('C13', ['R1', 'R5'], 'stop() cancels the pending processor invocation (a restart cannot overlap it) and the shutdown flag never leaks into the next run (whose first reply would be dropped)'), ('C03', ['R5', 'R6'], 'a committed offset - 0 included - is the position after which the consumer resumes'), ('C13', ['R9'], 'the processor is never invoked from a continuation that runs because stop() cancelled a Deferred (previous result still pending)'), ('C05', ['R4'], 'compressed wrappers are decoded completely and by the right codec'), ('C12', ['R3', 'R7'], 'a partial trailing message is never skipped: too-small signal, buffer grows, same offset refetched'), ('C14', ['R4', 'R5', 'R7'], 'the offset-reset policy is the only discontinuity; buffer growth refetches the same offset'), ('C03', ['R2'], 'a cancelled block is not followed by another invocation: stop() must not feed the next block')]
ASSUMPTIONS = [
    "Twisted: a failed/pending Deferred yielded in an inlineCallbacks generator suspends the generator",
    "KafkaClient.send_* return Deferreds; the broker's log order is ground truth (not modelled)",
]

CONS = "consumer:Consumer"
SENDERS = ("send_fetch_request", "send_offset_request", "send_offset_fetch_request")


def _feeder(ctx):
    """The single function in which self.processor reaches a call position."""
    prog = ctx.prog
    ci = prog.cls(CONS)
    users = {}
    for f, kind, node in prog.attr_accesses(ci, "processor", include_subclasses=False):
        if kind == "read" and f.cls is ci:
            users.setdefault(f.qname, []).append((f, node))
    return ci, users


def run(ctx):
    prog = ctx.prog
    ci, users = _feeder(ctx)

    # ---- R1 single invoker
    r = ctx.rule("R1", "processor is invoked from exactly one function (block feeder)", 1, "A")
    inv = []
    for q, lst in users.items():
        for f, node in lst:
            for n in walk_body_shallow(f.body):
                if isinstance(n, ast.Call) and (n.func is node or any(a is node for a in n.args)):
                    inv.append((f, n))
    need(inv, "no invocation of Consumer.processor found")
    feeders = sorted({f.qname for f, _ in inv})
    r.check(len(feeders) == 1 and len(inv) == 1, "%s#invokers-of-processor" % CONS,
            "self.processor is invoked from %d site(s) in %s; exactly one feeder is required" % (len(inv), feeders),
            where(inv[0][0], inv[0][1]), "two invokers can overlap invocations", facts=feeders)
    inv.sort(key=lambda fc: (call_name(fc[1]) != "maybeDeferred", fc[0].qname))
    feeder, inv_call = inv[0]
    ctx.functions_consulted.add(feeder.qname)

    # ---- R2 suspension between two invocations
    r = ctx.rule("R2", "every loop path from one processor invocation to the next suspends on its Deferred", 1, "B")
    c = ctx.cfg(feeder)
    inv_nodes = c.containing(inv_call)
    need(inv_nodes, "processor invocation not in CFG")
    inv_node = inv_nodes[0]
    # variables bound to the invocation's result
    bound = set()
    if isinstance(inv_node.stmt, ast.Assign):
        for t in inv_node.stmt.targets:
            bound.add(unparse(t))
    susp = [n.id for n in c.nodes if n.suspends and any(
        isinstance(x, ast.Yield) and x.value is not None and unparse(x.value) in bound for x in n.walk())]
    cyc = inv_node.id in c.reach([inv_node.id], avoid=susp)
    r.check(feeder.is_inline_callbacks and not cyc, "%s#invocation-cycle" % feeder.qname,
            "a path leads from one processor invocation to the next without yielding the Deferred of the first",
            where(feeder, inv_call), "asynchronous processor: second block delivered while the first is pending",
            facts=["bound=%s" % sorted(bound), "suspension nodes=%d" % len(susp)])

    # ---- R3 single block in flight
    r = ctx.rule("R3", "a new block Deferred is created only when none exists; feeder called right after", 2, "B")
    feeder_calls = []
    for f in prog.functions(module="consumer", cls="Consumer"):
        for call in calls_in(f, feeder.name):
            if call_recv(call) == "self":
                feeder_calls.append((f, call))
    need(feeder_calls, "feeder %s is never called" % feeder.name)
    for f, call in feeder_calls:
        cf = ctx.cfg(f)
        facts = ctx.facts(f)
        for n in cf.containing(call):
            # the assignment of a fresh Deferred must dominate the call...
            assigns = [m for m in cf.nodes if node_assign_value(m, "_msg_block_d") is not None
                       and not isinstance(node_assign_value(m, "_msg_block_d"), ast.Constant)]
            dom = [m for m in assigns if cf.dominates([m.id], n.id)]
            ok = bool(dom) and all(known_falsy(facts[m.id], "self._msg_block_d") for m in dom)
            r.check(ok, "%s#call(%s)" % (f.qname, feeder.name),
                    "feeder called without a dominating `_msg_block_d = Deferred()` guarded by `_msg_block_d` falsy",
                    where(f, call), "two blocks fed concurrently",
                    facts=["assign@%d guarded=%s" % (m.lineno, known_falsy(facts[m.id], "self._msg_block_d"))
                           for m in dom])
    writers = sorted({f.name for f, kind, node in prog.attr_accesses(ci, "_msg_block_d", False)
                      if kind in ("write", "del") and f.cls is ci})
    allowed = {"__init__", feeder.name, "stop"} | {f.name for f, _ in feeder_calls}
    r.check(set(writers) <= allowed, "%s#writers(_msg_block_d)" % CONS,
            "_msg_block_d written outside feeder/its caller/stop: %s" % sorted(set(writers) - allowed),
            facts=writers)

    # ---- R4 parked reply
    r = ctx.rule("R4", "reply during processing is parked on the block Deferred and nothing is extracted", 2, "B+C")
    hfr = None
    for f, call in feeder_calls:
        hfr = f
    need(hfr is not None, "no fetch reply handler")
    cf = ctx.cfg(hfr)
    facts = ctx.facts(hfr)
    tests = [n for n in cf.nodes if n.kind == "test" and isinstance(n.stmt, ast.If)
             and norm(n.stmt.test) in ("self._msg_block_d", "self._msg_block_d is not None")]
    need(tests, "no test of _msg_block_d in %s" % hfr.qname)
    t = tests[0]
    true_succ = [s for s, lab in cf.succ[t.id] if lab and lab[0] == "cond" and lab[2]]
    arm = cf.reach([t.id], avoid=[s for s, lab in cf.succ[t.id] if lab and lab[0] == "cond" and not lab[2]])
    arm_nodes = [cf.nodes[i] for i in arm if cf.nodes[i].stmt is not None]
    resp_param = hfr.first_param()
    parked = False
    for reg in registrations(hfr, prog):
        if reg["root"] == "self._msg_block_d" and reg["kind"] in ("cb", "both") and any(
                reg["call"] in list(n.walk()) for n in arm_nodes):
            g = prog.resolve_callable(hfr, reg["cb"])
            if g is not None:
                for x in walk_body_shallow(g.body):
                    if isinstance(x, ast.Call) and call_name(x) == hfr.name and x.args and isinstance(
                            x.args[0], ast.Name) and x.args[0].id == resp_param:
                        parked = True
            elif unparse(reg["cb"]) == "self." + hfr.name:
                parked = True
    r.check(parked, "%s#parked-arm-registration" % hfr.qname,
            "truthy `_msg_block_d` arm does not re-enter the handler with the same responses on block completion",
            where(hfr, t.stmt), "reply arriving during processing is lost or processed concurrently")
    dirty = [n for n in arm_nodes if node_writes_attr(n, "_request_d") or node_writes_attr(n, "_fetch_offset")
             or any(call_name(x) == feeder.name for x in n.calls())]
    r.check(not dirty and cf.exit.id in arm, "%s#parked-arm-inert" % hfr.qname,
            "parked arm clears _request_d / moves _fetch_offset / feeds messages: %s" % [n.text(60) for n in dirty],
            where(hfr, t.stmt), "a second fetch is issued and its messages interleave with the parked ones")
    # everything that extracts is dominated by the falsy arm
    extract = [n for n in cf.nodes if n.stmt is not None and (
        node_writes_attr(n, "_fetch_offset") or any(call_name(x) == feeder.name for x in n.calls()))]
    for n in extract:
        r.check(known_falsy(facts[n.id], "self._msg_block_d") or any(
            node_assign_value(m, "_msg_block_d") is not None and cf.dominates([m.id], n.id) for m in cf.nodes),
            "%s#extract:%s" % (hfr.qname, n.text(50)),
            "extraction statement not dominated by `_msg_block_d` falsy", where(hfr, n.stmt))

    # ---- R5 single fetch in flight
    r = ctx.rule("R5", "one outstanding request: assignment of _request_d guarded, senders called from one place", 5,
                 "B")
    sender_sites = []
    for f in prog.functions(module="consumer", cls="Consumer"):
        for call in [x for x in walk_body_shallow(f.body) if isinstance(x, ast.Call)]:
            if call_name(call) in SENDERS and call_recv(call) == "self.client":
                sender_sites.append((f, call))
    need(sender_sites, "no client fetch/offset sender call in Consumer")
    fset = sorted({f.qname for f, _ in sender_sites})
    r.check(len(fset) == 1, "%s#sender-callers" % CONS, "fetch/offset senders called from %s" % fset, facts=fset)
    for f, call in sender_sites:
        cf2 = ctx.cfg(f)
        fa = ctx.facts(f)
        for n in cf2.containing(call):
            ok = result_stored(cf2, n, call, "_request_d") and known_falsy(fa[n.id], "self._request_d")
            r.check(ok, "%s#%s" % (f.qname, call_name(call)),
                    "request sent without storing it in _request_d under `_request_d` falsy", where(f, call),
                    "two fetches in flight deliver overlapping message ranges",
                    facts=["stored in _request_d=%s" % result_stored(cf2, n, call, "_request_d"),
                           "guard falsy=%s" % known_falsy(fa[n.id], "self._request_d")])
    clearers = sorted({f.name for f, kind, node in prog.attr_accesses(ci, "_request_d", False)
                       if kind == "write" and f.cls is ci and isinstance(node, ast.Assign)
                       and isinstance(node.value, ast.Constant) and node.value.value is None})
    handlers = set()
    for f, _ in sender_sites:
        for reg in registrations(f, prog):
            for h in (reg["cb"], reg["eb"]):
                g = prog.resolve_callable(f, h) if h is not None else None
                if g is not None:
                    handlers.add(g.name)
    r.check(set(clearers) <= handlers | {"__init__", "stop"}, "%s#clearers(_request_d)" % CONS,
            "_request_d cleared outside the reply/error handlers and stop(): %s" % sorted(set(clearers) - handlers - {"__init__", "stop"}),
            facts=clearers)
    # _retry_call armed only when none pending
    for f, kind, node in prog.attr_accesses(ci, "_retry_call", False):
        if kind == "write" and isinstance(node, ast.Assign) and isinstance(node.value, ast.Call) and call_name(
                node.value) == "callLater":
            fa = ctx.facts(f)
            n = ctx.cfg(f).node_of(node)
            r.check(known_falsy(fa[n.id], "self._retry_call"), "%s#arm(_retry_call)" % f.qname,
                    "refetch timer armed while one may be pending", where(f, node),
                    "two scheduled refetches -> two fetches in flight")

    # ---- R6 offset discipline
    r = ctx.rule("R6", "skip test `offset < _fetch_offset`, advance `= offset+1` with the append, no write in "
                       "the too-small arm", 5, "A+B")
    wr = sorted({f.name for f, kind, node in prog.attr_accesses(ci, "_fetch_offset", False)
                 if kind in ("write", "aug", "del") and f.cls is ci})
    ctx.extra["fetch_offset_writers"] = wr
    allowed_w = {"__init__", "start", hfr.name} | handlers
    r.check(set(wr) <= allowed_w, "%s#writers(_fetch_offset)" % CONS,
            "_fetch_offset written in %s" % sorted(set(wr) - allowed_w), facts=wr)
    # what each writer may store in the fetch position (every value that can reach the store, through locals)
    FORMS = {
        "start": [r"^<param:1>$"],
        hfr.name: [r"^\w+\.offset \+ 1$", r"^1 \+ \w+\.offset$"],
        "_handle_offset_response": [r"^\w+\.offsets\[0\]$", r"^\w+\.offset \+ 1$", r"^1 \+ \w+\.offset$", r"^OFFSET_LATEST$", r"^OFFSET_EARLIEST$"],
        "_handle_fetch_error": [r"^self\.auto_offset_reset$"],
        "_handle_offset_error": [r"^self\.auto_offset_reset$"],
        "__init__": [r"^None$"],
    }
    import re as _re
    done_w = set()
    for f_, kind_, node_ in prog.attr_accesses(ci, "_fetch_offset", False):
        if kind_ != "write" or f_.cls is not ci or f_.name not in FORMS or f_.qname in done_w:
            continue
        done_w.add(f_.qname)
        cfw = ctx.cfg(f_)
        for wn in [n for n in cfw.nodes if node_assign_value(n, "_fetch_offset") is not None]:
            # provenance: follow the locals back through their reaching definitions (not through an attribute that
            # happens to hold the same value at that point), then name single-definition temporaries by what they hold
            og = value_origins(cfw, wn.id, node_assign_value(wn, "_fetch_offset"), params=f_.params)
            texts = []
            for n_, e in (og or [(None, None)]):
                if e is None:
                    texts.append("<untraceable>")
                elif n_ == cfw.entry.id and isinstance(e, ast.Name) and e.id in f_.params:
                    texts.append("<param:%d>" % f_.params.index(e.id))
                else:
                    texts.append(norm(expand(prog, f_, e, calls=True)))
            bad_forms = [t for t in texts if not any(_re.match(p_, t) for p_ in FORMS[f_.name])]
            r.check(not bad_forms, "%s#position-written(%s)" % (f_.qname, "|".join(sorted(set(texts)))[:60]),
                    "the fetch position is set from %s; %s may only store %s" % (bad_forms, f_.name, FORMS[f_.name]), where(f_, wn.stmt),
                    "the consumer resumes at a position the caller / the broker did not give: committed messages redelivered, or the "
                    "reset policy not applied")
    appends = []
    for n in cf.nodes:
        for x in n.calls():
            if call_name(x) == "append" and x.args and isinstance(x.args[0], ast.Call) and call_name(
                    x.args[0]) == "SourcedMessage":
                appends.append((n, x.args[0]))
    need(len(appends) == 1, "expected one append of SourcedMessage in %s" % hfr.qname)
    an, sm = appends[0]
    off = kwarg(sm, "offset", 2)
    msg = kwarg(sm, "message", 3)
    need(off is not None and isinstance(off, ast.Attribute), "SourcedMessage offset argument not an attribute")
    M = unparse(off.value)
    # the fact is looked up at the first statement of the append/advance block
    blk_first = an
    for pid, lab in cf.pred[an.id]:
        pn = cf.nodes[pid]
        if lab is None and node_assign_value(pn, "_fetch_offset") is not None and len(cf.pred[an.id]) == 1:
            blk_first = pn
    skip_ok = (("%s.offset < self._fetch_offset" % M, False) in facts[blk_first.id])
    r.check(skip_ok, "%s#skip-test" % hfr.qname,
            "append of a message is not dominated by the false outcome of `%s.offset < self._fetch_offset`" % M,
            where(hfr, sm), "`<=` drops the first requested message; no test redelivers wrapper-internal messages",
            facts=sorted(t for t, p in facts[an.id] if "_fetch_offset" in t))
    # the skip test is the ONLY thing that decides whether a decoded message is delivered: inside the message loop the
    # append depends on no other condition
    mloops = [n for n in cf.nodes if n.kind == "for" and isinstance(n.stmt.target, ast.Name) and n.stmt.target.id == M]
    if mloops:
        mbody = cf.reach([mloops[0].id], avoid=[t for t, lab in cf.succ[mloops[0].id] if lab == ("iter", False)])
        from ..cfg import cond_atoms
        extra_conds = []
        for t, lab in cf.control_deps_transitive(an.id, within=mbody):
            if t.kind != "test":
                continue
            tt_ = at(ctx, hfr, t.id, t.stmt.test)
            is_skip = any(tx == "%s.offset < self._fetch_offset" % M for tx, pol in cond_atoms(tt_, True)) and chains_in(tt_) <= {
                M, M + ".offset", "self", "self._fetch_offset"}
            if not is_skip:
                extra_conds.append(norm(t.stmt.test))
        r.check(not extra_conds, "%s#only-skip-condition" % hfr.qname,
                "delivery of a decoded message also depends on %s; only `offset < fetch position` may drop a message" % extra_conds, where(hfr, sm),
                "restart at an earlier offset / reset to earliest after truncation: messages at or below some remembered mark are "
                "silently omitted")
    advs = [n for n in cf.nodes if node_assign_value(n, "_fetch_offset") is not None and n.id in cf.reach([an.id])
            and an.id in cf.reach([n.id])]
    adv_ok = False
    for n in advs:
        v = node_assign_value(n, "_fetch_offset")
        same_block = any(s == n.id and lab is None for s, lab in cf.succ[an.id]) or any(
            s == an.id and lab is None for s, lab in cf.succ[n.id])
        val_ok = norm(at(ctx, hfr, n.id, v)) in ("%s.offset + 1" % M, "1 + %s.offset" % M)
        guarded = ("%s.offset < self._fetch_offset" % M, False) in facts[n.id]
        if same_block and val_ok and guarded:
            adv_ok = True
    r.check(adv_ok and len(advs) == 1, "%s#advance" % hfr.qname,
            "the fetch position is not advanced to `%s.offset + 1` in the block of the append (after the skip test)"
            % M, where(hfr, sm), "advance before the test skips everything; outside the loop redelivers",
            facts=[n.text(60) for n in advs])
    feed_nodes = [n.id for n in cf.nodes if any(call_name(x) == feeder.name and call_recv(x) == "self" for x in n.calls())]
    # once a message was extracted (position advanced) every way out - normal, handled or escaping exception - hands
    # the extracted messages to the feeder (the `if <messages>:` false outcome cannot be taken then)
    empties = [t for n in cf.nodes if n.kind == "test" and isinstance(n.stmt, ast.If) and norm(n.stmt.test) == call_recv(
        [c for c in an.calls() if call_name(c) == "append"][0]) for t, lab in cf.succ[n.id] if lab and lab[0] == "cond" and not lab[2]]
    for wn in advs:
        out = cf.reach([wn.id], avoid=feed_nodes + empties)
        r.check(cf.exit.id not in out and cf.raise_exit.id not in out, "%s#extracted-always-delivered" % hfr.qname,
                "after the fetch position was advanced past a message, an exit (e.g. a decode error later in the same reply) leaves "
                "without handing the extracted messages to the processor", where(hfr, wn.stmt),
                "reply with good messages followed by one whose decode raises (CRC, unsupported codec): the good ones are dropped and "
                "never refetched - omission")
    exc_nodes = [n for n in cf.nodes if n.kind == "except" and "ConsumerFetchSizeTooSmall" in norm(n.stmt.type or
                 ast.Constant(value=None))]
    need(exc_nodes, "no ConsumerFetchSizeTooSmall handler in %s" % hfr.qname)
    for en in exc_nodes:
        arm2 = [cf.nodes[i] for i in cf.reach([en.id])]
        bad = [n for n in arm2 if n.stmt is not None and node_writes_attr(n, "_fetch_offset")]
        r.check(not bad, "%s#too-small-arm" % hfr.qname, "too-small arm moves the fetch position (skips the message)",
                where(hfr, en.stmt), "message larger than the buffer is skipped instead of refetched")

    # the set iterator yields each decoded inner message under the offset that came with it (same loop element)
    it_ = ctx.func("kafkacodec:KafkaCodec._decode_message_set_iter")
    yl = []
    def _iter_src(e):
        return single_defs(it_).get(e.id, e) if isinstance(e, ast.Name) else e
    for lp in [x for x in ast.walk(it_.node) if isinstance(x, ast.For) and "_decode_message(" in unparse(_iter_src(x.iter))]:
        for y in [x for st in lp.body for x in ast.walk(st) if isinstance(x, ast.Yield) and isinstance(x.value, ast.Call)]:
            yl.append((lp, y))
    okp = bool(yl)
    for lp, y in yl:
        tg = [unparse(e) for e in lp.target.elts] if isinstance(lp.target, ast.Tuple) else []
        args = [unparse(a) for a in y.value.args]
        okp = okp and len(tg) == 2 and args[:2] == tg
    r.check(okp, "%s#yields-element-offset" % it_.qname,
            "the set iterator does not yield (offset, message) of the same decoded element (the wrapper's offset is attached to its inner messages)",
            where(it_, yl[0][1] if yl else it_.node), "every inner message of a compressed wrapper is delivered under the wrapper's offset: the consumer "
            "keeps the first and drops the rest as already seen")

    # ---- R7 delivered fields
    r = ctx.rule("R7", "SourcedMessage takes message and offset from the same decoded element", 1, "A")
    loop_vars = [unparse(n.stmt.target) for n in cf.nodes if n.kind == "for" and unparse(n.stmt.iter).endswith(
        ".messages")]
    ok = (msg is not None and norm(msg) == "%s.message" % M and norm(kwarg(sm, "topic", 0)) == "self.topic"
          and norm(kwarg(sm, "partition", 1)) == "self.partition" and M in loop_vars)
    r.check(ok, "%s#SourcedMessage-args" % hfr.qname,
            "delivered message/offset/topic/partition not taken from the same element/consumer: %s" % norm(sm),
            where(hfr, sm), facts=["element=%s" % M, "loops=%s" % loop_vars])

    # ---- R8 absolute offsets of compressed wrappers (shared with C05.R5)
    wrapper_offset_rule(ctx, ctx.rule("R8", "offsets yielded from compressed wrappers: magic 0 inner, "
                                            "magic>=1 rebased on the wrapper's offset", 4, "A"))


def magic_arms(ctx):
    """{magic: (nested per-format decoder, dispatching call)} read from the guard facts of the dispatch returns."""
    import re
    prog = ctx.prog
    dm = ctx.func("kafkacodec:KafkaCodec._decode_message")
    cf = ctx.cfg(dm)
    arms = {}
    for n in cf.nodes:
        if n.kind == "stmt" and isinstance(n.stmt, ast.Return) and isinstance(n.stmt.value, ast.Call):
            g = prog.resolve_callable(dm, n.stmt.value.func)
            if g is not None and g.parent is dm:
                for t, pol in ctx.facts(dm)[n.id]:
                    m = re.match(r"^\w+ == (\d+)$", t)
                    if m and pol:
                        arms[int(m.group(1))] = (g, n.stmt.value)
    need(0 in arms and 1 in arms, "magic dispatch of _decode_message not recognised")
    return dm, arms


def wrapper_offset_rule(ctx, r):
    """Provenance of every offset the per-format decoders yield (offsetflow): W = the wrapper's own offset, I = the
    offset an inner message carries, LAST = the offset of the last inner message.
      plain message (no compression)      -> W
      format 0 wrapper                    -> I   (inner offsets are absolute already)
      format 1 wrapper                    -> needs W, I and LAST (absolute = wrapper - last inner + inner)"""
    import re as _re
    from ..offsetflow import LAST, OffsetFlow, I, UNK, W
    from ..model import walk_shallow as _ws
    dm, arms = magic_arms(ctx)
    of = OffsetFlow(ctx, dm, dm.params[2])
    for mag, (g, call) in sorted(arms.items()):
        cg = ctx.cfg(g)
        fg = ctx.facts(g)
        n_y = 0
        for n in cg.nodes:
            if n.stmt is None or isinstance(n.stmt, (ast.FunctionDef, ast.AsyncFunctionDef)):
                continue
            roots = [n.stmt.iter] if n.kind == "for" else [n.stmt.test] if n.kind == "test" else [n.stmt] if n.kind == "stmt" else []
            for y in [x for rt in roots for x in _ws(rt) if isinstance(x, (ast.Yield, ast.YieldFrom))]:
                t = of.yield_tags(g, n, y)
                plain = any(_re.match(r"^\w+ == CODEC_NONE$", tx) and pol for tx, pol in fg[n.id])
                comp = any(_re.match(r"^\w+ == CODEC_NONE$", tx) and not pol for tx, pol in fg[n.id]) or any(
                    _re.match(r"^\w+ == CODEC_(GZIP|SNAPPY)$", tx) and pol for tx, pol in fg[n.id])
                if not plain and not comp:
                    comp = I in t or LAST in t
                    plain = not comp
                kind = "plain" if plain else "wrapper"
                n_y += 1
                shown = sorted(str(x) for x in t)
                key = "%s#yielded-offset[magic%d %s] %s" % (dm.qname, mag, kind, norm(y.value.elts[0]) if isinstance(
                    y.value, ast.Tuple) and y.value.elts else norm(y.value))
                if plain:
                    r.check(t == {W}, key, "an uncompressed message is not yielded under the offset it was decoded at (offset comes from %s)" % shown,
                            where(g, y), facts=shown)
                elif mag == 0:
                    r.check(t == {I}, key, "format 0 wrapper must yield the inner (absolute) offsets unchanged (offset comes from %s)" % shown,
                            where(g, y), facts=shown)
                else:
                    r.check({W, I} <= t and UNK not in t and LAST in t, key,
                            "format 1 wrapper yields inner offsets that do not depend on the wrapper's offset "
                            "(inner offsets are relative in that format)" if W not in t else
                            "format 1 rebase does not use the last inner offset: absolute = wrapper - last_inner + inner; a base "
                            "derived from the message count is wrong for wrappers with gaps (compacted topics) (offset comes from %s)" % shown,
                            where(g, y), "wrapper at offset 102 with 3 inner messages yields 0,1,2; consumer then skips or redelivers", facts=shown)
        need(n_y >= 2, "yields of the format-%d decoder not found" % mag)


MUTANTS = [
    {"id": "skip-le", "file": "consumer.py", "old": "if message.offset < self._fetch_offset:",
     "new": "if message.offset <= self._fetch_offset:", "expect": "C02.R6"},
    {"id": "advance-hoisted", "file": "consumer.py",
     "old": "                    # Update our notion of from where to fetch.\n                    self._fetch_offset = message.offset + 1\n",
     "new": "", "expect": "C02.R6"},
    {"id": "advance-no-plus-one", "file": "consumer.py", "old": "self._fetch_offset = message.offset + 1",
     "new": "self._fetch_offset = message.offset", "expect": "C02.R6"},
    {"id": "parked-clears-request", "file": "consumer.py",
     "old": "            self._msg_block_d.addErrback(self._handle_fetch_error)\n            return",
     "new": "            self._msg_block_d.addErrback(self._handle_fetch_error)\n            self._request_d = None\n            return",
     "expect": "C02.R4"},
    {"id": "parked-dropped", "file": "consumer.py",
     "old": "            self._msg_block_d.addCallback(lambda _: self._handle_fetch_response(responses))\n            self._msg_block_d.addErrback(self._handle_fetch_error)\n            return",
     "new": "            return", "expect": "C02.R4"},
    {"id": "no-yield", "file": "consumer.py", "old": "                yield d\n                if self._stopping or self._start_d is not start_d or start_d.called:",
     "new": "                if self._stopping or self._start_d is not start_d or start_d.called:", "expect": "C02.R2"},
    {"id": "fetch-unguarded", "file": "consumer.py",
     "old": "        if self._request_d:\n            log.debug(\"_do_fetch: Outstanding request: %r\", self._request_d)\n            return\n",
     "new": "", "expect": "C02.R5"},
    {"id": "retry-unguarded", "file": "consumer.py", "old": "        if self._retry_call is None:\n            if after is None:",
     "new": "        if True:\n            if after is None:", "expect": "C02.R5"},
    {"id": "second-invoker", "file": "consumer.py",
     "old": "        self._last_processed_offset = offset\n        self._auto_commit(by_count=True)",
     "new": "        self._last_processed_offset = offset\n        self.processor(self, [])\n        self._auto_commit(by_count=True)",
     "expect": "C02.R1"},
    {"id": "wrong-message-field", "file": "consumer.py", "old": "offset=message.offset,\n",
     "new": "offset=self._fetch_offset,\n", "expect": ["C02.R7", "C02.R6"], "accept_analysis_error": True},
    {"id": "too-small-skips", "file": "consumer.py",
     "old": "            factor = 2\n            if self.buffer_size <= 2**20:",
     "new": "            factor = 2\n            self._fetch_offset += 1\n            if self.buffer_size <= 2**20:",
     "expect": "C02.R6"},
    {"id": "v0-rebased", "file": "kafkacodec.py",
     "old": "                gz = gzip_decode(value)\n                for offset, msg in KafkaCodec._decode_message_set_iter(gz):\n                    yield offset, msg\n\n            elif codec == CODEC_SNAPPY:\n                snp = snappy_decode(value)\n                for offset, msg in KafkaCodec._decode_message_set_iter(snp):\n                    yield offset, msg\n\n            else:\n                raise ProtocolError(\"Unsupported codec 0b{:b}\".format(codec))\n\n        def v1",
     "new": "                gz = gzip_decode(value)\n                for inner, msg in KafkaCodec._decode_message_set_iter(gz):\n                    yield offset, msg\n\n            elif codec == CODEC_SNAPPY:\n                snp = snappy_decode(value)\n                for offset, msg in KafkaCodec._decode_message_set_iter(snp):\n                    yield offset, msg\n\n            else:\n                raise ProtocolError(\"Unsupported codec 0b{:b}\".format(codec))\n\n        def v1",
     "expect": "C02.R8"},
]

MUTANTS.append({"id": "delivery-not-in-finally", "file": "consumer.py",
                "old": "        finally:\n            # If we were able to extract any messages, deliver them to the\n            # processor now.\n            if messages:\n                self._msg_block_d = Deferred()\n                self._process_messages(messages)\n",
                "new": "        # If we were able to extract any messages, deliver them to the\n        # processor now.\n        if messages:\n            self._msg_block_d = Deferred()\n            self._process_messages(messages)\n",
                "expect": "C02.R6", "note": "seeded C02-4"})
MUTANTS.append({"id": "rebase-by-count", "file": "kafkacodec.py", "old": "                    base = offset - inner[-1][0]",
                "new": "                    base = offset - (len(inner) - 1)", "expect": "C02.R8", "note": "seeded C02-2 / C05-1"})
TWINS = [
    {"id": "rename-loop-var", "file": "consumer.py",
     "edits": [("consumer.py", "for message in resp.messages:", "for om in resp.messages:"),
               ("consumer.py", "if message.offset < self._fetch_offset:", "if om.offset < self._fetch_offset:"),
               ("consumer.py", "                            message.offset,\n                            self._fetch_offset,",
                "                            om.offset,\n                            self._fetch_offset,"),
               ("consumer.py", "message=message.message,\n                            offset=message.offset,",
                "message=om.message,\n                            offset=om.offset,"),
               ("consumer.py", "self._fetch_offset = message.offset + 1", "self._fetch_offset = om.offset + 1")]},
    {"id": "skip-test-inverted", "file": "consumer.py",
     "old": "if message.offset < self._fetch_offset:", "new": "if not (message.offset >= self._fetch_offset):"},
    {"id": "advance-before-append", "file": "consumer.py",
     "edits": [("consumer.py", "                    # Update our notion of from where to fetch.\n                    self._fetch_offset = message.offset + 1\n", ""),
               ("consumer.py", "                    # Create a 'SourcedMessage' and add it to the messages list\n",
                "                    self._fetch_offset = message.offset + 1\n")]},
]

"""Shared helpers for rule modules."""
import ast

from ..cfg import known_falsy, known_truthy
from ..model import AnalysisError, ShapeError, attr_chain, self_attr, unparse, walk_body_shallow, walk_shallow

REG_METHODS = {"addCallback": "cb", "addErrback": "eb", "addBoth": "both", "addCallbacks": "cbs"}


def norm(node, limit=160):
    t = " ".join(unparse(node).split())
    return t if len(t) <= limit else t[: limit - 3] + "..."


def where(func, node=None):
    ln = getattr(node, "lineno", None) or func.lineno
    return "afkak/%s.py:%d" % (func.module.name, ln)


def call_name(call):
    f = call.func
    if isinstance(f, ast.Attribute):
        return f.attr
    if isinstance(f, ast.Name):
        return f.id
    return ""


_CURRENT = {"prog": None, "owner": None, "facts": {}}


def set_current_program(prog):
    if _CURRENT["prog"] is not prog:
        _CURRENT["prog"], _CURRENT["owner"], _CURRENT["facts"] = prog, None, {}


def _recv_alias(call):
    """`x.m()` where the local x is, at this call, known to denote `self.attr` (a definition fact `x := self.attr`
    holds on entry to the statement): the attribute chain, else None."""
    prog = _CURRENT["prog"]
    if prog is None:
        return None
    if _CURRENT["owner"] is None:
        owner = {}
        for f in prog.funcs.values():
            for n in walk_body_shallow(f.body):
                if isinstance(n, ast.Call):
                    owner[id(n)] = f
        _CURRENT["owner"] = owner
    f = _CURRENT["owner"].get(id(call))
    if f is None:
        return None
    ent = _CURRENT["facts"].get(f.qname)
    if ent is None:
        from ..cfg import CFG

        try:
            c = CFG(f)
            ent = (c, c.must_facts(prog)[0])
        except Exception:  # noqa: BLE001
            ent = (None, None)
        _CURRENT["facts"][f.qname] = ent
    c, facts = ent
    if c is None:
        return None
    from ..cfg import def_facts

    nodes = c.containing(call)
    if not nodes:
        return None
    d = def_facts(facts[nodes[0].id]).get(call.func.value.id)
    if d is not None and attr_chain(d) and attr_chain(d).startswith("self."):
        return attr_chain(d)
    # read-then-clear (`d = self.x; self.x = None; d.cancel()` or the tuple swap `self.x, d = None, self.x`): every
    # definition of the local that reaches the call read the same attribute, so the object is the one that attribute held
    name = call.func.value.id
    origins = set()
    for dn in reaching_defs(c, nodes[0].id, name):
        st = c.nodes[dn].stmt
        got = None
        if isinstance(st, ast.Assign):
            for t in st.targets:
                if isinstance(t, ast.Name) and t.id == name and len(st.targets) == 1:
                    got = attr_chain(st.value)
                elif isinstance(t, (ast.Tuple, ast.List)) and isinstance(st.value, (ast.Tuple, ast.List)) and len(t.elts) == len(st.value.elts):
                    for tt, vv in zip(t.elts, st.value.elts):
                        if isinstance(tt, ast.Name) and tt.id == name:
                            got = attr_chain(vv)
        origins.add(got)
    if len(origins) == 1:
        o = origins.pop()
        if o and o.startswith("self.") and o.count(".") == 1:
            return o
    return None


def call_recv(call):
    """Text of the receiver of a method call, or None.  A local that is a flow-sensitively known alias of an attribute
    (`d = self._x ... d.cancel()`) is reported as that attribute."""
    if isinstance(call.func, ast.Attribute):
        v = call.func.value
        if isinstance(v, ast.Name) and v.id not in ("self", "cls"):
            a = _recv_alias(call)
            if a is not None:
                return a
        return unparse(v)
    return None


def calls_in(func, name=None, recv=None):
    out = []
    for n in walk_body_shallow(func.body):
        if isinstance(n, ast.Call):
            if name is not None and call_name(n) != name:
                continue
            if recv is not None and call_recv(n) != recv:
                continue
            out.append(n)
    return out


def all_calls_deep(func, prog):
    """Calls in func and in its nested defs / lambdas, with owning Func."""
    out = []
    stack = [func]
    while stack:
        f = stack.pop()
        for n in walk_body_shallow(f.body):
            if isinstance(n, ast.Call):
                out.append((f, n))
        stack.extend(f.nested.values())
        stack.extend(f.lambdas)
    return out


def names_in(node):
    return {n.id for n in ast.walk(node) if isinstance(n, ast.Name)}


def chains_in(node):
    out = set()
    for n in ast.walk(node):
        if isinstance(n, (ast.Attribute, ast.Name)):
            c = attr_chain(n)
            if c:
                out.add(c)
    return out


def kwarg(call, name, pos=None):
    for k in call.keywords:
        if k.arg == name:
            return k.value
    if pos is not None and len(call.args) > pos:
        return call.args[pos]
    return None


def need(cond, msg):
    if not cond:
        raise ShapeError(msg)


def one(seq, what):
    seq = list(seq)
    if len(seq) != 1:
        raise ShapeError("expected exactly one %s, found %d" % (what, len(seq)))
    return seq[0]


def node_writes_attr(node, attr):
    """Does CFG node (own effects) assign self.<attr>?"""
    from ..model import _writes_of_node

    for x in node.walk():
        for kind, a, _n in _writes_of_node(x):
            if a == attr and kind in ("write", "aug", "del"):
                return True
    return False


def node_assign_value(node, attr):
    """Value expr assigned to self.<attr> by this node (handles chained and
    tuple-swap assignments), or None."""
    st = node.stmt
    if node.kind != "stmt" or not isinstance(st, ast.Assign):
        return None
    for t in st.targets:
        if self_attr(t) == attr:
            return st.value
        if isinstance(t, (ast.Tuple, ast.List)) and isinstance(st.value, (ast.Tuple, ast.List)):
            for tt, vv in zip(t.elts, st.value.elts):
                if self_attr(tt) == attr:
                    return vv
    return None


def is_none_const(e):
    return isinstance(e, ast.Constant) and e.value is None


def is_falsy_const(e):
    return isinstance(e, ast.Constant) and not e.value or (
        isinstance(e, (ast.List, ast.Dict, ast.Tuple)) and not getattr(e, "elts", getattr(e, "keys", None)))


def registrations(func, prog):
    """Deferred-chain registrations made in func's own scope.

    Returns list of dict(root, kind, cb, eb, call, args) in source order, where
    root is the text of the chain's root receiver; fluent chains
    (d.addBoth(a).addErrback(b)) are flattened in order.  cb/eb are the handler
    expressions (None = pass-through)."""
    regs = []
    seen = set()
    for n in walk_body_shallow(func.body):
        if not (isinstance(n, ast.Call) and isinstance(n.func, ast.Attribute) and n.func.attr in REG_METHODS):
            continue
        if id(n) in seen:
            continue
        # find the outermost call of this fluent chain: handled by processing
        # inner-first below, so collect the chain from this node downwards
        chain = []
        cur = n
        while isinstance(cur, ast.Call) and isinstance(cur.func, ast.Attribute):
            if cur.func.attr in REG_METHODS:
                chain.append(cur)
                seen.add(id(cur))
            elif cur.func.attr in ("addTimeout",):
                pass
            else:
                break
            cur = cur.func.value
        root = cur
        root_text = unparse(root)
        if isinstance(root, ast.Name) and chain:
            a = _recv_alias(chain[-1])  # innermost call of the chain: its receiver is the root
            if a is not None:
                root_text = a
        for c in reversed(chain):
            kind = REG_METHODS[c.func.attr]
            cb = eb = None
            if kind == "cb":
                cb = c.args[0] if c.args else kwarg(c, "callback")
            elif kind == "eb":
                eb = c.args[0] if c.args else kwarg(c, "errback")
            elif kind == "both":
                cb = eb = c.args[0] if c.args else kwarg(c, "callback")
            else:
                cb = kwarg(c, "callback", 0)
                eb = kwarg(c, "errback", 1)
            # a handler / argument tuple named by a local bound once (`h = self._on_reply; d.addCallbacks(h, h, callbackArgs=a)`)
            if isinstance(cb, ast.Name):
                cb = _expand_handler(prog, func, cb)
            if isinstance(eb, ast.Name):
                eb = _expand_handler(prog, func, eb)
            if kind == "cbs" and cb is not None and eb is not None and unparse(cb) == unparse(eb):
                kind = "both"  # addCallbacks(h, h) is addBoth(h)
            if REG_METHODS[c.func.attr] == "cbs":
                cba, eba = kwarg(c, "callbackArgs", 2), kwarg(c, "errbackArgs", 3)
                cba = expand(prog, func, cba, depth=1, calls=True) if isinstance(cba, ast.Name) else cba
                eba = expand(prog, func, eba, depth=1, calls=True) if isinstance(eba, ast.Name) else eba
                cb_args = list(cba.elts) if isinstance(cba, (ast.Tuple, ast.List)) else []
                eb_args = list(eba.elts) if isinstance(eba, (ast.Tuple, ast.List)) else []
            else:
                cb_args = eb_args = list(c.args[1:])
            regs.append({"root": root_text, "root_node": root, "kind": kind, "cb": cb, "eb": eb, "call": c,
                         "lineno": c.lineno, "cb_args": cb_args if cb is not None else [], "eb_args": eb_args if eb is not None else []})
    regs.sort(key=lambda r: (r["call"].end_lineno, r["call"].end_col_offset))
    return regs


def _expand_handler(prog, func, name):
    if prog is None:
        return name
    if prog.resolve_callable(func, name) is not None:
        return name  # a nested / module-level function
    e = expand(prog, func, name, consts=False)
    return e if isinstance(e, (ast.Attribute, ast.Lambda)) else name


def aliases_of(func, name_or_chain):
    """Names/chains bound to the same value by chained assignment
    (`self.x = d = expr`) or simple copies (`d = self.x`) in func."""
    al = {name_or_chain}
    changed = True
    while changed:
        changed = False
        for n in walk_body_shallow(func.body):
            if isinstance(n, ast.Assign):
                tnames = [attr_chain(t) for t in n.targets if attr_chain(t)]
                v = attr_chain(n.value)
                group = set(tnames) | ({v} if v else set())
                if len(group) > 1 and group & al and not group <= al:
                    al |= group
                    changed = True
    return al


def handler_exits(func):
    """Classify a handler's normal exits w.r.t. its first parameter.

    Returns list of (kind, node) with kind in
    'none' (returns None / falls off), 'input' (returns first param),
    'value' (returns something else), plus whether it may raise explicitly."""
    p = func.first_param()
    out = []
    body = func.body
    for n in walk_body_shallow(body):
        if isinstance(n, ast.Return):
            if n.value is None or is_none_const(n.value):
                out.append(("none", n))
            elif isinstance(n.value, ast.Name) and n.value.id == p:
                out.append(("input", n))
            else:
                out.append(("value", n))
    return out


def falls_off_end(func, ctx):
    """Can control reach the end of the function without return/raise?"""
    c = ctx.cfg(func)
    for pid, lab in c.pred[c.exit.id]:
        n = c.nodes[pid]
        if not (n.kind == "stmt" and isinstance(n.stmt, ast.Return)):
            return True
    return False


def reachable_funcs(prog, func, follow_registered=False, depth=6):
    """Funcs reachable from func by direct calls (self methods, nested defs,
    module functions).  With follow_registered also through callbacks
    registered with addCallback & co, callLater, LoopingCall."""
    seen = {}
    stack = [(func, 0)]
    while stack:
        f, d = stack.pop()
        if f.qname in seen or d > depth:
            continue
        seen[f.qname] = f
        for n in walk_body_shallow(f.body):
            if isinstance(n, ast.Call):
                callee = prog.resolve_call(f, n)
                if callee is not None:
                    stack.append((callee, d + 1))
                if follow_registered:
                    for a in list(n.args) + [k.value for k in n.keywords]:
                        if isinstance(a, (ast.Attribute, ast.Name, ast.Lambda, ast.Call)):
                            g = prog.resolve_callable(f, a)
                            if g is not None and not isinstance(a, ast.Call):
                                stack.append((g, d + 1))
                            elif g is not None and unparse(a.func).endswith("partial"):
                                stack.append((g, d + 1))
    return seen




def call_edges(ctx, f):
    """[(node, callee Func, kind)] for direct calls and callables passed as
    arguments (registrations, timers) from f's own scope."""
    prog = ctx.prog
    out = []
    cf = ctx.cfg(f)
    for n in cf.nodes:
        for c in n.calls():
            g = prog.resolve_call(f, c)
            if g is not None:
                out.append((n, g, "call"))
            cn_ = call_name(c)
            for pos, a in [(i, a) for i, a in enumerate(c.args)] + [(k.arg, k.value) for k in c.keywords]:
                if isinstance(a, (ast.Attribute, ast.Name, ast.Lambda)) or (
                        isinstance(a, ast.Call) and unparse(a.func).split(".")[-1] == "partial"):
                    h = prog.resolve_callable(f, a)
                    if h is not None:
                        # a handler on the failure side runs when the chain is cancelled, whatever held when it was registered
                        failure_side = cn_ in ("addErrback", "addBoth") and pos == 0 or (cn_ == "addCallbacks" and pos in (1, "errback"))
                        out.append((n, h, "reg-eb" if failure_side else "reg"))
    return out


def guarded_reach(ctx, starts, is_target_call, guard_atoms, max_funcs=200, edge_filter=None):
    """Search from the functions in `starts` through call/registration edges
    whose site is NOT dominated by one of guard_atoms [(text, polarity)].
    Returns a path [(func qname, line, text)] to a call satisfying
    is_target_call(func, call) at an unguarded site, or None."""
    seen = set()
    stack = [(s, []) for s in starts]
    while stack:
        f, path = stack.pop()
        if f.qname in seen or len(seen) > max_funcs:
            continue
        seen.add(f.qname)
        cf = ctx.cfg(f)
        facts = ctx.facts(f)
        for n in cf.nodes:
            guarded = any(a in facts[n.id] for a in guard_atoms)
            if guarded:
                continue
            for c in n.calls():
                if is_target_call(f, c):
                    return path + [(f.qname, n.lineno, n.text(70))]
        for n, g, kind in call_edges(ctx, f):
            # a guard at the site of a direct call (or of a success-side registration) still holds when the callee runs;
            # a failure-side handler runs later - when the chain is cancelled - so the guard at its registration says nothing
            if kind != "reg-eb" and any(a in facts[n.id] for a in guard_atoms):
                continue
            if edge_filter is not None and not edge_filter(n, g, kind):
                continue
            stack.append((g, path + [(f.qname, n.lineno, "%s %s" % (kind, g.name))]))
    return None


def returns_deferred(prog, func, _seen=None):
    """Heuristic, conservative towards True: may calling `func` return a
    Deferred?  inlineCallbacks generators do; so do functions returning a
    value they registered callbacks on, a Deferred()-like constructor result,
    or the result of another such function; overriding methods count."""
    _seen = _seen or set()
    if func is None:
        return True
    if func.qname in _seen:
        return False
    _seen = _seen | {func.qname}
    if func.is_inline_callbacks:
        return True
    deferred_names = set()
    for n in walk_body_shallow(func.body):
        if isinstance(n, ast.Call) and isinstance(n.func, ast.Attribute) and n.func.attr in REG_METHODS:
            c = attr_chain(n.func.value)
            if c:
                deferred_names.add(c)
        if isinstance(n, ast.Assign) and isinstance(n.value, ast.Call):
            nm = call_name(n.value)
            if nm in ("Deferred", "maybeDeferred", "DeferredList", "deferLater", "succeed", "fail") or (
                    returns_deferred(prog, prog.resolve_call(func, n.value), _seen)
                    if prog.resolve_call(func, n.value) is not None else False):
                for t in n.targets:
                    c = attr_chain(t)
                    if c:
                        deferred_names.add(c)
    for n in walk_body_shallow(func.body):
        if isinstance(n, ast.Return) and n.value is not None:
            c = attr_chain(n.value)
            if c and c in deferred_names:
                return True
            if isinstance(n.value, ast.Call):
                nm = call_name(n.value)
                if nm in ("Deferred", "maybeDeferred", "DeferredList", "deferLater", "succeed", "fail"):
                    return True
                g = prog.resolve_call(func, n.value)
                if g is not None and returns_deferred(prog, g, _seen):
                    return True
                if g is None and isinstance(n.value.func, ast.Attribute) and n.value.func.attr in REG_METHODS:
                    return True
    # overriding methods in subclasses
    if func.cls is not None and func.parent is None:
        for sub in prog.subclasses(func.cls):
            if func.name in sub.methods and returns_deferred(prog, sub.methods[func.name], _seen):
                return True
    return False


def real_suspension(prog, func):
    """Predicate for CFG.must_facts: a yield suspends only if the yielded
    expression may be Deferred-like."""
    def pred(node):
        for x in node.walk():
            if isinstance(x, ast.Yield):
                v = x.value
                if v is None:
                    continue
                if isinstance(v, ast.Call):
                    g = prog.resolve_call(func, v)
                    if g is None:
                        return True
                    if returns_deferred(prog, g):
                        return True
                    continue
                return True
        return False
    return pred


def evaluated_unconditionally(stmt, target):
    """Is expression `target` evaluated whenever statement `stmt` runs (not
    under an IfExp arm, a short-circuit operand, a lambda or a comprehension)?"""
    def rec(node, cond):
        if node is target:
            return not cond
        res = None
        if isinstance(node, ast.IfExp):
            kids = [(node.test, cond), (node.body, True), (node.orelse, True)]
        elif isinstance(node, ast.BoolOp):
            kids = [(node.values[0], cond)] + [(v, True) for v in node.values[1:]]
        elif isinstance(node, (ast.Lambda, ast.ListComp, ast.SetComp, ast.DictComp, ast.GeneratorExp)):
            kids = [(k, True) for k in ast.iter_child_nodes(node)]
        else:
            kids = [(k, cond) for k in ast.iter_child_nodes(node)]
        for k, c in kids:
            v = rec(k, c)
            if v is not None:
                res = v
        return res
    return bool(rec(stmt, False))


def bootstrap_names(func):
    """(endpoint var, protocol var) of KafkaClient._send_bootstrap_request, derived from the source:
    ep = self._endpoint_factory(...);  protocol = yield ep.connect(...)"""
    ep = proto = None
    for x in walk_body_shallow(func.body):
        if isinstance(x, ast.Assign) and isinstance(x.value, ast.Call) and unparse(x.value.func).endswith("_endpoint_factory"):
            ep = unparse(x.targets[0])
    for x in walk_body_shallow(func.body):
        if isinstance(x, ast.Assign) and isinstance(x.value, ast.Yield) and isinstance(x.value.value, ast.Call) and \
                call_name(x.value.value) == "connect" and call_recv(x.value.value) == ep:
            proto = unparse(x.targets[0])
    return ep, proto


def reports_unless_stop_induced(ctx, r, h, sink_pred, label):
    """The handler must reach its reporting sink for every failure that stop() did not cause: evaluate the guards
    for (stopping, cancelled) in {(F,T),(F,F),(T,F)}; only (T,T) may be swallowed."""
    from .c17 import _eval  # three-valued evaluator of check()/flag tests
    cf = ctx.cfg(h)
    p = h.first_param()
    anc = {"CancelledError": {"CancelledError", "Exception"}, "RuntimeError": {"RuntimeError", "Exception"}}
    for stopping, cancelled in ((False, True), (False, False), (True, False)):
        case_cls = "CancelledError" if cancelled else "RuntimeError"
        sinks = {n.id for n in cf.nodes if any(sink_pred(c) for c in n.calls())}
        hit = case_reach(cf, p, case_cls, anc, stopping, sinks)
        r.check(hit, "%s#reports[stopping=%s,cancelled=%s]" % (h.qname, stopping, cancelled),
                "%s: a failure with stopping=%s, CancelledError=%s never reaches the report" % (label, stopping, cancelled), where(h, h.node),
                "a CancelledError not caused by stop() (e.g. the application's own timeout on the processor's Deferred) is swallowed: the "
                "feeder goes on to the next block and progress passes the failed one")


def _eval_flag(test, p, case_cls, anc, stopping, env=None):
    import ast as _ast
    env = env or {}
    if isinstance(test, _ast.Constant) and isinstance(test.value, bool):
        return test.value
    if isinstance(test, _ast.Name) and test.id in env:
        return env[test.id]
    if isinstance(test, _ast.Compare) and len(test.ops) == 1 and isinstance(test.comparators[0], _ast.Constant) and \
            test.comparators[0].value is None and isinstance(test.left, _ast.Call) and call_name(test.left) == "check":
        v = _eval_flag(test.left, p, case_cls, anc, stopping, env)  # check() returns the class or None
        if v is None:
            return None
        return v if isinstance(test.ops[0], (_ast.IsNot, _ast.NotEq)) else (not v)
    if isinstance(test, _ast.Call) and isinstance(test.func, _ast.Name) and test.func.id == "bool" and len(test.args) == 1:
        return _eval_flag(test.args[0], p, case_cls, anc, stopping, env)
    if isinstance(test, _ast.UnaryOp) and isinstance(test.op, _ast.Not):
        v = _eval_flag(test.operand, p, case_cls, anc, stopping, env)
        return None if v is None else (not v)
    if isinstance(test, _ast.BoolOp):
        vals = [_eval_flag(v, p, case_cls, anc, stopping, env) for v in test.values]
        if isinstance(test.op, _ast.And):
            if any(v is False for v in vals):
                return False
            return True if all(v is True for v in vals) else None
        if any(v is True for v in vals):
            return True
        return False if all(v is False for v in vals) else None
    if isinstance(test, _ast.Call) and call_name(test) == "check" and call_recv(test) == p:
        up = anc.get(case_cls, {case_cls})
        return any(unparse(a).split(".")[-1] in up for a in test.args)
    if norm(test) == "self._stopping":
        return stopping
    return None


# ---------------------------------------------------------------------------------------------------------------
# matching modulo definitions: a rule that matches on the *shape* of an expression first expands the local
# temporaries, module constants and class constants it mentions, so that introducing (or removing) a name for a
# sub-expression does not change what the rule sees.
_PURE_FUNCS = {"len", "isinstance", "min", "max", "int", "abs", "bool", "type", "bytearray", "bytes", "float"}


def _pure_expr(e):
    if isinstance(e, (ast.Constant, ast.Name)):
        return True
    if isinstance(e, ast.Attribute):
        return _pure_expr(e.value)
    if isinstance(e, ast.UnaryOp):
        return _pure_expr(e.operand)
    if isinstance(e, ast.BinOp):
        return _pure_expr(e.left) and _pure_expr(e.right)
    if isinstance(e, ast.BoolOp):
        return all(_pure_expr(v) for v in e.values)
    if isinstance(e, ast.Compare):
        return _pure_expr(e.left) and all(_pure_expr(c) for c in e.comparators)
    if isinstance(e, ast.IfExp):
        return _pure_expr(e.test) and _pure_expr(e.body) and _pure_expr(e.orelse)
    if isinstance(e, (ast.Tuple, ast.List)):
        return all(_pure_expr(x) for x in e.elts)
    if isinstance(e, ast.Subscript):
        return _pure_expr(e.value) and _pure_expr(e.slice)
    if isinstance(e, ast.Slice):
        return all(x is None or _pure_expr(x) for x in (e.lower, e.upper, e.step))
    if isinstance(e, ast.Call) and isinstance(e.func, ast.Name) and e.func.id in _PURE_FUNCS and not e.keywords:
        return all(_pure_expr(a) for a in e.args)
    if isinstance(e, ast.Call) and isinstance(e.func, ast.Attribute) and not e.keywords:
        base = attr_chain(e.func)
        if base in _PURE_QUALIFIED or (e.func.attr in _PURE_METHODS and _pure_expr(e.func.value)):
            return all(_pure_expr(a) for a in e.args)
    return False


_PURE_QUALIFIED = {"struct.pack", "struct.calcsize", "struct.unpack", "zlib.crc32", "struct.Struct"}
_PURE_METHODS = {"format", "encode", "decode", "startswith", "endswith", "get", "check"}


def holds_mod(prog, func, facts, text, pol=True):
    """Is the fact (text, pol) among `facts` modulo expansion of local temporaries and constants on both sides?"""
    if (text, pol) in facts:
        return True
    try:
        want = norm(expand(prog, func, ast.parse(text, mode="eval").body), 400)
    except SyntaxError:
        return False
    for t, p in facts:
        if p != pol:
            continue
        try:
            got = norm(expand(prog, func, ast.parse(t, mode="eval").body), 400)
        except SyntaxError:
            continue
        if got == want:
            return True
    return False


def local_store_counts(func):
    """name -> number of binding sites in func's own scope (parameters count as one)."""
    counts = {}
    for p in func.params:
        counts[p] = counts.get(p, 0) + 1
    for n in walk_body_shallow(func.body):
        if isinstance(n, ast.Name) and isinstance(n.ctx, (ast.Store, ast.Del)):
            counts[n.id] = counts.get(n.id, 0) + 1
        elif isinstance(n, ast.ExceptHandler) and n.name:
            counts[n.name] = counts.get(n.name, 0) + 1
        elif isinstance(n, (ast.FunctionDef, ast.AsyncFunctionDef, ast.ClassDef)):
            counts[n.name] = counts.get(n.name, 0) + 1
        elif isinstance(n, (ast.Global, ast.Nonlocal)):
            for x in n.names:
                counts[x] = counts.get(x, 0) + 2
    # a nested function that rebinds the name through `nonlocal`
    for g in list(func.nested.values()):
        for n in walk_body_shallow(g.body):
            if isinstance(n, ast.Nonlocal):
                for x in n.names:
                    counts[x] = counts.get(x, 0) + 2
    return counts


def single_defs(func):
    """name -> value expr for locals bound exactly once in func by a plain `name = E` (or `name: T = E`)."""
    memo = getattr(func, "_single_defs", None)
    if memo is not None:
        return memo
    counts = local_store_counts(func)
    out = {}
    for n in walk_body_shallow(func.body):
        if isinstance(n, ast.Assign) and len(n.targets) == 1 and isinstance(n.targets[0], ast.Name):
            if counts.get(n.targets[0].id) == 1:
                out[n.targets[0].id] = n.value
        elif isinstance(n, ast.AnnAssign) and isinstance(n.target, ast.Name) and n.value is not None:
            if counts.get(n.target.id) == 1:
                out[n.target.id] = n.value
    func._single_defs = out
    return out


def _config_attr(prog, func, attr):
    """self.<attr> is written nowhere in the class family outside __init__ (configuration-like, stable)."""
    if func.cls is None:
        return False
    for f, kind, _n in prog.attr_accesses(func.cls, attr):
        if kind != "read" and f.name != "__init__":
            return False
    return True


def _stable_value(prog, func, e, counts):
    """May the single definition `x = e` be substituted at every use of x?  e is pure, its local names are bound
    once, and the attributes it reads are not written by this function (or are configuration-like)."""
    if not _pure_expr(e):
        return False
    for n in ast.walk(e):
        if isinstance(n, ast.Name) and isinstance(n.ctx, ast.Load):
            if counts.get(n.id, 0) > 1:
                return False
    attrs = [n for n in ast.walk(e) if isinstance(n, ast.Attribute)]
    if attrs and prog is not None:
        scope = func
        while scope.parent is not None:
            scope = scope.parent
        written = prog.writes(scope) if scope.cls is not None else set()
        gen = scope.is_generator or func.is_generator
        for a in attrs:
            sa = self_attr(a)
            if sa is None:
                # attribute of a local object (req.messages, failure.value): stable unless assigned here
                base = attr_chain(a)
                if base is None:
                    return False
                continue
            if _config_attr(prog, func, sa):
                continue
            if sa in written or gen:
                return False
    return True


def module_const(func, name):
    m = func.module
    if name in m.constants and name not in m.funcs and name not in m.classes:
        # assigned once at module level?
        n = sum(1 for st in m.tree.body if isinstance(st, ast.Assign) and any(
            isinstance(t, ast.Name) and t.id == name for t in st.targets))
        if n == 1:
            return m.constants[name]
    return None


def class_const(prog, func, attr):
    """Value of a class-level constant `attr` of func's class family (never assigned on self in any method)."""
    if func.cls is None or prog is None:
        return None
    for c in prog.mro(func.cls):
        if attr in c.class_attrs:
            for f, kind, _n in prog.attr_accesses(func.cls, attr):
                if kind != "read":
                    return None
            return c.class_attrs[attr]
    return None


class _Expander(ast.NodeTransformer):
    def __init__(self, prog, func, depth, consts, calls=False):
        self.prog, self.func, self.depth, self.consts, self.calls = prog, func, depth, consts, calls
        self.scopes = []
        f = func
        while f is not None:
            self.scopes.append((f, single_defs(f), local_store_counts(f)))
            f = f.parent

    def visit_Name(self, node):
        if not isinstance(node.ctx, ast.Load) or self.depth <= 0:
            return node
        for f, defs, counts in self.scopes:
            if node.id in counts:
                v = defs.get(node.id)
                if v is not None and (_stable_value(self.prog, f, v, counts) or (self.calls and _value_flow_ok(v, counts))):
                    sub = _Expander(self.prog, f, self.depth - 1, self.consts, self.calls)
                    return sub.visit(_copy_expr(v))
                return node
        if self.consts:
            v = module_const(self.func, node.id)
            if v is not None and _pure_expr(v) and not isinstance(v, ast.Name):
                sub = _Expander(self.prog, self.func, self.depth - 1, self.consts)
                sub.scopes = []
                return sub.visit(_copy_expr(v))
        return node

    def visit_Attribute(self, node):
        if self.consts and isinstance(node.ctx, ast.Load) and isinstance(node.value, ast.Name) and self.depth > 0:
            if node.value.id in ("self", "cls") or (self.func.cls is not None and node.value.id == self.func.cls.name):
                v = class_const(self.prog, self.func, node.attr)
                if v is not None and isinstance(v, ast.Constant):
                    return ast.copy_location(_copy_expr(v), node)
        return self.generic_visit(node)

    def visit_Lambda(self, node):
        return node


def _copy_expr(e):
    import copy

    return copy.deepcopy(e)


def _value_flow_ok(v, counts):
    """value-flow view: `x = <any expression>` bound once; the expansion shows where the value of x comes from (it is
    not a claim about when the expression is evaluated)."""
    if any(isinstance(n, (ast.Yield, ast.YieldFrom, ast.Await, ast.Lambda)) for n in ast.walk(v)):
        return False
    return all(counts.get(n.id, 0) <= 1 for n in ast.walk(v) if isinstance(n, ast.Name) and isinstance(n.ctx, ast.Load))


def expand(prog, func, expr, depth=5, consts=True, calls=False):
    """expr with local temporaries (single pure definition), module constants and class constants replaced by their
    definitions.  The result denotes the same value at every use the original did.  calls=True also follows locals
    bound once to an arbitrary expression (value-flow view: which computation a value comes from)."""
    return _Expander(prog, func, depth, consts, calls).visit(_copy_expr(expr))


def at(ctx, func, node_id, expr, kill_on_suspend=True, calls=False):
    """Flow-sensitive resolution of `expr` as evaluated at CFG node `node_id`: definition facts holding there
    (aliases, pure temporaries), then single-definition expansion and constants."""
    from ..cfg import resolve_at

    facts = ctx.facts(func, kill_on_suspend=kill_on_suspend) if not kill_on_suspend else ctx.facts(func)
    return expand(ctx.prog, func, resolve_at(facts[node_id], expr), calls=calls)


def const_value(prog, func, expr):
    """Integer/str/bytes value of an expression after expansion, or None."""
    try:
        e = expand(prog, func, expr)
        return _eval_const(e)
    except Exception:  # noqa: BLE001 - any failure means "not a constant"
        return None


def _eval_const(e):
    if isinstance(e, ast.Constant):
        return e.value
    if isinstance(e, ast.Call) and unparse(e.func) in ("struct.calcsize", "calcsize") and len(e.args) == 1 and not e.keywords:
        import struct as _struct
        fmt_ = _eval_const(e.args[0])
        try:
            return _struct.calcsize(fmt_) if isinstance(fmt_, str) else None
        except _struct.error:
            return None
    if isinstance(e, ast.UnaryOp):
        v = _eval_const(e.operand)
        if v is None:
            return None
        return {ast.USub: lambda x: -x, ast.UAdd: lambda x: +x, ast.Invert: lambda x: ~x, ast.Not: lambda x: not x}[type(e.op)](v)
    if isinstance(e, ast.BinOp):
        a, b = _eval_const(e.left), _eval_const(e.right)
        if a is None or b is None:
            return None
        ops = {ast.Add: lambda x, y: x + y, ast.Sub: lambda x, y: x - y, ast.Mult: lambda x, y: x * y,
               ast.Pow: lambda x, y: x ** y if abs(y) < 128 else None, ast.LShift: lambda x, y: x << y if y < 128 else None,
               ast.RShift: lambda x, y: x >> y, ast.BitAnd: lambda x, y: x & y, ast.BitOr: lambda x, y: x | y,
               ast.BitXor: lambda x, y: x ^ y, ast.FloorDiv: lambda x, y: x // y, ast.Mod: lambda x, y: x % y}
        fn = ops.get(type(e.op))
        return fn(a, b) if fn else None
    return None


def node_local_writes(n):
    """local names / attribute chains (re)bound by CFG node n itself."""
    from ..model import local_writes_of_stmt

    if n.stmt is None or n.kind not in ("stmt", "for", "with"):
        return set()
    out = set(local_writes_of_stmt(n.stmt))
    if n.kind == "stmt" and isinstance(n.stmt, ast.AugAssign):
        c = attr_chain(n.stmt.target)
        if c:
            out.add(c)
    return out


def reaching_defs(cfg, nid, name):
    """CFG nodes that write `name` and from which node `nid` is reachable without another write to it in between."""
    writers = [n.id for n in cfg.nodes if name in node_local_writes(n)]
    out = []
    for w in writers:
        others = [o for o in writers if o != w and o != nid]
        if nid in cfg.reach([w], avoid=others):
            out.append(w)
    return out


def unchanged_between(cfg, a, b, name):
    """no write to `name` on any path from node a to node b (a and b themselves excluded)."""
    writers = [n.id for n in cfg.nodes if name in node_local_writes(n) and n.id not in (a, b)]
    for w in writers:
        if w in cfg.reach([a]) and b in cfg.reach([w]):
            return False
    return True


def fold(prog, func, e):
    """e with temporaries/constants expanded and every constant-valued integer sub-expression replaced by its literal."""
    e = expand(prog, func, e)

    class F(ast.NodeTransformer):
        def generic_visit(self, node):
            node = super().generic_visit(node)
            if isinstance(node, (ast.BinOp, ast.UnaryOp)):
                v = _eval_const(node)
                if isinstance(v, int) and not isinstance(v, bool):
                    return ast.copy_location(ast.Constant(value=v), node)
            return node

    return ast.fix_missing_locations(F().visit(e))


def path_values(cfg, src, dst, name, max_paths=4000):
    """[(conditions, value expr)] of local `name` on entry to node dst, one entry per loop-free path from src: the
    branch conditions taken along the path and the last value assigned to the name on it (None if not assigned or
    assigned by something other than a plain assignment).  A conditional expression splits into its two cases."""
    out = []
    for path in cfg.paths(src, dst, max_paths=max_paths, unroll=0, follow_exc=False):
        conds, val, seen = [], None, False
        for i, nid in enumerate(path[:-1]):
            n = cfg.nodes[nid]
            labs = [l for t, l in cfg.succ[nid] if t == path[i + 1]]
            if n.kind == "stmt" and name in node_local_writes(n):
                seen = True
                st = n.stmt
                val = st.value if isinstance(st, (ast.Assign, ast.AnnAssign)) and all(
                    isinstance(t, ast.Name) for t in (st.targets if isinstance(st, ast.Assign) else [st.target])) else None
            for lab in labs:
                if lab and lab[0] == "cond":
                    conds.append((lab[1], lab[2]))
        if isinstance(val, ast.IfExp):
            out.append((conds + [(val.test, True)], val.body))
            out.append((conds + [(val.test, False)], val.orelse))
        else:
            out.append((conds, val if seen else None))
    return out


def list_adds(func, cfg=None):
    """Every element-adding operation on a local list in func, in one normal form:
    (list name, element expr, iterated source expr or None, loop variable expr or None, call node).
    `acc.extend([E for v in S])`, `acc.extend(E for v in S)` and `for v in S: acc.append(E)` (append directly in the
    loop body) all give (acc, E, S, v); a plain `acc.append(E)` gives (acc, E, None, None)."""
    parents = {}
    for p_ in ast.walk(func.node):
        for ch in ast.iter_child_nodes(p_):
            parents[ch] = p_
    out = []
    for c in walk_body_shallow(func.body):
        if not (isinstance(c, ast.Call) and isinstance(c.func, ast.Attribute) and isinstance(c.func.value, ast.Name) and c.args):
            continue
        acc = c.func.value.id
        if c.func.attr == "extend":
            a = c.args[0]
            if isinstance(a, (ast.ListComp, ast.GeneratorExp)) and len(a.generators) == 1 and not a.generators[0].ifs:
                out.append((acc, a.elt, a.generators[0].iter, a.generators[0].target, c))
            else:
                out.append((acc, None, a, None, c))
        elif c.func.attr == "append":
            st = parents.get(c)
            lp = parents.get(st) if isinstance(st, ast.Expr) else None
            if isinstance(lp, ast.For) and st in lp.body and not lp.orelse and not any(
                    isinstance(x, (ast.Break, ast.Continue)) for x in ast.walk(lp)) and names_in(c.args[0]) & names_in(lp.target):
                out.append((acc, c.args[0], lp.iter, lp.target, c))
            else:
                out.append((acc, c.args[0], None, None, c))
    return out


def deferred_origins(cfg, nid, expr, _depth=0):
    """Where the Deferred denoted by `expr` at node `nid` was created: registration calls (`d.addErrback(...)` returns
    d) are stripped, locals are followed through their reaching definitions.  Returns a list of origin expressions
    (ast), or None when a definition cannot be followed."""
    if _depth > 8:
        return None
    e = expr
    while isinstance(e, ast.Call) and isinstance(e.func, ast.Attribute) and e.func.attr in REG_METHODS:
        e = e.func.value
    if isinstance(e, ast.Name):
        ds = reaching_defs(cfg, nid, e.id)
        if not ds:
            return None
        out = []
        for d in ds:
            st = cfg.nodes[d].stmt
            if not (isinstance(st, (ast.Assign, ast.AnnAssign)) and getattr(st, "value", None) is not None):
                return None
            tg = st.targets if isinstance(st, ast.Assign) else [st.target]
            v = st.value
            if not all(isinstance(t, (ast.Name, ast.Attribute)) for t in tg):
                return None
            sub = deferred_origins(cfg, d, v, _depth + 1)
            if sub is None:
                return None
            out.extend(sub)
        return out
    return [e]


def result_stored(cfg, n, call, attr):
    """The Deferred returned by `call` (made at node n) is kept in self.<attr>: by the statement itself, or by a store
    that every normal path from n passes (`d = self.f(); self.x = d`)."""
    if node_assign_value(n, attr) is not None:
        return True
    for sn in cfg.nodes:
        v = node_assign_value(sn, attr)
        if v is not None and not is_none_const(v):
            og = deferred_origins(cfg, sn.id, v) or []
            if any(o is call for o in og) and not cfg.normal_exits_from(n.id, avoid=[sn.id]):
                return True
    return False


def call_owner(call):
    """The Func whose own scope contains this call node (current program), or None."""
    prog = _CURRENT["prog"]
    if prog is None:
        return None
    if _CURRENT["owner"] is None:
        _recv_alias(call)  # builds the owner index
    return (_CURRENT["owner"] or {}).get(id(call))


def callee_expr(call):
    """The expression that denotes the callee, with a local that is bound once to a bound method / function
    (`handler = self.rejoin_after_error ... handler(f)`) replaced by what it was bound to."""
    f = call_owner(call)
    if f is None or not isinstance(call.func, ast.Name):
        return call.func
    e = expand(_CURRENT["prog"], f, call.func, consts=False)
    return e if isinstance(e, (ast.Attribute, ast.Name)) else call.func


def case_reach(cfg, p, case_cls, anc, stopping, sinks, flag_eval=None, start=None, avoid=()):
    """Is a node of `sinks` reachable from the entry when the handler runs for a failure of class `case_cls` with
    `self._stopping == stopping`?  Branches whose test evaluates (three-valued) under that case are pruned; boolean
    locals assigned from evaluable expressions are tracked along each path, so a test on a temporary or on the result
    of an inlined predicate helper prunes as the expression itself would."""
    ev = flag_eval or _eval_flag
    seen = set()
    stack = [(x_, ()) for x_ in (start if start is not None else [cfg.entry.id])]
    while stack:
        x, envt = stack.pop()
        if (x, envt) in seen:
            continue
        seen.add((x, envt))
        if x in sinks:
            return True
        if x in avoid:
            continue
        n = cfg.nodes[x]
        env = dict(envt)
        if n.kind == "stmt" and isinstance(n.stmt, (ast.Assign, ast.AnnAssign)) and getattr(n.stmt, "value", None) is not None:
            tg = n.stmt.targets if isinstance(n.stmt, ast.Assign) else [n.stmt.target]
            for t in tg:
                if isinstance(t, ast.Name):
                    v = ev(n.stmt.value, p, case_cls, anc, stopping, env)
                    if v is None:
                        env.pop(t.id, None)
                    else:
                        env[t.id] = v
        verdict = ev(n.stmt.test, p, case_cls, anc, stopping, env) if n.kind == "test" else None
        nxt = tuple(sorted(env.items()))
        for t, lab in cfg.succ[x]:
            if lab == ("exc",):
                continue
            if verdict is not None and lab and lab[0] == "cond" and lab[2] != verdict:
                continue
            stack.append((t, nxt))
    return False


def stored_attrs(cfg, call):
    """self attributes that receive the object created by `call` (directly, through a chained assignment, or through
    a local: `t = LoopingCall(f); self._looper = t`)."""
    out = set()
    for n in cfg.nodes:
        if n.kind != "stmt" or not isinstance(n.stmt, (ast.Assign, ast.AnnAssign)):
            continue
        tg = n.stmt.targets if isinstance(n.stmt, ast.Assign) else [n.stmt.target]
        attrs = [self_attr(t) for t in tg if self_attr(t)]
        if not attrs:
            continue
        og = deferred_origins(cfg, n.id, n.stmt.value) or []
        if len(og) == 1 and og[0] is call:
            out |= set(attrs)
    return out


def value_origins(cfg, nid, expr, params=(), _depth=0):
    """Where the value of `expr` at node `nid` comes from: [(node id, origin expr)] following locals through their
    reaching definitions (plain assignments only).  A parameter with no definition is its own origin at the entry.
    None when a definition cannot be followed."""
    if _depth > 8:
        return None
    if isinstance(expr, ast.Name):
        ds = reaching_defs(cfg, nid, expr.id)
        out = []
        if expr.id in params:
            # the parameter's initial value reaches nid unless every path redefines it
            writers = [n.id for n in cfg.nodes if expr.id in node_local_writes(n) and n.id != nid]
            if nid in cfg.reach([cfg.entry.id], avoid=writers):
                out.append((cfg.entry.id, expr))
        if not ds and not out:
            # never bound in this function: a global / module constant is its own origin
            bound_here = any(expr.id in node_local_writes(n) for n in cfg.nodes)
            return None if bound_here else [(nid, expr)]
        for d in ds:
            st = cfg.nodes[d].stmt
            if not (isinstance(st, (ast.Assign, ast.AnnAssign)) and getattr(st, "value", None) is not None):
                return None
            tg = st.targets if isinstance(st, ast.Assign) else [st.target]
            val = st.value
            if len(tg) == 1 and isinstance(tg[0], (ast.Tuple, ast.List)) and isinstance(val, ast.Name) and not any(
                    val.id in node_local_writes(n_) for n_ in cfg.nodes) and val.id not in params:
                # a, b = CONSTANT_TUPLE (module level, bound once)
                mc_ = getattr(getattr(cfg.func, "module", None), "constants", {}).get(val.id)
                if isinstance(mc_, (ast.Tuple, ast.List)):
                    val = mc_
            if len(tg) == 1 and isinstance(tg[0], (ast.Tuple, ast.List)) and isinstance(val, (ast.Tuple, ast.List)) and len(tg[0].elts) == len(val.elts):
                # a, b = x, y (the right-hand sides are evaluated before any target is bound: a swap reads the old values)
                hit = [v for t, v in zip(tg[0].elts, val.elts) if isinstance(t, ast.Name) and t.id == expr.id]
                if len(hit) != 1:
                    return None
                if isinstance(hit[0], ast.Name) and any(isinstance(t, ast.Name) and t.id == hit[0].id for t in tg[0].elts):
                    return None  # the value read is itself re-bound by this statement: not followed
                sub = value_origins(cfg, d, hit[0], params, _depth + 1) if isinstance(hit[0], ast.Name) else [(d, hit[0])]
                if sub is None:
                    return None
                out.extend(sub)
                continue
            if not all(isinstance(t, (ast.Name, ast.Attribute)) for t in tg):
                return None
            sub = value_origins(cfg, d, st.value, params, _depth + 1)
            if sub is None:
                return None
            out.extend(sub)
        return out
    return [(nid, expr)]


def resolved_facts(facts):
    """The must-facts with every local that a definition fact names replaced by its definition (so a fact about an
    alias reads as a fact about what it aliases); definition facts themselves are dropped."""
    from ..cfg import resolve_at

    out = set()
    for t, pol in facts:
        if t.startswith("(") and " := " in t:
            continue
        try:
            e = ast.parse(t, mode="eval").body
        except SyntaxError:
            out.add((t, pol))
            continue
        out.add((norm(resolve_at(facts, e), 400), pol))
    return out


def decision_table(ctx, func, atoms, targets):
    """For every truth assignment of the named atoms: can a node of `targets` be reached, and can the function
    complete normally without passing one?  atoms: {name: [equivalent expression texts]}.  Each test is resolved
    flow-sensitively (temporaries replaced by their definitions), then evaluated three-valued from the atoms
    (and / or / not / the atoms' texts, also with the comparison written the other way round); tests that do not
    evaluate keep both branches.  Returns {assignment tuple: (reachable, avoidable)} with assignment in the order of
    sorted(atoms)."""
    import itertools

    cf = ctx.cfg(func)
    names = sorted(atoms)
    text_of = {}
    for nm, texts in atoms.items():
        for t in texts:
            text_of[" ".join(t.split())] = nm

    def ev(e, val):
        t = norm(e, 400)
        if t in text_of:
            return val[text_of[t]]
        if isinstance(e, ast.Compare) and len(e.ops) == 1:
            flip = {ast.LtE: ast.GtE, ast.GtE: ast.LtE, ast.Lt: ast.Gt, ast.Gt: ast.Lt, ast.Eq: ast.Eq, ast.NotEq: ast.NotEq}.get(type(e.ops[0]))
            if flip:
                t2 = norm(ast.Compare(left=e.comparators[0], ops=[flip()], comparators=[e.left]), 400)
                if t2 in text_of:
                    return val[text_of[t2]]
        if isinstance(e, ast.UnaryOp) and isinstance(e.op, ast.Not):
            v = ev(e.operand, val)
            return None if v is None else (not v)
        if isinstance(e, ast.BoolOp):
            vs = [ev(x, val) for x in e.values]
            if isinstance(e.op, ast.And):
                if any(v is False for v in vs):
                    return False
                return True if all(v is True for v in vs) else None
            if any(v is True for v in vs):
                return True
            return False if all(v is False for v in vs) else None
        return None

    resolved = {n.id: at(ctx, func, n.id, n.stmt.test) for n in cf.nodes if n.kind == "test"}
    out = {}
    tset = set(targets)
    for combo in itertools.product((False, True), repeat=len(names)):
        val = dict(zip(names, combo))
        dead = set()
        for nid, e in resolved.items():
            v = ev(e, val)
            if v is not None:
                for t, lab in cf.succ[nid]:
                    if lab and lab[0] == "cond" and lab[2] != v:
                        dead.add((nid, t))

        def reach(avoid):
            seen, stack = set(), [cf.entry.id]
            while stack:
                x = stack.pop()
                if x in seen or x in avoid:
                    continue
                seen.add(x)
                for t, lab in cf.succ[x]:
                    if (x, t) not in dead and lab != ("exc",):
                        stack.append(t)
            return seen

        r_all = reach(set())
        out[combo] = (bool(r_all & tset), cf.exit.id in reach(tset))
    return names, out


def filtered_collects(func):
    """Collections built by filtering a source, in one normal form:
    (name, element expr, source expr, loop target, [condition exprs]) for `name = {E for t in S if C}` (set / list
    comprehension, one generator) and for `for t in S: if C: name.add(E)` / `.append(E)` (the add directly under the
    ifs, which are directly under the loop)."""
    out = []
    for x in walk_body_shallow(func.body):
        if isinstance(x, ast.Assign) and len(x.targets) == 1 and isinstance(x.targets[0], ast.Name) and isinstance(
                x.value, (ast.SetComp, ast.ListComp)) and len(x.value.generators) == 1:
            g = x.value.generators[0]
            out.append((x.targets[0].id, x.value.elt, g.iter, g.target, list(g.ifs)))
        if isinstance(x, ast.For) and not x.orelse:
            conds, body = [], x.body
            while len(body) == 1 and isinstance(body[0], ast.If) and not body[0].orelse:
                conds.append(body[0].test)
                body = body[0].body
            for st in body:
                if isinstance(st, ast.Expr) and isinstance(st.value, ast.Call) and isinstance(st.value.func, ast.Attribute) and \
                        st.value.func.attr in ("add", "append") and isinstance(st.value.func.value, ast.Name) and st.value.args:
                    out.append((st.value.func.value.id, st.value.args[0], x.iter, x.target, conds))
    return out


def isinstance_classes(prog, func, cond, var):
    """Class names C such that `cond` is true exactly when isinstance(var, C) for one of them: accepts
    isinstance(var, A), isinstance(var, (A, B)), a module constant naming such a tuple, and `or` of those."""
    if isinstance(cond, ast.BoolOp) and isinstance(cond.op, ast.Or):
        out = set()
        for v in cond.values:
            sub = isinstance_classes(prog, func, v, var)
            if sub is None:
                return None
            out |= sub
        return out
    if isinstance(cond, ast.Call) and isinstance(cond.func, ast.Name) and cond.func.id == "isinstance" and len(cond.args) == 2 and \
            norm(cond.args[0]) == var:
        c = expand(prog, func, cond.args[1])
        elts = c.elts if isinstance(c, (ast.Tuple, ast.List)) else [c]
        return {unparse(e).split(".")[-1] for e in elts}
    return None


def concrete_values(cfg, target_id, expr, env0, max_states=4000):
    """Values `expr` can take when control reaches node `target_id`, the function being entered with the integer
    locals `env0` (everything else unknown): the CFG is walked from the entry, integer assignments and conditional
    expressions over known integers are evaluated, tests over known integers prune the other branch, tests that
    involve anything unknown keep both.  Returns a set of values; None stands for `not computable on some path`."""
    def ev(e, env):
        try:
            names = {n.id for n in ast.walk(e) if isinstance(n, ast.Name)}
            if not names <= set(env):
                return None
            if any(isinstance(n, (ast.Call, ast.Attribute, ast.Subscript, ast.Yield, ast.Await, ast.Lambda)) for n in ast.walk(e)):
                return None
            return eval(compile(ast.Expression(ast.fix_missing_locations(_copy_expr(e))), "<v>", "eval"), {"__builtins__": {}}, dict(env))
        except Exception:  # noqa: BLE001
            return None

    out = set()
    seen = set()
    stack = [(cfg.entry.id, tuple(sorted(env0.items())))]
    while stack and len(seen) < max_states:
        x, envt = stack.pop()
        if (x, envt) in seen:
            continue
        seen.add((x, envt))
        env = dict(envt)
        n = cfg.nodes[x]
        if x == target_id:
            out.add(ev(expr, env))
            continue
        if n.kind == "stmt" and isinstance(n.stmt, (ast.Assign, ast.AnnAssign, ast.AugAssign)):
            st = n.stmt
            tg = st.targets if isinstance(st, ast.Assign) else [st.target]
            for t in tg:
                if isinstance(t, ast.Name):
                    val = st.value if not isinstance(st, ast.AugAssign) else ast.BinOp(left=ast.Name(id=t.id, ctx=ast.Load()), op=st.op, right=st.value)
                    v = ev(val, env) if val is not None else None
                    if isinstance(v, (int, bool)):
                        env[t.id] = v
                    else:
                        env.pop(t.id, None)
                elif isinstance(t, (ast.Tuple, ast.List)):
                    rhs = st.value if isinstance(st, ast.Assign) and isinstance(st.value, (ast.Tuple, ast.List)) and len(
                        st.value.elts) == len(t.elts) else None
                    vals_ = [ev(x_, env) for x_ in rhs.elts] if rhs is not None else [None] * len(t.elts)  # right-hand sides first
                    for e_, v in zip(t.elts, vals_):
                        if isinstance(e_, ast.Name):
                            if isinstance(v, (int, bool)):
                                env[e_.id] = v
                            else:
                                env.pop(e_.id, None)
        elif n.kind in ("for", "with"):
            for nm in node_local_writes(n):
                env.pop(nm, None)
        verdict = ev(n.stmt.test, env) if n.kind == "test" else None
        nxt = tuple(sorted(env.items()))
        for t, lab in cfg.succ[x]:
            if lab == ("exc",):
                continue
            if verdict is not None and lab and lab[0] == "cond" and bool(verdict) != lab[2]:
                continue
            stack.append((t, nxt))
    return out


def stored_forms(ctx, func, attr):
    """Normalised texts of every value that can be stored into self.<attr> by func, with parameters written as
    <param:NAME> (locals followed through their reaching definitions; only a *whole* expression that is a parameter is
    rewritten, parameters inside larger expressions keep their names)."""
    cfg = ctx.cfg(func)
    out = []
    for wn in [n for n in cfg.nodes if node_assign_value(n, attr) is not None]:
        out.append(origin_text(cfg, wn.id, node_assign_value(wn, attr), func.params))
    return out


def origin_text(cfg, nid, expr, params, _depth=0):
    """Text of `expr` at node nid with every local replaced by where its value comes from: <param:NAME> for an
    unmodified parameter, the (recursively rewritten) defining expression for a local with one origin, <several>
    otherwise.  Globals and attribute chains are left as written."""
    import copy

    class T(ast.NodeTransformer):
        def visit_Name(self, node):
            if not isinstance(node.ctx, ast.Load) or _depth > 6:
                return node
            og = value_origins(cfg, nid, node, params=params)
            if not og:
                return ast.Name(id="<untraceable %s>" % node.id, ctx=ast.Load())
            if len(og) > 1:
                return ast.Name(id="<several %s>" % node.id, ctx=ast.Load())
            n_, e = og[0]
            if isinstance(e, ast.Name):
                if n_ == cfg.entry.id and e.id in params:
                    return ast.Name(id="<param:%s>" % e.id, ctx=ast.Load())
                return e  # a global
            return ast.Name(id="(" + origin_text(cfg, n_, e, params, _depth + 1) + ")", ctx=ast.Load())

        def visit_Lambda(self, node):
            return node

    return norm(T().visit(copy.deepcopy(expr)), 400)


__all__ = [n for n in dir() if not n.startswith("_")]


def table_loop(ctx, func, loop_node):
    """Normal form of a `for` over a mapping: dict(table, mode, copy, ordered, key, val) or None.
    `for v in list(T.values())`, `for k, v in T.items()`, `for k in T` / `list(T)` / `T.keys()`, with T resolved through
    aliases (`t = self.requests; for ... in list(t.items())`).  copy: the iteration runs over a snapshot (list/tuple/
    .copy()); ordered: the snapshot keeps the mapping's own order (no sorted/reversed/set)."""
    st = loop_node.stmt
    if not isinstance(st, ast.For):
        return None
    cfg_ = ctx.cfg(func)
    nid_ = [loop_node.id]

    def follow(e):
        # a local bound once to the thing iterated (`snapshot = list(t.values()); for x in snapshot`)
        for _ in range(4):
            e = at(ctx, func, nid_[0], e)
            if not isinstance(e, ast.Name):
                break
            og = value_origins(cfg_, nid_[0], e, params=func.params)
            if not og or len(og) != 1 or og[0][1] is e or (isinstance(og[0][1], ast.Name) and og[0][1].id == e.id):
                break
            nid_[0], e = og[0]
        return e

    it = follow(st.iter)
    copy = False
    ordered = True
    while True:
        it = follow(it)
        if isinstance(it, ast.Call) and isinstance(it.func, ast.Name) and len(it.args) == 1 and not it.keywords:
            if it.func.id in ("list", "tuple"):
                copy = True
                it = it.args[0]
                continue
            if it.func.id in ("sorted", "reversed", "set", "frozenset"):
                copy = True
                ordered = False
                it = it.args[0]
                continue
            if it.func.id == "iter":
                it = it.args[0]
                continue
        break
    mode = "keys"
    if isinstance(it, ast.Call) and isinstance(it.func, ast.Attribute) and it.func.attr in ("values", "items", "keys") and not it.args:
        mode = it.func.attr
        it = follow(it.func.value)
    if isinstance(it, ast.Call) and isinstance(it.func, ast.Attribute) and it.func.attr == "copy" and not it.args:
        copy = True
        it = follow(it.func.value)
    if not isinstance(it, (ast.Attribute, ast.Name)):
        return None
    key = val = None
    tg = st.target
    if mode == "values" and isinstance(tg, ast.Name):
        val = tg.id
    elif mode == "keys" and isinstance(tg, ast.Name):
        key = tg.id
    elif mode == "items" and isinstance(tg, ast.Tuple) and len(tg.elts) == 2 and all(isinstance(e, ast.Name) for e in tg.elts):
        key, val = tg.elts[0].id, tg.elts[1].id
    else:
        return None
    return {"table": unparse(it), "mode": mode, "copy": copy, "ordered": ordered, "key": key, "val": val}


def table_deletes(ctx, func, cfg, table):
    """Nodes that remove one entry of the mapping `table` (`del T[k]`, `T.pop(k...)`), T resolved through aliases:
    [(node, key expr)]."""
    out = []
    for n in cfg.nodes:
        if n.kind == "stmt" and isinstance(n.stmt, ast.Delete):
            for t in n.stmt.targets:
                if isinstance(t, ast.Subscript) and unparse(at(ctx, func, n.id, t.value)) == table:
                    out.append((n, t.slice))
        for c in n.calls():
            if call_name(c) == "pop" and isinstance(c.func, ast.Attribute) and c.args and unparse(at(ctx, func, n.id, c.func.value)) == table:
                out.append((n, c.args[0]))
    return out


def slice_bounds(prog, func, sub):
    """(lower, upper) integer bounds of a subscript that takes a constant slice, else None: `x[4:8]`, bounds through
    constants, or a slice object named by a constant (`_ID = slice(4, 8); x[_ID]`).  A missing lower bound is 0."""
    sl = sub.slice
    if not isinstance(sl, ast.Slice):
        e = expand(prog, func, sl)
        if isinstance(e, ast.Name) and isinstance(module_const(func, e.id), ast.Call):
            e = module_const(func, e.id)
        if isinstance(e, ast.Call) and isinstance(e.func, ast.Name) and e.func.id == "slice" and not e.keywords and 1 <= len(e.args) <= 2:
            lo, hi = (ast.Constant(value=0), e.args[0]) if len(e.args) == 1 else (e.args[0], e.args[1])
            if isinstance(lo, ast.Constant) and lo.value is None:
                lo = ast.Constant(value=0)
        else:
            return None
    else:
        if sl.step is not None:
            return None
        lo, hi = sl.lower or ast.Constant(value=0), sl.upper
    if hi is None:
        return None
    a, b = const_value(prog, func, lo), const_value(prog, func, hi)
    if isinstance(a, int) and isinstance(b, int):
        return a, b
    return None


def tri_eval(test, leaf, env=None):
    """Three-valued evaluation of a condition: `leaf(expr)` decides the atoms it knows (True/False) and returns None for
    the rest; constants, boolean locals in `env`, not/and/or, and comparisons of a decided atom with None compose."""
    env = env or {}
    if isinstance(test, ast.Constant) and isinstance(test.value, bool):
        return test.value
    if isinstance(test, ast.Name) and test.id in env:
        return env[test.id]
    v = leaf(test)
    if v is not None:
        return v
    if isinstance(test, ast.UnaryOp) and isinstance(test.op, ast.Not):
        v = tri_eval(test.operand, leaf, env)
        return None if v is None else (not v)
    if isinstance(test, ast.BoolOp):
        vals = [tri_eval(x, leaf, env) for x in test.values]
        if isinstance(test.op, ast.And):
            if any(x is False for x in vals):
                return False
            return True if all(x is True for x in vals) else None
        if any(x is True for x in vals):
            return True
        return False if all(x is False for x in vals) else None
    if isinstance(test, ast.Call) and isinstance(test.func, ast.Name) and test.func.id == "bool" and len(test.args) == 1:
        return tri_eval(test.args[0], leaf, env)
    return None


def handler_for(prog, cfg, try_stmt, cls, anc):
    """The `except` node of `try_stmt` that catches an exception of class `cls` (first match in source order)."""
    for h in try_stmt.handlers:
        names = ["BaseException"] if h.type is None else [unparse(e).split(".")[-1] for e in (h.type.elts if isinstance(h.type, ast.Tuple) else [h.type])]
        ex = []
        for nm in names:
            c = None
            f_ = cfg.func
            e_ = expand(prog, f_, ast.Name(id=nm, ctx=ast.Load())) if nm.isidentifier() else None
            if isinstance(e_, (ast.Tuple, ast.List)):
                ex += [unparse(x).split(".")[-1] for x in e_.elts]
            else:
                ex.append(nm)
        if any(nm in anc.get(cls, {cls}) or nm in ("Exception", "BaseException") for nm in ex):
            ns = [n for n in cfg.nodes if n.kind == "except" and n.stmt is h]
            return ns[0] if ns else None
    return None


def leaf_origins(cfg, nid, expr, params=(), _depth=0):
    """The attribute chains / constants / parameters / globals the value of `expr` at node nid is computed from, locals
    followed through ALL their reaching definitions (a local assigned in several arms contributes every arm): a set of
    texts, or None when some definition cannot be followed."""
    if _depth > 8:
        return None
    out = set()
    if isinstance(expr, ast.Name):
        og = value_origins(cfg, nid, expr, params=params)
        if og is None:
            return None
        for n_, e in og:
            if isinstance(e, ast.Name):
                out.add("<param:%s>" % e.id if (n_ == cfg.entry.id and e.id in params) else e.id)
            else:
                sub = leaf_origins(cfg, n_, e, params, _depth + 1)
                if sub is None:
                    return None
                out |= sub
        return out
    if isinstance(expr, ast.Constant):
        return {repr(expr.value)}
    if isinstance(expr, ast.Attribute):
        return {unparse(expr)}
    if isinstance(expr, (ast.BinOp, ast.UnaryOp, ast.BoolOp, ast.IfExp, ast.Compare, ast.Tuple)):
        for ch in ast.iter_child_nodes(expr):
            if isinstance(ch, (ast.operator, ast.unaryop, ast.boolop, ast.cmpop, ast.expr_context)):
                continue
            sub = leaf_origins(cfg, nid, ch, params, _depth)
            if sub is None:
                return None
            out |= sub
        return out
    if isinstance(expr, ast.Call) and isinstance(expr.func, ast.Name) and expr.func.id in ("min", "max", "float", "int", "abs") and not expr.keywords:
        for a in expr.args:
            sub = leaf_origins(cfg, nid, a, params, _depth)
            if sub is None:
                return None
            out |= sub
        return out
    return {unparse(expr)}


def nodes_reached_with(cfg, env):
    """CFG node ids reachable from the entry when the locals in `env` (name -> int/bool/str constant) have those values
    and are not reassigned: tests that mention only those names are decided, every other test goes both ways."""
    names = set(env)
    rebinds = {n_.id for n_ in cfg.nodes if names & set(node_local_writes(n_))}
    seen = set()
    stack = [cfg.entry.id]
    while stack:
        x = stack.pop()
        if x in seen:
            continue
        seen.add(x)
        n = cfg.nodes[x]
        verdict = None
        if n.kind == "test" and not rebinds:
            t = n.stmt.test
            used = {y.id for y in ast.walk(t) if isinstance(y, ast.Name)}
            if used and used <= names and not any(isinstance(y, (ast.Call, ast.Attribute, ast.Subscript)) for y in ast.walk(t)):
                try:
                    verdict = bool(eval(compile(ast.Expression(body=t), "<cond>", "eval"), {"__builtins__": {}}, dict(env)))
                except Exception:  # noqa: BLE001
                    verdict = None
        for t_, lab in cfg.succ[x]:
            if lab == ("exc",):
                continue
            if verdict is not None and lab and lab[0] == "cond" and lab[2] != verdict:
                continue
            stack.append(t_)
    return seen


def value_cases(ctx, func, node, expr):
    """[(facts, value expr)]: the value of `expr` at `node` case by case - a conditional expression is split into its
    arms, each with the guard facts of the node plus what the arm's test outcome implies."""
    from ..cfg import cond_atoms
    base = frozenset(ctx.facts(func)[node.id])
    out = []

    def split(e, extra):
        if isinstance(e, ast.IfExp):
            split(e.body, extra | cond_atoms(at(ctx, func, node.id, e.test), True) | cond_atoms(e.test, True))
            split(e.orelse, extra | cond_atoms(at(ctx, func, node.id, e.test), False) | cond_atoms(e.test, False))
        else:
            out.append((base | extra, e))
    split(expr, frozenset())
    return out


def return_cases(ctx, func):
    """[(node, facts, value expr)] for every value the function can return (conditional expressions split)."""
    cf = ctx.cfg(func)
    out = []
    for n in cf.nodes:
        if n.kind == "stmt" and isinstance(n.stmt, ast.Return) and n.stmt.value is not None:
            for f_, e in value_cases(ctx, func, n, n.stmt.value):
                out.append((n, f_, e))
    return out


def table_stores(ctx, func, table):
    """Nodes of func that store one entry into the mapping `table` (`T[k] = v`, `T.setdefault(k, v)`, `T.update({k: v})`),
    T resolved through aliases (`t = self.requests; t[k] = v`): [(node, key expr, value expr or None)]."""
    cfg = ctx.cfg(func)
    out = []
    for n in cfg.nodes:
        if n.kind == "stmt" and isinstance(n.stmt, ast.Assign):
            for t in n.stmt.targets:
                if isinstance(t, ast.Subscript) and unparse(at(ctx, func, n.id, t.value)) == table:
                    out.append((n, t.slice, n.stmt.value))
        for c in n.calls():
            if isinstance(c.func, ast.Attribute) and c.func.attr in ("setdefault", "__setitem__") and c.args and unparse(
                    at(ctx, func, n.id, c.func.value)) == table:
                out.append((n, c.args[0], c.args[1] if len(c.args) > 1 else None))
    return out


def table_writers(ctx, cls_info, table):
    """[(func, node, key, value)] over every function of the class (nested ones included)."""
    out = []
    for f in sorted([x for x in ctx.prog.funcs.values() if x.cls is cls_info], key=lambda x: x.qname):
        for n, k, v in table_stores(ctx, f, table):
            out.append((f, n, k, v))
    return out


def facts_imply(prog, func, facts, atoms, goal):
    """Do the guard facts imply `goal`?  `atoms` names the propositions of interest: {"a": "m.leader == -1", "b": "m.leader in
    brokers"}; `goal` is a predicate over an assignment {"a": bool, "b": bool}.  Every fact is read with the locals it
    mentions replaced by their definitions and constants folded; a fact that is a boolean combination (not / and / or,
    `!=` as the negation of `==`, `not in` as the negation of `in`, `is not` of `is`) of the named atoms constrains the
    assignments, any other fact is ignored.  True iff the goal holds under every assignment the facts allow (and they
    exclude at least one: an unconstrained goal is not "implied")."""
    import itertools
    from ..cfg import resolve_at

    names = sorted(atoms)
    canon = {}
    for k, t in atoms.items():
        canon[norm(fold(prog, func, ast.parse(t, mode="eval").body), 400)] = k

    def flip(e):
        if isinstance(e, ast.Compare) and len(e.ops) == 1:
            op = e.ops[0]
            alt = {ast.NotEq: ast.Eq, ast.NotIn: ast.In, ast.IsNot: ast.Is}.get(type(op))
            if alt is not None:
                return ast.Compare(left=e.left, ops=[alt()], comparators=e.comparators)
        return None

    def make_leaf(env):
        def leaf(t):
            tx = norm(t, 400)
            if tx in canon:
                return env[canon[tx]]
            f_ = flip(t)
            if f_ is not None and norm(f_, 400) in canon:
                return not env[canon[norm(f_, 400)]]
            return None
        return leaf

    usable = []
    for t, pol in facts:
        if t.startswith("(") and " := " in t:
            continue
        try:
            e = fold(prog, func, resolve_at(facts, ast.parse(t, mode="eval").body))
        except (SyntaxError, ValueError):
            continue
        usable.append((e, pol))
    allowed = []
    for vals in itertools.product([False, True], repeat=len(names)):
        env = dict(zip(names, vals))
        lf = make_leaf(env)
        ok = True
        for e, pol in usable:
            v = tri_eval(e, lf)
            if v is not None and v != pol:
                ok = False
                break
        if ok:
            allowed.append(env)
    return len(allowed) < 2 ** len(names) and all(goal(env) for env in allowed)


def provenance_texts(ctx, func, node, expr):
    """Texts of what the value of `expr` at `node` is computed from: locals followed back through their reaching
    definitions (never through an attribute that merely holds the same value at that point), single-definition
    temporaries named by what they hold; an unmodified parameter is `<param:i>`; `<untraceable>` when a definition
    cannot be followed."""
    cfg = ctx.cfg(func)
    og = value_origins(cfg, node.id, expr, params=func.params)
    out = []
    for n_, e in (og or [(None, None)]):
        if e is None:
            out.append("<untraceable>")
        elif n_ == cfg.entry.id and isinstance(e, ast.Name) and e.id in func.params:
            out.append("<param:%d>" % func.params.index(e.id))
        else:
            out.append(norm(expand(ctx.prog, func, e, calls=True)))
    return out


def root_name(e):
    """the variable an attribute / subscript / call chain starts from (`a` of `a[i].b(c)[j]`), or None"""
    while True:
        if isinstance(e, (ast.Attribute, ast.Subscript, ast.Starred)):
            e = e.value
        elif isinstance(e, ast.Call):
            e = e.func
        elif isinstance(e, ast.Name):
            return e.id
        else:
            return None


def given_value_problems(ctx, ci, attr, param=None):
    """Is `self.<attr>` what the constructor was given?  Returns a list of problems (empty = yes): the attribute is
    written only in __init__, and every value stored there originates (through local copies) from the constructor
    parameter `param` (default: any constructor parameter) untouched or through int()/float(), or is a literal (the fixed value of a mode in which
    the parameter does not apply).  `x or DEFAULT`, `max(x, 1)`, `int(x)` are all *not* the given value."""
    prog = ctx.prog
    ws = [(f_, node) for f_, k, node in prog.attr_accesses(ci, attr, False) if k in ("write", "aug", "del")]
    inits = [(f_, node) for f_, node in ws if f_.name == "__init__"]
    others = [(f_, node) for f_, node in ws if f_.name != "__init__"]
    out = []
    if not inits:
        out.append(("never stored by the constructor", None, None))
    for f_, node in others:
        out.append(("written outside the constructor, in %s" % f_.qname, f_, node))
    for f_, node in inits:
        cf_ = ctx.cfg(f_)
        hit = cf_.containing(node)
        if not hit:
            continue
        st_ = hit[0].stmt
        if not isinstance(st_, ast.Assign):
            out.append(("stored by `%s`, not by a plain assignment" % norm(st_, 60), f_, node))
            continue
        og = value_origins(cf_, hit[0].id, st_.value, params=f_.params)
        if og is None:
            out.append(("the stored value `%s` cannot be followed to its origin" % norm(st_.value, 60), f_, node))
            continue
        def is_param(dn_, e_):
            return isinstance(e_, ast.Name) and dn_ == cf_.entry.id and (e_.id == param if param else e_.id in f_.params)
        for dn, e in og:
            if is_param(dn, e):
                continue
            if isinstance(e, ast.Constant) or (isinstance(e, ast.UnaryOp) and isinstance(e.operand, ast.Constant)):
                continue
            if isinstance(e, ast.Call) and isinstance(e.func, ast.Name) and e.func.id in ("int", "float") and len(e.args) == 1 and not e.keywords:
                # a type coercion of the given value
                sub = value_origins(cf_, dn, e.args[0], params=f_.params)
                if sub and all(is_param(d2, e2) for d2, e2 in sub):
                    continue
            out.append(("the stored value comes from `%s`, not from %s as given" % (norm(e, 70), "the parameter `%s`" % param if param else "a constructor parameter"), f_, node))
    return out


def value_leaves(cfg, nid, expr, params=(), _depth=0):
    """value_origins, with conditional expressions split into their arms (`a if c else b` contributes the origins of a
    and of b) and `x or y` / `x and y` into their operands: [(node id, leaf expr)], or None."""
    if _depth > 6:
        return None
    og = value_origins(cfg, nid, expr, params=params)
    if og is None:
        return None
    out = []
    for d_, e_ in og:
        if isinstance(e_, ast.IfExp):
            subs = [e_.body, e_.orelse]
        elif isinstance(e_, ast.BoolOp):
            subs = list(e_.values)
        else:
            out.append((d_, e_))
            continue
        for sub in subs:
            r_ = value_leaves(cfg, d_, sub, params, _depth + 1) if isinstance(sub, (ast.Name, ast.IfExp, ast.BoolOp)) else [(d_, sub)]
            if r_ is None:
                return None
            out.extend(r_)
    return out


def role_candidates(ctx, owner):
    """Functions that can play the role of a closure of `owner`: its nested functions, plus the functions of the same
    unit that are not part of the reference tree (helpers a refactoring introduced) and that `owner` reaches by calls
    or by registering them as callbacks - a closure lifted out into a private method is still found by what it does."""
    from .. import normalize
    prog = ctx.prog
    ref = normalize.reference().get(owner.module.name, set())
    out = list(owner.nested.values())
    for g in reachable_funcs(prog, owner, follow_registered=True, depth=4).values():
        if g is owner or g in out or g.module is not owner.module:
            continue
        q = g.qname.split(":", 1)[1] if ":" in g.qname else g.qname
        if q not in ref:
            out.append(g)
    return out


def producer_roles(ctx):
    """The helpers of Producer._handle_send_response by what they do (nested closures today; private methods or module
    functions after a refactoring): deliver (fires caller Deferreds under `not called`), check_retry (decides between
    failing the sends and scheduling a retry: the one that arms the timer), do_retry (re-sends through the client)."""
    prog = ctx.prog
    hsr = ctx.func("producer:Producer._handle_send_response")
    cands = role_candidates(ctx, hsr)

    def one(pred, prefer):
        hit = [g for g in cands if pred(g)]
        named = [g for g in hit if g.name == prefer]
        return named[0] if named else (hit[0] if len(hit) == 1 else None)
    deliver = one(lambda g: any(call_name(c) == "callback" for c in calls_in(g)) and not any(call_name(c) in ("callLater", "send_produce_request") for c in calls_in(g)),
                  "_deliver_result")
    check_retry = one(lambda g: any(call_name(c) == "callLater" for c in calls_in(g)), "_check_retry_payloads")
    do_retry = one(lambda g: any(call_name(c) == "send_produce_request" for c in calls_in(g)), "_do_retry")
    return {"deliver": deliver, "check_retry": check_retry, "do_retry": do_retry}


__all__ = [n for n in dir() if not n.startswith("_")]

"""C01 - producer acknowledgements are truthful and fire exactly once.

Decided: *what kind of value* may reach `.callback` / `.errback` of a caller's
Deferred (value-kind dataflow through the response handler and its nested
helpers), that the success value names the partition whose table entry is
fired, that every fire site is guarded against a second fire, that early exits
deliver to every Deferred of the batch, and that attempt exhaustion delivers
to the Deferreds of every failed payload and schedules nothing.
Not decided: replies covering fewer partitions than were sent; message bytes.
"""
import ast

from .. import kinds as K
from ..model import AnalysisError, unparse, walk_body_shallow
from .util import *  # noqa: F401,F403
from .util import call_name, call_recv, calls_in, need, norm, registrations, where

TECHNIQUE = "value-kind dataflow to Deferred.callback/errback, must-hold fire guards, CFG dominance of early exits"
EXPLANATION = (
    "Forward value-kind abstract interpretation (NONE / FAILURE / EXC / RESP / RESP_OK / lists / tuples / "
    "DeferredList pairs) over Producer._handle_send_response, its nested helpers, _send_requests and the canceller; "
    "sinks are every .callback/.errback on a caller's Deferred. Plus def-use of the success key, must-hold "
    "`not d.called` facts at each fire site, dominance of early returns by a deliver-to-all call, and the "
    "exhaustion arm. A success carrying a bare exception object, an unguarded second fire, or an exit that forgets "
    "Deferreds each break the property for a concrete schedule (witness in each report)."
    " Also: a failure of the send stage of a batch must reach every caller of that batch before a stage absorbs it (R8, known finding F40); the rules find the handler's helpers by role, nested or lifted out."
)
SHARED = [('C04', ['R1'], 'a produce request containing exactly those messages: every payload\'s message set is written under its own topic and partition'),
          ('C09', ['R1'], 'sends made while a batch is in flight are dispatched once it has resolved'), ('C04', ['R3'], 'the acknowledged request contains exactly the keys and values that were sent (null and empty kept apart)'), ('C09', ['R5'], 'an unroutable topic fails the send: every round of the metadata wait counts against the attempt limit'), ('C07', ['R5'], 'every payload handed to the client comes back answered or on the failed list, so every send is delivered a result or retried'), ('C09', ['R3'], 'the reply to a retried payload is delivered to the sends it belongs to (the retry handler gets the table of this attempt)'), ('C19', ['R4'], 'nothing is dispatched, and no send is left pending, once stop() has begun'), ('C09', ['R2'], 'the acknowledged request carries exactly the submitted messages, keys and order'), ('C11', ['R1'], 'a send that expects no reply still completes or fails within the client timeout'), ('C19', ['R2'], 'queue accounting: a queued send is eventually dispatched, so its Deferred fires')]
ASSUMPTIONS = [
    "Twisted: Deferred.callback(x) with x not a Failure is a success; callback(Failure) behaves as errback",
    "KafkaClient.send_produce_request fires with a list of ProduceResponse (possibly empty/None with acks=0) or fails",
    "DeferredList(consumeErrors=True) yields (success, value|Failure) pairs",
]

PROD = "producer:Producer"
ALLOWED_CALLBACK = {K.RESP_OK, K.FAILURE, "NONE@acks_not_required"}
ALLOWED_ERRBACK = {K.FAILURE, K.EXC}


def _failed_payloads_summary(ctx):
    """C01.R6: element kind of FailedPayloadsError.args[1], from client.py."""
    prog = ctx.prog
    f = ctx.func("client:KafkaClient._send_broker_aware_request")
    cf = ctx.cfg(f)
    facts = ctx.facts(f, kill_on_suspend=False)
    raises = [n for n in cf.nodes if n.kind == "stmt" and isinstance(n.stmt, ast.Raise) and isinstance(
        n.stmt.exc, ast.Call) and call_name(n.stmt.exc) == "FailedPayloadsError"]
    need(len(raises) == 1, "raise FailedPayloadsError(...) not found exactly once in %s" % f.qname)
    exc = raises[0].stmt.exc
    need(len(exc.args) == 2 and isinstance(exc.args[1], ast.Name), "FailedPayloadsError args not (responses, name)")
    fname = exc.args[1].id
    muts = []
    for n in cf.nodes:
        for c in n.calls():
            if call_recv(c) == fname and call_name(c) in ("append", "extend"):
                muts.append((n, c))
    ok = bool(muts)
    details = []
    for n, c in muts:
        # element must be (payload, <value var>) where value var is the DeferredList value on the not-success arm
        arg = c.args[0]
        elt = arg.elt if isinstance(arg, ast.ListComp) else (arg if isinstance(arg, ast.Tuple) else None)
        good = False
        res_loop = None
        if isinstance(elt, ast.Tuple) and len(elt.elts) == 2 and isinstance(elt.elts[1], ast.Name):
            val = elt.elts[1].id
            # find the for loop destructuring (flag, val)
            for m in cf.nodes:
                if m.kind == "for" and isinstance(m.stmt.target, ast.Tuple):
                    t0 = m.stmt.target.elts[0]
                    if isinstance(t0, ast.Tuple) and len(t0.elts) == 2 and unparse(t0.elts[1]) == val:
                        flag = unparse(t0.elts[0])
                        it = unparse(m.stmt.iter)
                        src_ok = False
                        if it.startswith("zip(") and isinstance(m.stmt.iter, ast.Call) and m.stmt.iter.args:
                            rv = unparse(m.stmt.iter.args[0])
                            for a in walk_body_shallow(f.body):
                                if isinstance(a, ast.Assign) and unparse(a.targets[0]) == rv and isinstance(
                                        a.value, ast.Yield) and isinstance(a.value.value, ast.Call) and call_name(
                                        a.value.value) == "DeferredList":
                                    src_ok = True
                        if src_ok and (flag, False) in facts[n.id]:
                            good = True
                            res_loop = m
        if not good and isinstance(elt, ast.Tuple) and len(elt.elts) == 2:
            # ... or a Failure constructed right there (a payload the reply left out: accounted for by C07.R5)
            og_ = value_origins(cf, n.id, elt.elts[1], params=f.params) or []
            if og_ and all(isinstance(v_, ast.Call) and call_name(v_) == "Failure" and v_.args for _dn, v_ in og_):
                details.append("%s constructed-failure=True" % norm(c, 70))
                continue
        # ... and for EVERY failed result: inside the result loop the statement depends on the flag alone
        loops = [res_loop] if res_loop is not None else []
        if loops:
            lbody = cf.reach([loops[-1].id], avoid=[t for t, lab in cf.succ[loops[-1].id] if lab == ("iter", False)])
            deps = sorted(norm(t.stmt.test) for t, lab in cf.control_deps_transitive(n.id, within=lbody) if t.kind == "test")
            if len(deps) != 1:
                good = False
                details.append("recording depends on %s" % deps)
        details.append("%s guarded-by-not-success=%s" % (norm(c, 70), good))
        ok = ok and good
    return ok, details, f, raises[0]


def run(ctx):
    prog = ctx.prog
    hsr = ctx.func(PROD + "._handle_send_response")
    sreq = ctx.func(PROD + "._send_requests")
    canc = ctx.func(PROD + "._cancel_send_messages")
    sendm = ctx.func(PROD + ".send_messages")

    # ---- R6 first: the client summary the kind analysis relies on
    r6 = ctx.rule("R6", "FailedPayloadsError.args[1] pairs carry Failures (client summary recomputed from source)",
                  1, "D")
    ok6, det, cf6, rnode = _failed_payloads_summary(ctx)
    r6.check(ok6, "client:KafkaClient._send_broker_aware_request#FailedPayloadsError.args[1]",
             "failed payload pairs are not provably (payload, Failure) from the not-success arm of DeferredList",
             where(cf6, rnode.stmt), facts=det)

    # ---- R1 kinds reaching callback / errback
    r = ctx.rule("R1", "only acknowledged responses, Failures, or None-with-acks-disabled reach a caller "
                       "Deferred's callback; only Failures/exceptions reach errback", 4, "D")

    def sub_summary(func, e, state):
        t = norm(e)
        if t.endswith(".value.args[0]"):
            return K.fs(K.mk_list(K.fs(K.RESP)))
        if t.endswith(".value.args[1]"):
            return K.fs(K.mk_list(K.fs(("TUP", (K.fs(K.ANY), K.fs(K.FAILURE if ok6 else K.ANY))))))
        return None

    rp = hsr.first_param()
    # the handler must be registered with addBoth on the produce request (gets list or Failure)
    regs = []
    for f in (sreq, hsr) + tuple(role_candidates(ctx, hsr)):
        for reg in registrations(f, prog):
            if reg["cb"] is not None and unparse(reg["cb"]) == "self." + hsr.name:
                regs.append((f, reg))
    need(regs, "_handle_send_response is never registered")
    ka = K.KindAnalysis(
        ctx, hsr, {rp: K.fs(K.mk_list(K.fs(K.RESP)), K.NONE, K.FAILURE)},
        guard_tags=[("self.req_acks == PRODUCER_ACK_NOT_REQUIRED", "acks_not_required")],
        subscript_summary=sub_summary, extra_funcs=[g_ for g_ in role_candidates(ctx, hsr) if g_.parent is None])
    # _send_requests: first param is a DeferredList result iff the preceding stage returns DeferredList(...)
    sb = ctx.func(PROD + "._send_batch")
    dl_fed = False
    rr = registrations(sb, prog)
    for i, reg in enumerate(rr):
        if reg["cb"] is not None and unparse(reg["cb"]) == "self." + sreq.name and i > 0:
            prev = rr[i - 1]
            g = prog.resolve_callable(sb, prev["cb"]) if prev["cb"] is not None else None
            if g is not None and prev["root"] == reg["root"] and prev["kind"] == "cb":
                rets = [x for x in walk_body_shallow(g.body) if isinstance(x, ast.Return)]
                if rets and all(isinstance(x.value, ast.Call) and call_name(x.value) == "DeferredList" for x in rets):
                    dl_fed = True
    ka2 = K.KindAnalysis(ctx, sreq, {sreq.first_param(): K.fs(K.DLRESULT if dl_fed else K.ANY)})
    ka3 = K.KindAnalysis(ctx, canc, {})
    sinks = list(ka.sinks.values()) + list(ka2.sinks.values()) + list(ka3.sinks.values())
    # a sink is on a caller Deferred unless its receiver is a Deferred() created in the same function
    for s in sorted(sinks, key=lambda s: (s["func"].qname, s["call"].lineno)):
        f = s["func"]
        recv = s["recv"]
        local_new = any(isinstance(x, ast.Assign) and unparse(x.targets[0]) == recv and isinstance(
            x.value, ast.Call) and call_name(x.value) == "Deferred" for x in walk_body_shallow(f.body))
        if local_new:
            continue
        allowed = ALLOWED_CALLBACK if s["method"] == "callback" else ALLOWED_ERRBACK
        bad = sorted(K.show([k]) for k in s["kinds"] if k not in allowed)
        key = "%s#%s.%s(%s)" % (f.qname, recv, s["method"], norm(s["call"].args[0]) if s["call"].args else "")
        if bad:
            key += ":" + ",".join(bad)
        r.check(not bad, key,
                "value kinds %s can reach %s of a caller's Deferred; allowed: %s" % (
                    bad, s["method"], sorted(allowed)), where(f, s["call"]),
                "broker keeps answering with an error code until max_req_attempts: the send Deferred *succeeds* "
                "carrying an exception object" if s["method"] == "callback" else "",
                facts=["kinds=%s" % K.show(s["kinds"]), "fixpoint rounds=%d" % ka.rounds])

    # ---- R2 success value names the partition whose Deferreds are fired
    r = ctx.rule("R2", "on the success arm the Deferred-table key is built from the delivered response itself", 1,
                 "A")
    cf = ctx.cfg(hsr)
    deliver = producer_roles(ctx)["deliver"]
    need(deliver is not None, "nested _deliver_result missing")
    succ_calls = []
    st_in = ka.states_in[hsr.qname]
    for n in cf.nodes:
        for c in n.calls():
            if call_name(c) == deliver.name and len(c.args) == 2 and isinstance(c.args[1], ast.Name):
                kinds_v = st_in.get(n.id, {}).get(c.args[1].id, frozenset())
                if K.RESP_OK in kinds_v:
                    succ_calls.append((n, c))
    need(succ_calls, "no delivery of an acknowledged response found")

    def defs_of(name):
        return [x for x in walk_body_shallow(hsr.body) if isinstance(x, ast.Assign) and any(
            unparse(t) == name for t in x.targets)]

    for n, c in succ_calls:
        V = c.args[1].id
        tbl = c.args[0]
        if isinstance(tbl, ast.Name):
            ds = defs_of(tbl.id)
            tbl_exprs = [d.value for d in ds]
        else:
            tbl_exprs = [tbl]
        good = bool(tbl_exprs)
        for te in tbl_exprs:
            if not (isinstance(te, ast.Subscript) and unparse(te.value) == "deferredsByTopicPart"):
                good = False
                continue
            key = te.slice
            kexprs = [d.value for d in defs_of(key.id)] if isinstance(key, ast.Name) else [key]
            for ke in kexprs:
                if norm(ke) not in ("TopicAndPartition(%s.topic, %s.partition)" % (V, V),
                                    "(%s.topic, %s.partition)" % (V, V)):
                    good = False
            good = good and bool(kexprs)
        r.check(good, "%s#deliver(%s)" % (hsr.qname, norm(c)),
                "acknowledged response is delivered to Deferreds looked up under a key not built from its own "
                "topic/partition", where(hsr, c), "ack for partition A completes the sends queued for partition B")

    # ---- R3 fire guards
    r = ctx.rule("R3", "every fire of a caller Deferred is guarded by `not called` or is the canceller", 4, "C")
    cancellers = set()
    for x in walk_body_shallow(sendm.body):
        if isinstance(x, ast.Call) and call_name(x) == "Deferred" and x.args:
            g = prog.resolve_callable(sendm, x.args[0])
            if g is not None:
                cancellers.add(g.qname)
    for s in sorted(sinks, key=lambda s: (s["func"].qname, s["call"].lineno)):
        f = s["func"]
        recv = s["recv"]
        local_new = any(isinstance(x, ast.Assign) and unparse(x.targets[0]) == recv and isinstance(
            x.value, ast.Call) and call_name(x.value) == "Deferred" for x in walk_body_shallow(f.body))
        if local_new:
            continue
        facts = ctx.facts(f)[s["node"].id]
        guarded = (recv + ".called", False) in facts
        in_canceller = f.qname in cancellers
        r.check(guarded or in_canceller, "%s#fire:%s.%s" % (f.qname, recv, s["method"]),
                "fire of a caller Deferred that may already have fired (cancelled by the submitter) is unguarded",
                where(f, s["call"]), "AlreadyCalledError in the middle of a delivery loop: remaining Deferreds "
                "of the batch never fire", facts=["guard=%s canceller=%s" % (guarded, in_canceller)])

    # a loop that fires the Deferreds of a list considers every one of them: no break / return inside it
    for g in [hsr] + list(hsr.nested.values()) + [sreq, canc]:
        for lp in [x for x in walk_body_shallow(g.body) if isinstance(x, ast.For) and isinstance(x.target, ast.Name)]:
            fires_ = [c for c in ast.walk(lp) if isinstance(c, ast.Call) and call_name(c) in ("callback", "errback") and call_recv(c) == lp.target.id]
            if not fires_:
                continue
            leaves = [x for st in lp.body for x in ast.walk(st) if isinstance(x, (ast.Break, ast.Return))]
            r.check(not leaves, "%s#deliver-loop-total(for %s in %s)" % (g.qname, lp.target.id, norm(lp.iter, 40)),
                    "the loop that fires the Deferreds of a list can stop at one that has already fired (break/return inside the loop)",
                    where(g, lp), "cancelling one dispatched send makes later sends of the same batch and partition never get their result")

    # ---- R4 early exits deliver to all
    r = ctx.rule("R4", "every return before the per-response loop is dominated by a deliver-to-all call", 3, "B")
    loops = [n for n in cf.nodes if n.kind == "for" and isinstance(n.stmt.iter, ast.Name) and n.stmt.iter.id == rp]
    need(len(loops) == 1, "per-response loop over %r not found" % rp)
    loop = loops[0]
    deliver_all = [n.id for n in cf.nodes if any(
        call_name(c) == deliver.name and c.args and norm(c.args[0]) == "deferredsByTopicPart.values()"
        for c in n.calls())]
    for n in cf.nodes:
        if n.kind == "stmt" and isinstance(n.stmt, ast.Return) and not cf.dominates([loop.id], n.id):
            r.check(cf.dominates(deliver_all, n.id), "%s#early-return@%s" % (
                hsr.qname, ",".join(sorted(t for t, p in ctx.facts(hsr)[n.id] if p and "result" in t))[:80]),
                "an exit taken before the per-response loop does not deliver a result to every Deferred of the batch",
                where(hsr, n.stmt), "those sends never complete", facts=["deliver-all nodes=%d" % len(deliver_all)])

    # acknowledgements disabled + a partial failure: there are no response objects, so the payloads that did NOT fail have
    # to be completed (with None) right there - otherwise their Deferreds fire only if a later retry of the others succeeds
    ch_ = ctx.cfg(hsr)
    fh_ = ctx.facts(hsr)
    pr0 = hsr.first_param()
    from ..cfg import cond_atoms as _ca2
    starts_ = []
    for t in [n for n in ch_.nodes if n.kind == "test"]:
        for s_, lab in ch_.succ[t.id]:
            if lab and lab[0] == "cond" and ("%s.check(FailedPayloadsError)" % pr0, True) in _ca2(lab[1], lab[2]):
                starts_.append(s_)
    partial = [n for n in ch_.nodes if starts_ and (n.id in starts_ or ch_.dominates(starts_, n.id))]
    noack_deliver = [n for n in partial if ("self.req_acks == PRODUCER_ACK_NOT_REQUIRED", True) in fh_[n.id] and any(
        call_name(c) == deliver.name and len(c.args) >= 2 and isinstance(c.args[1], ast.Constant) and c.args[1].value is None for c in n.calls())]
    # ... and exactly those: the failed list holds (payload, failure) pairs, so the test that spares the failed ones has
    # to look at the first component of each pair (`p not in failed_list` compares a payload with tuples: always true)
    def _spares_failed(n_):
        for t_, lab_ in ch_.control_deps_transitive(n_.id):
            if t_.kind != "test":
                continue
            for x in ast.walk(t_.stmt.test):
                if isinstance(x, (ast.GeneratorExp, ast.ListComp, ast.SetComp)) and isinstance(x.generators[0].target, ast.Tuple) and len(x.generators[0].target.elts) == 2:
                    first = unparse(x.generators[0].target.elts[0])
                    if any(isinstance(y, ast.Name) and y.id == first for y in ast.walk(x.elt)):
                        return True
                if isinstance(x, ast.Call):
                    # a predicate helper that walks the pairs and compares the first component
                    g_ = prog.resolve_callable(hsr, x.func)
                    if g_ is not None:
                        for lp_ in [y for y in ast.walk(g_.node) if isinstance(y, (ast.For, ast.comprehension)) and isinstance(y.target, ast.Tuple) and len(y.target.elts) == 2]:
                            first = unparse(lp_.target.elts[0])
                            scope_ = lp_ if isinstance(lp_, ast.For) else g_.node
                            if any(isinstance(y, ast.Compare) and any(isinstance(z, ast.Name) and z.id == first for z in ast.walk(y)) for y in ast.walk(scope_)):
                                return True
                if isinstance(x, ast.Compare) and len(x.ops) == 1 and isinstance(x.ops[0], (ast.In, ast.NotIn)) and isinstance(x.comparators[0], ast.Name):
                    og_ = value_origins(ch_, t_.id, x.comparators[0], params=hsr.params) or []
                    if og_ and all(isinstance(e_, (ast.ListComp, ast.SetComp, ast.GeneratorExp)) and isinstance(e_.generators[0].target, ast.Tuple) for _d, e_ in og_):
                        return True
        return False
    r.check(bool(noack_deliver) and all(_spares_failed(n_) for n_ in noack_deliver), "%s#no-ack-completion-spares-the-failed" % hsr.qname,
            "the sends completed at once on a partial failure without acknowledgements are not selected by comparing their payload with the "
            "payloads (first components) of the failed list", where(hsr, noack_deliver[0].stmt if noack_deliver else hsr.node),
            "acks=0, one broker write fails: the failed payload is reported done at once and then re-sent; a final failure is swallowed")
    r.check(bool(partial) and bool(noack_deliver), "%s#no-ack-partial-failure-completes-the-rest" % hsr.qname,
            "with acknowledgements disabled, a partial failure does not complete the sends whose payloads were handed to their broker",
            where(hsr, partial[0].stmt if partial and partial[0].stmt is not None else hsr.node),
            "acks=0, two partitions, one broker write fails and runs out of attempts: the Deferred of the other (written) send never fires")

    # ---- R5 exhaustion arm
    r = ctx.rule("R5", "attempt exhaustion delivers to the Deferreds of every failed payload and schedules nothing",
                 2, "B")
    crp = producer_roles(ctx)["check_retry"]
    need(crp is not None, "nested _check_retry_payloads missing")
    cc = ctx.cfg(crp)
    fc = ctx.facts(crp)
    # the test whose false outcome means "attempts remain" (it may also send other cases - stopping - down the exhaustion arm)
    _ca = __import__("afkverif.cfg", fromlist=["cond_atoms"]).cond_atoms
    tests = [n for n in cc.nodes if n.kind == "test" and (("self._req_attempts >= self._max_attempts", True) in _ca(n.stmt.test, True) or (
        "self._req_attempts >= self._max_attempts", False) in _ca(n.stmt.test, False))]
    need(tests, "attempt-limit test not found in %s" % crp.qname)
    t = tests[0]
    false_succ = [s for s, lab in cc.succ[t.id] if lab and lab[0] == "cond" and not lab[2]]
    arm = cc.reach([t.id], avoid=false_succ)
    arm_nodes = [cc.nodes[i] for i in arm]
    p0 = crp.first_param()
    loops2 = [n for n in arm_nodes if n.kind == "for" and norm(n.stmt.iter) == p0]
    delivered = False
    for lp in loops2:
        body_ids = cc.reach([lp.id], avoid=[s for s, lab in cc.succ[lp.id] if lab == ("iter", False)])
        for i in body_ids:
            for c in cc.nodes[i].calls():
                if call_name(c) == deliver.name and isinstance(c.args[0], ast.Subscript) and unparse(
                        c.args[0].value) == "deferredsByTopicPart":
                    delivered = True
    r.check(delivered, "%s#exhaustion-delivers" % crp.qname,
            "exhaustion arm does not deliver to the Deferreds of every failed payload", where(crp, t.stmt),
            "those sends never complete")
    sched = [n for n in arm_nodes if any(call_name(c) in ("callLater", "send_produce_request") for c in n.calls())]
    r.check(not sched and cc.exit.id in arm, "%s#exhaustion-schedules-nothing" % crp.qname,
            "exhaustion arm schedules another attempt", where(crp, t.stmt))

    # ---- R7 producer stop fails every outstanding send
    # ---- R8 a batch that cannot be sent fails its sends
    r = ctx.rule("R8", "an exception in the send stage of a batch is delivered to every caller of that batch before a stage swallows it", 1, "C")
    sbf = ctx.func(PROD + "._send_batch")
    regs_b = registrations(sbf, prog)
    send_i = [i for i, g in enumerate(regs_b) if g["cb"] is not None and prog.resolve_callable(sbf, g["cb"]) is sreq]
    ok8, why8 = False, "the send stage is not registered on the batch Deferred"
    if send_i:
        g0 = regs_b[send_i[0]]
        reqs_arg = [norm(a) for a in g0["call"].args[1:]]
        why8 = "no failure-side stage between the send stage and the first stage that absorbs failures"
        for g in regs_b[send_i[0] + 1:]:
            if g["root"] != g0["root"]:
                continue
            hexpr = g["eb"] if g["kind"] in ("eb", "cbs") else (g["cb"] if g["kind"] == "both" else None)
            if hexpr is None:
                continue
            h = prog.resolve_callable(sbf, hexpr)
            if h is None:
                break
            extra = [norm(a) for a in (g["call"].args[1:] if g["kind"] in ("eb", "both") else [])]
            ps = [p_ for p_ in h.params if p_ not in ("self", "cls")]
            fails_all = False
            if len(ps) >= 2 and extra[:1] == reqs_arg[:1]:
                chh = ctx.cfg(h)
                fhh = ctx.facts(h)
                for lp_ in [n for n in chh.nodes if n.kind == "for" and norm(n.stmt.iter) == ps[1]]:
                    lv_ = unparse(lp_.stmt.target)
                    body_ = chh.reach([t for t, lab in chh.succ[lp_.id] if lab == ("iter", True)], avoid=[lp_.id])
                    ebs_ = [chh.nodes[i] for i in body_ if any(call_name(c) == "errback" and call_recv(c) == "%s.deferred" % lv_ and c.args and
                                                                 norm(c.args[0]) == ps[0] for c in chh.nodes[i].calls())]
                    if ebs_ and all(("%s.deferred.called" % lv_, False) in fhh[n.id] for n in ebs_) and not any(
                            isinstance(x, (ast.Break, ast.Return)) for x in ast.walk(lp_.stmt)):
                        fails_all = True
            if fails_all:
                ok8 = True
                break
            # a failure-side stage that does something else: does it hand the failure on?
            rets_ = [n for n in ctx.cfg(h).nodes if n.kind == "stmt" and isinstance(n.stmt, ast.Return)]
            passes_on = bool(rets_) and all(n.stmt.value is not None and norm(n.stmt.value) == ps[0] for n in rets_) and not ctx.cfg(h).normal_exits_from(
                ctx.cfg(h).entry.id, avoid=[n.id for n in rets_])
            if not passes_on:
                why8 = "the failure of the send stage reaches `%s`, which absorbs it, before anything has failed the sends of the batch" % h.name
                break
    r.check(ok8, "%s#send-stage-failure-reaches-callers" % sbf.qname, why8, where(sbf, sbf.node),
            "the message set cannot be built (snappy configured, python-snappy not installed): the requests were taken off the queue, "
            "the exception is logged by the completion stage and the callers' Deferreds never fire")

    stop_fails_outstanding(ctx, ctx.rule("R7", "stop() cancels every outstanding send, iterating a copy of the list", 2, "B"))


def stop_fails_outstanding(ctx, r):
    """shared shape with C19.R5: stop() reaches a cancel of every outstanding send (iteration over a copy)"""
    stop = ctx.func(PROD + ".stop")
    co = ctx.func(PROD + "._cancel_outstanding")
    cs = ctx.cfg(stop)
    cn = [n for n in cs.nodes if any(call_name(c) == co.name for c in n.calls())]
    r.check(bool(cn) and cs.dominates([cn[0].id], cs.exit.id), "%s#cancels-outstanding" % stop.qname,
            "stop() can return without cancelling every outstanding send", where(stop, stop.node), "sends pending at stop never fire")
    loop = [x for x in walk_body_shallow(co.body) if isinstance(x, ast.For)]
    ok = len(loop) == 1 and norm(loop[0].iter) in ("list(self._outstanding)", "self._outstanding[:]", "tuple(self._outstanding)") and any(
        isinstance(x, ast.Call) and call_name(x) == "cancel" and call_recv(x) == unparse(loop[0].target) for x in ast.walk(loop[0]))
    r.check(ok, "%s#iterates-copy-and-cancels" % co.qname, "outstanding sends are cancelled while iterating the live list (each cancel removes "
            "its entry): every second send is skipped", where(co, co.node), "stop() with >= 2 pending sends: every other Deferred never fires")


MUTANTS = [
    {"id": "noack-partial-failure-forgets-written", "file": "producer.py",
     "old": "                    for t_and_p, p in payloadsByTopicPart.items():\n                        if not any(p is failed_p for failed_p, _f in failed_payloads):\n                            _deliver_result(deferredsByTopicPart[t_and_p], None)\n",
     "new": "                    pass\n", "expect": "C01.R4", "note": "finding F22"},
    {"id": "unwrap-failure", "file": "producer.py",
     "old": "                    if not isinstance(f, Failure):\n                        f = Failure(f)\n", "new": "",
     "expect": "C01.R1"},
    {"id": "noresponse-not-failure", "file": "producer.py", "old": "result = Failure(NoResponseError())",
     "new": "result = NoResponseError()", "expect": "C01.R1"},
    {"id": "none-without-acks-guard", "file": "producer.py",
     "old": "            if self.req_acks == PRODUCER_ACK_NOT_REQUIRED:\n                result = None\n            else:\n                # We got no result, but we were expecting one? Fail everything!\n                result = Failure(NoResponseError())",
     "new": "            result = None", "expect": "C01.R1"},
    {"id": "deliver-unguarded", "file": "producer.py",
     "old": "                    if not d.called:\n                        d.callback(result)",
     "new": "                    d.callback(result)", "expect": "C01.R3"},
    {"id": "lookup-failure-unguarded", "file": "producer.py",
     "old": "            if req.deferred.called:\n                # Submitter cancelled the request while we were waiting for\n                # the topic/partition, skip it\n                continue\n",
     "new": "", "expect": "C01.R3"},
    {"id": "early-return-forgets", "file": "producer.py",
     "old": "                    # Cancelled, or programming error, we fail the requests\n                    _deliver_result(deferredsByTopicPart.values(), result)\n                    return",
     "new": "                    return", "expect": "C01.R4"},
    {"id": "exhaustion-forgets", "file": "producer.py",
     "old": "                    _deliver_result(deferredsByTopicPart[t_and_p], f)\n                return",
     "new": "                    pass\n                return", "expect": "C01.R5"},
    {"id": "success-wrong-key", "file": "producer.py",
     "old": "                d_list = deferredsByTopicPart[t_and_p]\n                _deliver_result(d_list, res)",
     "new": "                d_list = deferredsByTopicPart[TopicAndPartition(res.topic, 0)]\n                _deliver_result(d_list, res)",
     "expect": "C01.R2"},
    {"id": "deliver-unchecked-response", "file": "producer.py",
     "old": "            except BrokerResponseError as e:\n                p = payloadsByTopicPart[t_and_p]\n                failed_payloads.append((p, e))\n            else:",
     "new": "            except BrokerResponseError as e:\n                p = payloadsByTopicPart[t_and_p]\n                failed_payloads.append((p, e))\n                _deliver_result(deferredsByTopicPart[t_and_p], res)\n            else:",
     "expect": "C01.R1"},
    {"id": "outstanding-no-copy", "file": "producer.py", "old": "for d in list(self._outstanding):", "new": "for d in self._outstanding:",
     "expect": "C01.R7", "note": "seeded C01-2"},
    {"id": "client-failed-pairs-from-success", "file": "client.py",
     "old": "            if not success:\n                # The brokerclient deferred was errback()'d:",
     "new": "            if success:\n                # The brokerclient deferred was errback()'d:", "expect": ["C01.R6", "C01.R1"]},
]

TWINS = [
    {"id": "send-stage-failure-fails-the-batch", "note": "the repair of known finding F40 (withdrawn because an unedited test relies on the swallow): R8 is silent on it",
     "edits": [("producer.py", "        d.addCallback(self._send_requests, requests)\n",
                "        d.addCallback(self._send_requests, requests)\n        d.addErrback(self._fail_batch, requests)\n"),
               ("producer.py", "    def _complete_batch_send(self, resp):\n",
                "    def _fail_batch(self, failure, requests):\n        for req in requests:\n            if not req.deferred.called:\n                req.deferred.errback(failure)\n        return failure\n\n    def _complete_batch_send(self, resp):\n")]},
    {"id": "wrap-at-append", "file": "producer.py",
     "old": "                failed_payloads.append((p, e))", "new": "                failed_payloads.append((p, Failure(e)))"},
    {"id": "guard-inverted", "file": "producer.py",
     "old": "                    if not d.called:\n                        d.callback(result)",
     "new": "                    if d.called:\n                        continue\n                    d.callback(result)"},
]

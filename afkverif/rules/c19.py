"""C19 - batching thresholds, time limit, cancellation and stop.

Decided: where the threshold test runs (after every enqueue, as an on-both
stage after batch completion, and from the looper), paired accounting of the
queue and its two counters at every mutation, cancel-before-dispatch shape,
*stop transmits nothing further* as a reachability question through the
cancelled handle's chain guarded by a flag stop() sets, and stop cancelling
everything.  Not decided: the no-starvation time bound.
"""
import ast

from ..cfg import known_falsy
from ..model import self_attr, unparse, walk_body_shallow
from .util import *  # noqa: F401,F403
from .util import (decision_table, resolved_facts, reaching_defs, call_name, call_recv, calls_in, guarded_reach, need, node_assign_value, node_writes_attr, norm,
                   registrations, where, aliases_of)

TECHNIQUE = "registration-order check, paired-update dominance, guarded call-graph reachability from stop(), " \
            "dead-flag contradiction"
EXPLANATION = (
    "Rules over afkak/producer.py: the threshold test is called after the enqueue and registered on-both after the "
    "completion stage; every mutation of _batch_reqs is paired (dominance / must-pass-through on the CFG) with the "
    "matching update of _waitingMsgCount and _waitingByteCount; the canceller removes a queued request, fixes both "
    "counters and errbacks with request_sent=False, and the send stage skips fired Deferreds; from stop() the "
    "handlers of every chain it cancels are followed through calls and registrations, and the produce sender must "
    "be unreachable except through sites dominated by a test of a flag that stop() sets first; a flag written by "
    "stop() and read nowhere is reported (contradiction)."
    ' Also: the thresholds and the period hold what the constructor was given - 0 / None stay `off` (R6).'
    " The canceller searches the queue whatever the in-flight handle says."
)
SHARED = [('C01', ['R7'], 'stopping the producer fails every outstanding send'), ('C09', ['R1'], 'a threshold met while a batch is in flight takes effect the moment that batch resolves'), ('C01', ['R3'], 'cancelling one send only detaches that caller')]
ASSUMPTIONS = [
    "Twisted: Deferred.cancel() on an unfired chain runs its remaining on-both/errback stages synchronously",
    "LoopingCall calls its function every period until stopped",
]
PROD = "producer:Producer"
COUNTERS = ("_waitingMsgCount", "_waitingByteCount")


def _counter_nodes(cf, attr):
    """nodes updating the counter, plus `for` heads whose body updates it."""
    direct = [n for n in cf.nodes if node_writes_attr(n, attr)]
    out = {n.id for n in direct}
    for n in cf.nodes:
        if n.kind == "for":
            body = cf.reach([n.id], avoid=[s for s, lab in cf.succ[n.id] if lab == ("iter", False)])
            if any(d.id in body for d in direct):
                out.add(n.id)
    return out, direct


def run(ctx):
    prog = ctx.prog
    ci = prog.cls(PROD)
    sendm = ctx.func(PROD + ".send_messages")
    sb = ctx.func(PROD + "._send_batch")
    chk = ctx.func(PROD + "._check_send_batch")
    canc = ctx.func(PROD + "._cancel_send_messages")
    sreq = ctx.func(PROD + "._send_requests")
    stop = ctx.func(PROD + ".stop")
    cbs = ctx.func(PROD + "._complete_batch_send")

    # ---- R1 threshold re-check points
    r = ctx.rule("R1", "threshold test runs after every enqueue, after batch completion, and on the timer", 4, "C")
    cf = ctx.cfg(sendm)
    enq = [n for n in cf.nodes if any(call_name(c) == "append" and call_recv(c) == "self._batch_reqs" for c in n.calls())]
    need(len(enq) == 1, "enqueue into _batch_reqs not found once in send_messages")
    chk_nodes = [n.id for n in cf.nodes if any(call_name(c) == chk.name and call_recv(c) == "self" for c in n.calls())]
    r.check(bool(chk_nodes) and not cf.normal_exits_from(enq[0].id, avoid=chk_nodes), "%s#check-after-enqueue" % sendm.qname,
            "an enqueue can return without running the threshold test", where(sendm, enq[0].stmt),
            "threshold met but nothing dispatched until the next tick")
    regs = registrations(sb, prog)
    names = [(g["kind"], unparse(g["cb"]) if g["cb"] is not None else None) for g in regs]
    i_done = [i for i, x in enumerate(names) if x[1] == "self." + cbs.name]
    i_chk = [i for i, x in enumerate(names) if x[1] == "self." + chk.name]
    r.check(bool(i_done) and bool(i_chk) and i_chk[0] > i_done[0] and names[i_chk[0]][0] == "both",
            "%s#recheck-after-completion" % sb.qname, "threshold test is not an on-both stage after batch completion",
            where(sb, sb.node), "threshold met while a batch is in flight never takes effect", facts=["%s:%s" % x for x in names])
    # threshold test itself: either condition dispatches
    cc = ctx.cfg(chk)
    disp = [n for n in cc.nodes if any(call_name(c) == sb.name for c in n.calls())]
    # decision table over the four atoms: dispatch happens exactly when (count limit set and met) or (byte limit set and met)
    names_, table = decision_table(ctx, chk, {
        "n_set": ["self.batch_every_n"], "n_met": ["self.batch_every_n <= self._waitingMsgCount"],
        "b_set": ["self.batch_every_b"], "b_met": ["self.batch_every_b <= self._waitingByteCount"]}, [n.id for n in disp])
    wrong = []
    for combo, (reachable, avoidable) in sorted(table.items()):
        v = dict(zip(names_, combo))
        want = (v["n_set"] and v["n_met"]) or (v["b_set"] and v["b_met"])
        if (want and (avoidable or not reachable)) or (not want and reachable):
            wrong.append({k: x for k, x in v.items()})
    txt = "; ".join("%s -> dispatch %s" % (w, "missing" if (w["n_set"] and w["n_met"]) or (w["b_set"] and w["b_met"]) else "unexpected") for w in wrong[:3])
    ok = bool(disp) and not wrong
    r.check(ok,
            "%s#threshold-test" % chk.qname, "dispatch is not triggered by (count threshold met OR byte threshold met): %s" % txt,
            where(chk, chk.node))
    init = ctx.func(PROD + ".__init__")
    lc = [c for c in calls_in(init, "LoopingCall")]
    r.check(len(lc) == 1 and lc[0].args and unparse(lc[0].args[0]) == "self." + sb.name, "%s#looper-target" % init.qname,
            "the periodic timer does not call the dispatcher", where(init, lc[0] if lc else init.node))

    # ---- R2 paired accounting
    r = ctx.rule("R2", "every mutation of the queue is paired with the matching update of both counters", 6, "B")
    sites = []
    for f in prog.functions(module="producer", cls="Producer"):
        if f.name == "__init__":
            continue
        cff = ctx.cfg(f)
        for n in cff.nodes:
            kind = None
            for c in n.calls():
                if call_recv(c) == "self._batch_reqs" and call_name(c) in ("append", "extend", "insert"):
                    kind = "enqueue"
                elif call_recv(c) == "self._batch_reqs" and call_name(c) in ("remove", "pop", "clear"):
                    kind = "dequeue"
            if node_assign_value(n, "_batch_reqs") is not None:
                kind = "swap"
            if kind:
                sites.append((f, cff, n, kind))
    need(len(sites) >= 3, "expected enqueue, swap-out and dequeue sites of _batch_reqs")
    for f, cff, n, kind in sites:
        for ctr in COUNTERS:
            cn, direct = _counter_nodes(cff, ctr)
            paired = bool(cn) and (cff.dominates(cn, n.id) or not cff.normal_exits_from(n.id, avoid=cn))
            # direction of the update
            dir_ok = True
            for d in direct:
                st = d.stmt
                if kind == "enqueue":
                    dir_ok &= isinstance(st, ast.AugAssign) and isinstance(st.op, ast.Add)
                elif kind == "dequeue":
                    dir_ok &= isinstance(st, ast.AugAssign) and isinstance(st.op, ast.Sub)
                else:
                    dir_ok &= isinstance(st, ast.Assign) and isinstance(st.value, ast.Constant) and st.value.value == 0
            r.check(paired and dir_ok, "%s#%s:%s" % (f.qname, kind, ctr),
                    "queue %s is not paired with the matching update of %s" % (kind, ctr), where(f, n.stmt),
                    "threshold accounting drifts: batches dispatched too early/late or never",
                    facts=["counter nodes=%d" % len(cn), "direction ok=%s" % dir_ok])
    # quantities (sibling agreement): enqueue adds len(msgs) / sum of len(m) over non-null m; dequeue subtracts the same
    msgs_p = sendm.params[3] if len(sendm.params) > 3 else "msgs"
    incs = {}
    for n in cf.nodes:
        if n.kind == "stmt" and isinstance(n.stmt, ast.AugAssign) and self_attr(n.stmt.target) in COUNTERS and isinstance(n.stmt.op, ast.Add):
            incs[self_attr(n.stmt.target)] = n.stmt.value
    cfs = ctx.facts(sendm)

    def local_defs(func, name):
        return [x for x in walk_body_shallow(func.body) if isinstance(x, ast.Assign) and any(unparse(t) == name for t in x.targets)]
    mv = incs.get("_waitingMsgCount")
    mdefs = local_defs(sendm, unparse(mv)) if isinstance(mv, ast.Name) else []
    r.check(mv is not None and (norm(mv) == "len(%s)" % msgs_p or (bool(mdefs) and all(norm(x.value) == "len(%s)" % msgs_p for x in mdefs))),
            "%s#msg-count-quantity" % sendm.qname, "queued message count is not len(msgs)", where(sendm, sendm.node))
    bv = incs.get("_waitingByteCount")
    bname = unparse(bv) if isinstance(bv, ast.Name) else None
    # the local the sum is accumulated in: the name added to the counter, or a local it was copied from
    accs = {bname}
    for _ in range(3):
        for x in walk_body_shallow(sendm.body):
            if isinstance(x, ast.Assign) and isinstance(x.value, ast.Name) and any(isinstance(t, ast.Name) and t.id in accs for t in x.targets):
                accs.add(x.value.id)
    def _nonnull_len_sum(e):
        """`sum(len(v) for v in X if v is not None)` -> X, else None"""
        if isinstance(e, ast.Call) and call_name(e) == "sum" and len(e.args) == 1 and isinstance(e.args[0], (ast.GeneratorExp, ast.ListComp)) and len(e.args[0].generators) == 1:
            g_ = e.args[0].generators[0]
            if isinstance(g_.target, ast.Name) and norm(e.args[0].elt) == "len(%s)" % g_.target.id and len(g_.ifs) == 1 and norm(g_.ifs[0]) in (
                    "%s is not None" % g_.target.id, "isinstance(%s, bytes)" % g_.target.id):
                return g_.iter
        return None
    bc = [n for n in cf.nodes if n.kind == "stmt" and isinstance(n.stmt, ast.AugAssign) and unparse(n.stmt.target) in accs]
    okb = len(bc) == 1 and isinstance(bc[0].stmt.value, ast.Call) and call_name(bc[0].stmt.value) == "len"
    if okb:
        ev = norm(bc[0].stmt.value.args[0])
        okb = ("%s is None" % ev, False) in cfs[bc[0].id] or ("isinstance(%s, bytes)" % ev, True) in cfs[bc[0].id]
    if not okb and not bc:
        # the sum written as one expression over the caller's messages
        sums_ = [x.value for x in walk_body_shallow(sendm.body) if isinstance(x, ast.Assign) and any(isinstance(t, ast.Name) and t.id in accs for t in x.targets)]
        if bv is not None and not isinstance(bv, ast.Name):
            sums_ = [bv]
        okb = bool(sums_) and all(_nonnull_len_sum(v_) is not None and norm(_nonnull_len_sum(v_)) == msgs_p for v_ in sums_ if not isinstance(v_, ast.Name))
    r.check(okb, "%s#byte-count-quantity" % sendm.qname, "queued byte count is not the sum of len(m) over non-null messages",
            where(sendm, bc[0].stmt if bc else sendm.node))
    # dequeue side: the message count is reduced by len(<request>.messages), unconditionally with the removal
    for f, cff, n, kind in sites:
        if kind != "dequeue":
            continue
        decs = [m for m in cff.nodes if m.kind == "stmt" and isinstance(m.stmt, ast.AugAssign) and self_attr(m.stmt.target) == "_waitingMsgCount"]
        okd = len(decs) == 1 and isinstance(decs[0].stmt.value, ast.Call) and call_name(decs[0].stmt.value) == "len"
        if okd:
            a = decs[0].stmt.value.args[0]
            src = [norm(a)] if not isinstance(a, ast.Name) else [norm(x.value) for x in local_defs(f, a.id)]
            okd = bool(src) and all(s.endswith(".messages") for s in src)
            d1 = sorted(norm(t.stmt.test if t.kind == "test" else t.stmt.iter) for t, lab in cff.control_deps_transitive(decs[0].id))
            d2 = sorted(norm(t.stmt.test if t.kind == "test" else t.stmt.iter) for t, lab in cff.control_deps_transitive(n.id))
            okd = okd and d1 == d2
        r.check(okd, "%s#dequeue-msg-count-quantity" % f.qname,
                "on dequeue the message count is not reduced by len(request.messages) under the same conditions as the removal",
                where(f, n.stmt), "a cancelled send with null messages leaves them counted: a later batch is dispatched below the threshold")
        bdec = [m for m in cff.nodes if m.kind == "stmt" and isinstance(m.stmt, ast.AugAssign) and self_attr(m.stmt.target) == "_waitingByteCount"]
        okq = len(bdec) == 1 and isinstance(bdec[0].stmt.value, ast.Call) and call_name(bdec[0].stmt.value) == "len"
        if not okq and len(bdec) == 1 and isinstance(bdec[0].stmt.op, ast.Sub):
            v_ = bdec[0].stmt.value
            # a one-expression helper taking the message list (`_payload_size(req.messages)`)
            g_ = prog.resolve_call(f, v_) if isinstance(v_, ast.Call) else None
            if g_ is not None and len(v_.args) == 1 and not v_.keywords:
                ps_ = [p_ for p_ in g_.params if p_ not in ("self", "cls")]
                body_ = [x for x in g_.node.body if not (isinstance(x, ast.Expr) and isinstance(x.value, ast.Constant))]
                if len(ps_) == 1 and len(body_) == 1 and isinstance(body_[0], ast.Return) and body_[0].value is not None:
                    inner_ = _nonnull_len_sum(body_[0].value)
                    if inner_ is not None and norm(inner_) == ps_[0]:
                        v_ = ast.parse("sum(len(m_) for m_ in %s if m_ is not None)" % norm(v_.args[0]), mode="eval").body
            it_ = _nonnull_len_sum(v_)
            if it_ is not None:
                src_ = [norm(it_)] if not isinstance(it_, ast.Name) else [norm(x.value) for x in local_defs(f, it_.id)]
                okq = bool(src_) and all(s_.endswith(".messages") for s_ in src_)
        r.check(okq, "%s#dequeue-byte-count-quantity" % f.qname, "on dequeue the byte count is not reduced by len(m) per message", where(f, n.stmt))

    # ---- R3 cancel before dispatch
    r = ctx.rule("R3", "canceller dequeues a still-queued request and reports request_sent=False; send stage skips "
                       "fired Deferreds", 4, "B")
    ccf = ctx.cfg(canc)
    fcc = ctx.facts(canc)
    rm = [n for n in ccf.nodes if any(call_name(c) == "remove" and call_recv(c) == "self._batch_reqs" for c in n.calls())]
    need(len(rm) == 1, "dequeue in canceller not found")
    dparam = canc.params[1]
    def _is_match(facts, who):
        return ("%s.deferred == %s" % (who, dparam), True) in facts or ("%s == %s.deferred" % (dparam, who), True) in facts or (
            "%s.deferred is %s" % (who, dparam), True) in facts

    rarg = [c for c in rm[0].calls() if call_name(c) == "remove"][0].args[0]
    matched = _is_match(fcc[rm[0].id], unparse(rarg))
    if not matched and isinstance(rarg, ast.Name):
        # the removed request was picked earlier (find first, then handle): every definition of the local that reaches
        # the removal - other than a None initialisation excluded by an `is not None` guard - was made where the match held
        defs = reaching_defs(ccf, rm[0].id, rarg.id)
        live = []
        for dn in defs:
            stn = ccf.nodes[dn].stmt
            v = stn.value if isinstance(stn, ast.Assign) and len(stn.targets) == 1 else None
            if isinstance(v, ast.Constant) and v.value is None and ("%s is None" % rarg.id, False) in fcc[rm[0].id]:
                continue
            live.append((dn, v))
        def _def_matches(dn, v):
            if isinstance(v, ast.Name):
                return _is_match(fcc[dn], v.id)
            if isinstance(v, ast.Call) and call_name(v) == "next" and isinstance(v.func, ast.Name) and len(v.args) == 2 and isinstance(v.args[0], ast.GeneratorExp) \
                    and len(v.args[0].generators) == 1 and isinstance(v.args[1], ast.Constant) and v.args[1].value is None:
                # first match of a search written as next(generator, None); None is excluded by the guard at the removal
                g0 = v.args[0].generators[0]
                if isinstance(g0.target, ast.Name) and norm(v.args[0].elt) == g0.target.id and norm(g0.iter) == "self._batch_reqs" and len(g0.ifs) == 1:
                    from ..cfg import cond_atoms as _ca19
                    return _is_match(_ca19(g0.ifs[0], True), g0.target.id) and ("%s is None" % rarg.id, False) in fcc[rm[0].id]
                return False
            g = prog.resolve_call(canc, v) if isinstance(v, ast.Call) else None
            if g is not None and g.cls is canc.cls:
                # a finder method: whatever it returns other than None (excluded by the guard at the removal) was
                # picked where the match with the Deferred it was given held
                ps = [p_ for p_ in g.params if p_ not in ("self", "cls")]
                dpos = [i for i, a in enumerate(v.args) if norm(a) == dparam]
                if not dpos or dpos[0] >= len(ps):
                    return False
                gd = ps[dpos[0]]
                rc = return_cases(ctx, g)
                none_excluded = ("%s is None" % rarg.id, False) in fcc[rm[0].id]
                okc = bool(rc)
                for n_, f_, e_ in rc:
                    if isinstance(e_, ast.Constant) and e_.value is None:
                        okc = okc and none_excluded
                    elif isinstance(e_, ast.Name):
                        okc = okc and (("%s.deferred == %s" % (e_.id, gd), True) in f_ or ("%s == %s.deferred" % (gd, e_.id), True) in f_ or (
                            "%s.deferred is %s" % (e_.id, gd), True) in f_)
                    else:
                        okc = False
                return okc and not falls_off_end(g, ctx) or (okc and none_excluded)
            return False
        matched = bool(live) and all(_def_matches(dn, v) for dn, v in live)
    r.check(matched, "%s#dequeue-matches" % canc.qname, "the request removed from the queue is not the one whose Deferred is cancelled",
            where(canc, rm[0].stmt))
    # a send can be queued while a batch is in flight (that is what the queue is for): whether the cancelled request is still
    # queued is found out by looking, not concluded from the in-flight handle
    gated = [norm(t.stmt.test, 60) for t, lab in ccf.control_deps_transitive(rm[0].id) if t.kind == "test" and "_batch_send_d" in norm(at(ctx, canc, t.id, t.stmt.test))]
    r.check(not gated, "%s#queue-searched-whatever-is-in-flight" % canc.qname, "the dequeue of a cancelled request depends on the in-flight handle: %s" % gated,
            where(canc, rm[0].stmt), "a send queued behind an in-flight batch and then cancelled stays in the queue and in the counts: it is "
            "transmitted with the next batch, which is dispatched below the threshold")
    ebs = [(n, c) for n in ccf.nodes for c in n.calls() if call_name(c) == "errback" and call_recv(c) == dparam]
    after = [(n, c) for n, c in ebs if n.id in ccf.reach([rm[0].id])]
    ok = bool(after) and all("request_sent=False" in norm(c) for n, c in after) and not ccf.normal_exits_from(
        rm[0].id, avoid=[n.id for n, c in after])
    r.check(ok, "%s#dequeue-errback" % canc.qname, "after dequeuing, the Deferred is not failed with request_sent=False",
            where(canc, rm[0].stmt))
    scf = ctx.cfg(sreq)
    fs = ctx.facts(sreq)
    app = [n for n in scf.nodes if any(call_name(c) == "append" and "reqsByTopicPart" in (call_recv(c) or "") for c in n.calls())]
    need(app, "payload grouping append not found")
    appc = [c for c in app[0].calls() if call_name(c) == "append"][0]
    rv = norm(appc.args[0])
    r.check(all(("%s.deferred.called" % rv, False) in fs[n.id] for n in app), "%s#skip-fired" % sreq.qname,
            "send stage does not skip requests whose Deferred already fired (cancelled)", where(sreq, app[0].stmt),
            "cancelled-before-dispatch messages are transmitted")

    for n in scf.nodes:
        for c in n.calls():
            if call_name(c) in ("errback", "callback") and (call_recv(c) or "").endswith(".deferred"):
                r.check(((call_recv(c) + ".called"), False) in fs[n.id], "%s#late-cancel-only-detaches(%s)" % (sreq.qname, call_name(c)),
                        "the send stage fires a caller's Deferred without first skipping requests cancelled during the partition lookup",
                        where(sreq, c), "send cancelled while the batch waits for metadata, its lookup then fails: AlreadyCalledError "
                        "aborts the stage; the other sends of the batch are never transmitted and never fire")

    # ---- R4 stop transmits nothing further
    r = ctx.rule("R4", "after stop() no path from the cancelled chains reaches the produce sender unguarded", 2, "C")
    scfg = ctx.cfg(stop)
    flags = []
    cancels = []
    for n in scfg.nodes:
        for c in n.calls():
            if call_name(c) == "cancel" and (call_recv(c) or "").startswith("self."):
                cancels.append((n, call_recv(c)))
    need(cancels, "stop() cancels no handle")
    first_cancel = min(n.id for n, _ in cancels)
    for n in scfg.nodes:
        if n.kind == "stmt" and isinstance(n.stmt, ast.Assign) and isinstance(n.stmt.value, ast.Constant) and \
                n.stmt.value.value is True:
            for t in n.stmt.targets:
                a = self_attr(t)
                if a and all(scfg.dominates([n.id], cn.id) for cn, _ in cancels):
                    flags.append(a)
    guard_atoms = [("self." + a, False) for a in flags] + [("not self." + a, True) for a in flags]
    starts = []
    for n, recv in cancels:
        attr = recv.split(".", 1)[1]
        for f in prog.functions(module="producer", cls="Producer"):
            al = None
            for reg in registrations(f, prog):
                if al is None:
                    al = aliases_of(f, "self." + attr)
                if reg["root"] in al:
                    for h in (reg["cb"], reg["eb"]):
                        g = prog.resolve_callable(f, h) if h is not None else None
                        if g is not None and g not in starts:
                            starts.append(g)
    need(starts, "no handlers found on the chains stop() cancels")

    def is_sender(f, c):
        # anything that makes the client talk to a broker: produce and metadata requests
        return call_recv(c) == "self.client" and (call_name(c) or "").startswith(("send_", "load_"))

    path = guarded_reach(ctx, starts, is_sender, guard_atoms)
    r.check(path is None, "%s#cancel->%s" % (stop.qname, "->".join(
        p[0].split(".")[-1] for p in (path or []))) if path else "%s#cancel-chains" % stop.qname,
        "cancelling the in-flight batch in stop() runs a chain that can reach the produce sender without passing a "
        "test of a flag stop() sets: %s" % (path,), where(stop, cancels[0][0].stmt),
        "batch in flight, thresholds met by the queue, stop(): the queued batch is transmitted during stop()",
        facts=["flags set by stop before cancel=%s" % flags, "chain handlers=%s" % [g.name for g in starts]])
    # contradiction: a flag stop() writes that nobody reads
    for a in flags or ["stopping"]:
        acc = prog.attr_accesses(ci, a, False)
        reads = [x for x in acc if x[1] == "read"]
        writes = [x for x in acc if x[1] == "write"]
        if writes:
            r.check(bool(reads), "%s#flag-never-read:%s" % (PROD, a),
                    "flag `%s` is written (by %s) but read nowhere: the intent 'no dispatch while stopping' is not "
                    "enforced" % (a, sorted({w[0].name for w in writes})), where(stop, stop.node))

    # ---- R5 stop fails everything
    r = ctx.rule("R5", "stop cancels the in-flight batch, the timer and every outstanding send", 3, "B")
    fst = ctx.facts(stop)
    co = ctx.func(PROD + "._cancel_outstanding")
    cn = [n for n in scfg.nodes if any(call_name(c) == co.name for c in n.calls())]
    r.check(bool(cn) and scfg.dominates([cn[0].id], scfg.exit.id), "%s#cancel-outstanding" % stop.qname,
            "stop() can return without cancelling every outstanding send", where(stop, stop.node))
    loop = [x for x in walk_body_shallow(co.body) if isinstance(x, ast.For)]
    ok = len(loop) == 1 and norm(loop[0].iter) in ("list(self._outstanding)", "self._outstanding[:]", "tuple(self._outstanding)") \
        and any(isinstance(x, ast.Call) and call_name(x) == "cancel" and call_recv(x) == unparse(loop[0].target)
                for x in ast.walk(loop[0]))
    r.check(ok, "%s#iterates-copy-and-cancels" % co.qname, "outstanding sends are not all cancelled (iteration over a copy)",
            where(co, co.node), "list mutated during iteration skips every other send")
    for n, recv in cancels:
        others = sorted(t for t, p in resolved_facts(fst[n.id]) if recv not in t and "self.stopping" not in t)
        r.check(not others, "%s#cancel(%s)-unconditional" % (stop.qname, recv),
                "cancel of %s in stop() is subject to unrelated conditions %s" % (recv, others), where(stop, n.stmt))
    # a send made after stop() is failed at once: the enqueue is reached only while not stopping (a request queued after
    # stop() would never be dispatched and its Deferred would never fire)
    csm = ctx.cfg(sendm)
    fsm = ctx.facts(sendm)
    enqs = [n for n in csm.nodes if any(call_name(c) == "append" and call_recv(c) == "self._batch_reqs" for c in n.calls())]
    r.check(bool(enqs) and all(("self.stopping", False) in fsm[n.id] or ("not self.stopping", True) in fsm[n.id] for n in enqs),
            "%s#no-enqueue-after-stop" % sendm.qname, "send_messages() queues a request although the producer has been stopped",
            where(sendm, enqs[0].stmt if enqs else sendm.node), "send_messages() after stop(): the returned Deferred never fires")
    lp = [n for n in scfg.nodes if any(call_name(c) == "stop" and isinstance(c.func, ast.Attribute) and (
        call_recv(c) == "self._sendLooper" or any(norm(e_) == "self._sendLooper" for _d, e_ in (value_leaves(scfg, n.id, c.func.value, params=stop.params) or ()))) for c in n.calls())]
    r.check(bool(lp), "%s#looper-stopped" % stop.qname, "stop() does not stop the periodic timer", where(stop, stop.node))

    # the periodic timer runs free: started by the constructor (restarted by its failure handler), stopped by stop(),
    # never reset - a reset on every send turns "no message waits longer than one period" into a debounce
    touched = []
    pcls = prog.cls(PROD)
    for f_ in sorted([x for x in prog.funcs.values() if x.cls is pcls], key=lambda x: x.qname):
        for c_ in calls_in(f_):
            if call_name(c_) in ("reset", "start", "stop") and isinstance(c_.func, ast.Attribute):
                og_ = value_origins(ctx.cfg(f_), ctx.cfg(f_).containing(c_)[0].id, c_.func.value, params=f_.params) if isinstance(c_.func.value, ast.Name) and ctx.cfg(f_).containing(c_) else [(0, c_.func.value)]
                if any(norm(e_) == "self._sendLooper" or (isinstance(e_, ast.Call) and call_name(e_) == "LoopingCall") for _d, e_ in (og_ or [])):
                    allowed_ = {"start": ("__init__", "_send_timer_failed", "_start_send_timer"), "stop": ("stop",), "reset": ()}[call_name(c_)]
                    if f_.name not in allowed_:
                        touched.append("%s: %s() line %d" % (f_.qname, call_name(c_), c_.lineno))
    r1b = ctx.rule("R7", "the batch timer is started once, stopped by stop(), and never reset", 1, "A")
    r1b.check(not touched, "%s#timer-free-running" % PROD, "the periodic batch timer is manipulated outside its life cycle: %s" % touched,
              where(sendm, sendm.node), "a trickle of sends more frequent than the period keeps resetting the timer: the batch waits without bound")

    # ---- R6 the thresholds compared by the dispatch test are the configured ones
    r = ctx.rule("R6", "count / byte thresholds and the period hold what the constructor was given (0 / None = off), or the fixed unbatched values", 3, "A")
    pci = prog.cls(PROD)
    for attr in ("batch_every_n", "batch_every_b", "batch_every_t"):
        probs = given_value_problems(ctx, pci, attr, param=attr)
        r.check(not probs, "%s#as-configured(%s)" % (PROD, attr), "%s is not what the constructor was given: %s" % (attr, "; ".join(p_[0] for p_ in probs)),
                where(probs[0][1], probs[0][2]) if probs and probs[0][1] is not None else "",
                "a threshold the caller disabled with 0 is replaced by a default: batches are dispatched when no configured trigger fired")

MUTANTS = [
    {"id": "threshold-default-for-falsy", "file": "producer.py", "old": "            if not isinstance(batch_every_n, Integral):\n",
     "new": "            batch_every_n = batch_every_n or BATCH_SEND_MSG_COUNT\n            if not isinstance(batch_every_n, Integral):\n",
     "expect": "C19.R6", "note": "seeded C19-14"},
    {"id": "retry-scheduled-while-stopping", "file": "producer.py", "old": "            if self.stopping or self._req_attempts >= self._max_attempts:",
     "new": "            if self._req_attempts >= self._max_attempts:", "expect": "C19.R4", "note": "finding F18"},
    {"id": "enqueue-after-stop", "file": "producer.py",
     "old": "        if self.stopping:\n            # stop() has failed everything that was outstanding and nothing\n            # is dispatched any more: a request queued now would never fire.\n            return fail(Failure(CancelledError(request_sent=False, message=\"Producer has been stopped\")))\n",
     "new": "", "expect": "C19.R5", "note": "finding F19"},
    {"id": "stop-flag-unread", "file": "producer.py", "old": "        if self.stopping:\n            return\n", "new": "",
     "expect": "C19.R4", "note": "queued batch starts its partition lookups (metadata requests) during stop()"},
    {"id": "send-stage-ignores-stop", "file": "producer.py", "old": "if not payloads or self.stopping:", "new": "if not payloads:",
     "expect": "C19.R4", "note": "lookup list fires with mixed results on cancel: resolved requests are transmitted"},
    {"id": "no-check-after-enqueue", "file": "producer.py",
     "old": "        # See if we have enough messages in the batch to do a send.\n        self._check_send_batch()\n", "new": "",
     "expect": "C19.R1"},
    {"id": "recheck-success-only", "file": "producer.py", "old": "d.addBoth(self._check_send_batch)",
     "new": "d.addCallback(self._check_send_batch)", "expect": "C19.R1"},
    {"id": "threshold-and", "file": "producer.py",
     "old": "if (self.batch_every_n and self.batch_every_n <= self._waitingMsgCount) or (",
     "new": "if (self.batch_every_n and self.batch_every_n <= self._waitingMsgCount) and (", "expect": "C19.R1"},
    {"id": "cancel-forgets-bytes", "file": "producer.py",
     "old": "                for m in (_m for _m in msgs if _m is not None):\n                    self._waitingByteCount -= len(m)\n",
     "new": "", "expect": "C19.R2"},
    {"id": "swap-forgets-count", "file": "producer.py", "old": "        self._waitingMsgCount = 0\n\n        # Iterate over them",
     "new": "\n        # Iterate over them", "expect": "C19.R2"},
    {"id": "cancel-adds", "file": "producer.py", "old": "self._waitingMsgCount -= len(msgs)", "new": "self._waitingMsgCount += len(msgs)",
     "expect": "C19.R2"},
    {"id": "cancel-count-skips-nulls", "file": "producer.py",
     "old": "                msgs = req.messages\n                self._waitingMsgCount -= len(msgs)\n                for m in (_m for _m in msgs if _m is not None):\n                    self._waitingByteCount -= len(m)",
     "new": "                for m in req.messages:\n                    if m is None:\n                        continue\n                    self._waitingMsgCount -= 1\n                    self._waitingByteCount -= len(m)",
     "expect": "C19.R2", "note": "seeded C19-1"},
    {"id": "cancel-claims-sent", "file": "producer.py", "old": "d.errback(CancelledError(request_sent=False))",
     "new": "d.errback(CancelledError(request_sent=True))", "expect": "C19.R3"},
    {"id": "send-stage-no-skip", "file": "producer.py",
     "old": "            if req.deferred.called:\n                # Submitter cancelled the request while we were waiting for\n                # the topic/partition, skip it\n                continue\n",
     "new": "", "expect": "C19.R3"},
    {"id": "stop-skips-outstanding", "file": "producer.py",
     "old": "        # Make sure requests that wasn't cancelled above are now\n        self._cancel_outstanding()\n", "new": "",
     "expect": "C19.R5"},
    {"id": "outstanding-no-copy", "file": "producer.py", "old": "for d in list(self._outstanding):", "new": "for d in self._outstanding:",
     "expect": "C19.R5"},
    {"id": "bytes-count-per-message", "file": "producer.py", "old": "                byte_cnt += len(m)\n", "new": "                byte_cnt += 1\n",
     "expect": "C19.R2", "note": "replaces `bytes-count-none` (the null test dropped): with the type test accepted as the non-null guard that edit no longer "
     "miscounts - it rejects null messages, which is not this property's business"},
]
TWINS = [
    {"id": "stop-guard-merged", "file": "producer.py",
     "edits": [("producer.py", "        if self.stopping:\n            return\n", ""),
               ("producer.py", "if (not self._batch_reqs) or self._batch_send_d:", "if self.stopping or (not self._batch_reqs) or self._batch_send_d:")]},
]

"""C16 - generation fencing: no partition consumer outlives its group generation.

Decided: the single construction site of partition consumers carries group,
member id and generation and starts from the committed position; the prepare
hook (graceful shutdown of all consumers) is awaited on every path before the
join request; every eviction arm stops the consumers before the rejoin is
scheduled; single join in flight; heartbeat only when stable; after stop no
group request other than the leave can be issued (check-after-yield on the
join routine); stop cancels every handle.  Not decided: other members.
"""
import ast
import copy

from ..cfg import known_falsy, known_truthy
from ..model import self_attr, unparse, walk_body_shallow
from .util import *  # noqa: F401,F403
from .util import (result_stored, deferred_origins, aliases_of, call_name, call_recv, calls_in, chains_in, kwarg, need, node_assign_value, norm,
                   real_suspension, registrations, returns_deferred, where)

TECHNIQUE = "construction-site kwargs, must-pass-through of the prepare hook, arm exhaustiveness, typestate guards, " \
            "check-after-yield with Deferred-likeness of yielded values, teardown exhaustiveness"
EXPLANATION = (
    "Rules over afkak/_group.py (and the commit sender in consumer.py via C03.R7): keyword arguments of the only "
    "Consumer(...) construction; every entry->join-request path of the inlineCallbacks join routine passes a "
    "suspension on on_join_prepare(), whose ConsumerGroup override resolves to the graceful shutdown; guard facts "
    "of each eviction arm of rejoin_after_error contain the forcible-stop hook; must-hold facts for the single "
    "join and the heartbeat preconditions; G-YIELD: a group request that follows a *real* suspension (yield of a "
    "possibly-Deferred value; synchronous generate_assignments is not one) must be dominated by a re-check of "
    "_stopping located after that suspension (facts on self.* are killed at suspensions)."
    ' Also: ConsumerGroup.stop() shuts the consumers down before leaving and sweeps them again after the fence is up (R2, finding F41); the fence is never lowered outside start (R7); a commit is abandoned without retry only for non-retriable broker answers (R3).'
    " Inside the loops over the decoded assignment nothing conditions the construction of a partition consumer, and topic / partition are the loop variables."
)
SHARED = [('C17', ['R8', 'R9'], 'a member whose generation has been superseded does rejoin: its consumers do not run on under the old generation (a commit rejected for one consumer reaches the eviction decision)'), ('C13', ['R5'], 'consumers shut down before a rejoin commit everything they processed'), ('C03', ['R6', 'R7'], "partition consumers start from the group's committed position and commit with their generation and member id"), ('C14', ['R3'], 'a consumer that cannot learn the committed position fails instead of starting elsewhere'), ('C02', ['R6'], "consumers start from the group's committed position")]
ASSUMPTIONS = [
    "Twisted inlineCallbacks: other code (stop()) can run at every yield of a pending Deferred, not between yields",
    "Consumer.shutdown()/stop() semantics are those checked by C13",
]
COORD = "_group:Coordinator"
GROUP = "_group:ConsumerGroup"


def run(ctx):
    prog = ctx.prog
    cci = prog.cls(COORD)
    gci = prog.cls(GROUP)
    jas = ctx.func(COORD + "._join_and_sync")
    jouter = ctx.func(COORD + ".join_and_sync")
    rae = ctx.func(COORD + ".rejoin_after_error")
    hb = ctx.func(COORD + "._heartbeat")
    cstop = ctx.func(COORD + ".stop")

    # ---- R1 consumers carry the generation
    r = ctx.rule("R1", "partition consumers are constructed at one site with group, member id and generation, and "
                       "start from the committed position", 3, "A")
    sites = []
    for f in prog.functions(module="_group"):
        for c in calls_in(f, "Consumer"):
            if isinstance(c.func, ast.Name):
                sites.append((f, c))
    r.check(len(sites) == 1, "%s#Consumer-construction-sites" % GROUP, "Consumer constructed at %d sites" % len(sites),
            facts=[f.qname for f, c in sites])
    need(sites, "no Consumer(...) construction in _group.py")
    f, c = sites[0]
    want = {"consumer_group": "self.group_id", "commit_consumer_id": "self.member_id",
            "commit_generation_id": "self.generation_id", "client": "self.client"}
    got = {k: norm(kwarg(c, k)) if kwarg(c, k) is not None else None for k in want}
    starts = [x for x in calls_in(f, "start") if x.args and norm(x.args[0]) == "OFFSET_COMMITTED"]
    tv = [unparse(t) for x in walk_body_shallow(f.body) if isinstance(x, ast.Assign) and x.value is c for t in x.targets]
    r.check(got == want and len(starts) == 1 and call_recv(starts[0]) in tv, "%s#Consumer-kwargs" % f.qname,
            "consumer construction does not carry group/member/generation or does not start at OFFSET_COMMITTED: %s" % got,
            where(f, c), "commits of a stale member are not fenced; consumers restart from the wrong position")

    # ... one for every (topic, partition) of the decoded assignment: inside the loops over the assignment nothing decides
    # whether a partition gets its consumer, and topic and partition are the loop variables
    cfc = ctx.cfg(f)
    cn = cfc.containing(c)
    if cn:
        deps = cfc.control_deps_transitive(cn[0].id)
        loops1 = [t for t, lab in deps if t.kind == "for"]
        tests1 = [t for t, lab in deps if t.kind == "test" and any(cfc.dominates([l_.id], t.id) for l_ in loops1)]
        tvars = set()
        for l_ in loops1:
            tvars |= {y.id for y in ast.walk(l_.stmt.target) if isinstance(y, ast.Name)}
        tp_ok = all(kwarg(c, k) is not None and isinstance(kwarg(c, k), ast.Name) and kwarg(c, k).id in tvars for k in ("topic", "partition"))
        r.check(len(loops1) >= 1 and not tests1 and tp_ok, "%s#a-consumer-for-every-assigned-partition" % f.qname,
                "inside the loops over the assignment the construction of the partition consumer is conditional (%s) or does not take topic and "
                "partition from the loops" % [norm(t.stmt.test, 50) for t in tests1], where(f, c),
                "a member assigned orders/0 and payments/0 starts a consumer for only one of them: the other partition is consumed by nobody")
    # ---- R2 shut down before (re)join
    r = ctx.rule("R2", "the prepare hook is awaited on every path before the join request; it shuts every consumer down; so does stop() before it leaves, and sweeps after",
                 6, "B")
    cf = ctx.cfg(jas)
    joins = [n for n in cf.nodes if any(call_name(x) == "send_join_group_request" for x in n.calls())]
    need(len(joins) == 1, "join request call not found once in _join_and_sync")
    prep = [n.id for n in cf.nodes if n.suspends and any(isinstance(x, ast.Yield) and isinstance(x.value, ast.Call)
            and call_name(x.value) == "on_join_prepare" for x in n.walk())]
    r.check(bool(prep) and cf.dominates(prep, joins[0].id), "%s#prepare-before-join" % jas.qname,
            "a path reaches the join request without awaiting on_join_prepare()", where(jas, joins[0].stmt),
            "consumers of the previous generation keep running (and committing) into the new generation")
    ojp = prog.method(gci, "on_join_prepare")
    sdc = ctx.func(GROUP + ".shutdown_consumers")
    cojp = ctx.cfg(ojp)
    rets = [n for n in cojp.nodes if n.kind == "stmt" and isinstance(n.stmt, ast.Return)]

    def _is_sdc(n):
        og = deferred_origins(cojp, n.id, n.stmt.value) if n.stmt.value is not None else None
        return bool(og) and all(isinstance(e, ast.Call) and prog.resolve_call(ojp, e) is sdc for e in og)
    r.check(ojp.cls is gci and rets and all(_is_sdc(n) for n in rets), "%s#resolves-to-graceful-shutdown" % ojp.qname,
            "ConsumerGroup.on_join_prepare does not return the graceful shutdown of all consumers", where(ojp, ojp.node))
    cs = ctx.cfg(sdc)
    swap = [n for n in cs.nodes if node_assign_value(n, "consumers") is not None]
    loopvars = {unparse(n.stmt.target) for n in cs.nodes if n.kind == "for"}
    sh = [n for n in cs.nodes if any(call_name(x) == "shutdown" and call_recv(x) in loopvars for x in n.calls())]
    wait = []
    for n in cs.nodes:
        if n.suspends:
            for y in [x for x in n.walk() if isinstance(x, ast.Yield) and x.value is not None]:
                og = deferred_origins(cs, n.id, y.value) or []
                if any(isinstance(e, ast.Call) and call_name(e) == "DeferredList" for e in og):
                    wait.append(n)
    r.check(bool(swap) and bool(sh) and bool(wait) and cs.dominates([swap[0].id], sh[0].id) and wait[0].id in cs.reach([sh[0].id]),
            "%s#swap-shutdown-wait" % sdc.qname, "graceful shutdown does not empty the table, shut every consumer down and "
            "wait for all of them", where(sdc, sdc.node))

    # when the graceful wait fails (one consumer's commit was rejected, say) every consumer of the swapped-out table is
    # force-stopped - the others may still be busy in their processor and would outlive the generation
    exn = [n for n in cs.nodes if n.kind == "except" and wait and n.id in cs.reach([wait[0].id])]
    okfb = False
    swapv = None
    for n in swap:
        st_ = n.stmt
        if isinstance(st_, ast.Assign) and isinstance(st_.targets[0], ast.Tuple) and isinstance(st_.value, ast.Tuple):
            for t_, v_ in zip(st_.targets[0].elts, st_.value.elts):
                if isinstance(t_, ast.Name) and norm(v_) == "self.consumers":
                    swapv = t_.id
    # the force-stop walks what the graceful shutdown walked: the same loop nest (same iterables, outermost first) around
    # `<consumer>.stop()` in the handler as around `<consumer>.shutdown()`, rooted in the swapped-out table
    parents_ = {}
    for p_ in ast.walk(sdc.node):
        for ch_ in ast.iter_child_nodes(p_):
            parents_[ch_] = p_

    def _nest(call_):
        loops_, x_ = [], call_
        while x_ in parents_:
            x_ = parents_[x_]
            if isinstance(x_, ast.For):
                loops_.append(x_)
        loops_.reverse()
        # the loop variables of the enclosing loops are named by their depth, so that two nests over the same iterables
        # compare equal whatever their variables are called
        ren, sig = {}, []
        for d_, lp_ in enumerate(loops_):
            it_ = copy.deepcopy(lp_.iter)
            for y in ast.walk(it_):
                if isinstance(y, ast.Name) and y.id in ren:
                    y.id = ren[y.id]
            sig.append(norm(it_))
            for y in ast.walk(lp_.target):
                if isinstance(y, ast.Name):
                    ren[y.id] = "_L%d" % d_
        return tuple(sig)
    grace = [c_ for c_ in calls_in(sdc, "shutdown") if isinstance(c_.func, ast.Attribute) and isinstance(c_.func.value, ast.Name)]
    gsig = {_nest(c_) for c_ in grace}
    if swapv is None:
        for x in walk_body_shallow(sdc.body):
            if isinstance(x, ast.Assign) and len(x.targets) == 1 and isinstance(x.targets[0], ast.Name) and norm(x.value) == "self.consumers":
                swapv = x.targets[0].id
    for e_ in exn:
        hstops = [c_ for c_ in ast.walk(e_.stmt) if isinstance(c_, ast.Call) and call_name(c_) == "stop" and isinstance(c_.func.value, ast.Name)]
        roots_ = {swapv} | {x.targets[0].id for x in walk_body_shallow(sdc.body) if isinstance(x, ast.Assign) and isinstance(x.targets[0], ast.Name)
                            and isinstance(x.value, ast.Name) and x.value.id == swapv} if swapv else set()
        if hstops and gsig and all(_nest(c_) in gsig and _nest(c_) and any(r_ in names_in(ast.parse(part, mode="eval").body) for part in _nest(c_) for r_ in roots_) for c_ in hstops):
            okfb = True
    r.check(bool(exn) and okfb, "%s#failed-wait-stops-every-consumer" % sdc.qname, "when waiting for the graceful shutdowns fails, not every consumer of the "
            "old generation is force-stopped", where(sdc, exn[0].stmt if exn else sdc.node), "one consumer's commit is rejected while another is "
            "busy in its processor: the join goes out with that consumer alive; it later commits with the stale generation")

    # the group is left only after the consumers of the current generation have shut down (and committed): a LeaveGroup
    # sent first makes their commits those of a member that is no longer in the group
    gstop = prog.method(gci, "stop")
    cgs = ctx.cfg(gstop)
    sdw = [n.id for n in cgs.nodes if n.suspends and any(isinstance(x, (ast.Yield, ast.Await)) and isinstance(x.value, ast.Call) and
                                                          prog.resolve_call(gstop, x.value) is sdc for x in n.walk())]
    leave = [n for n in cgs.nodes if any(call_name(x) == "stop" and (isinstance(x.func.value, ast.Call) and call_name(x.func.value) == "super" or
                                                                      norm(x.func.value) in ("Coordinator",)) for x in n.calls())]
    r.check(gstop.cls is gci and bool(sdw) and bool(leave) and all(cgs.dominates(sdw, n.id) for n in leave), "%s#consumers-shut-down-before-leave" % gstop.qname,
            "ConsumerGroup.stop() can reach Coordinator.stop() (which sends LeaveGroup) without having awaited shutdown_consumers()",
            where(gstop, gstop.node), "LeaveGroup goes out while the generation's consumers still run; their commit follows the leave")

    # ... and the table is emptied once more after the coordinator part has stopped: until `_stopping` is raised (by
    # Coordinator.stop) a heartbeat answered REBALANCE_IN_PROGRESS makes the member rejoin, and the completed join starts
    # the consumers of the new generation while stop() is still waiting for the old ones
    stc_ = ctx.func(GROUP + ".stop_consumers")
    # (the forcible stop: a graceful shutdown would commit with the generation that has just been left, and wait for processors)
    sweep = [n for n in cgs.nodes if any(prog.resolve_call(gstop, x) is stc_ for x in n.calls()) and leave and
             all(cgs.dominates([lv_.id], n.id) for lv_ in leave)]
    r.check(bool(sweep) and not cgs.normal_exits_from(leave[0].id if leave else cgs.entry.id, avoid=[n.id for n in sweep]),
            "%s#no-consumer-left-after-the-fence" % gstop.qname,
            "ConsumerGroup.stop() does not stop the consumers again after Coordinator.stop() has raised the fence and left the group",
            where(gstop, gstop.node), "a rebalance completes while stop() waits for the old consumers' commits: the new generation's "
            "consumers keep running after stop() reported [stopped]")

    # ---- R3 eviction stops consumers
    r = ctx.rule("R3", "illegal generation / unknown member / invalid group / timeout: consumers stopped before rejoin; "
                       "unknown member forgets its id; a commit is abandoned only when rejected", 6, "A")
    cr = ctx.cfg(rae)
    fr = ctx.facts(rae)
    p = rae.first_param()
    leaves = [n for n in cr.nodes if any(call_name(x) == "on_group_leave" and call_recv(x) == "self" for x in n.calls())]
    sched = [n for n in cr.nodes if any(call_name(x) == "callLater" for x in n.calls())]
    need(sched, "rejoin scheduling not found")

    def arm_has_leave(cls_names):
        for n in leaves:
            for t, pol in fr[n.id]:
                if pol and t.startswith("%s.check(" % p) and all(c in t for c in cls_names):
                    return n
        return None
    for names in (["IllegalGeneration"], ["UnknownMemberId"], ["InvalidGroupId"], ["RequestTimedOutError"]):
        n = arm_has_leave(names)
        r.check(n is not None and sched[0].id in cr.reach([n.id]), "%s#arm(%s)-stops-consumers" % (rae.qname, names[0]),
                "eviction arm %s does not stop the partition consumers before the rejoin is scheduled" % names[0],
                where(rae, rae.node), "evicted member keeps consuming and committing partitions now owned by others")
    mid = [n for n in cr.nodes if node_assign_value(n, "member_id") is not None and any(
        pol and "UnknownMemberId" in t for t, pol in fr[n.id])]
    r.check(bool(mid) and norm(node_assign_value(mid[0], "member_id")) in ("''", '""'), "%s#unknown-member-forgets-id" % rae.qname,
            "unknown-member arm keeps the stale member id", where(rae, rae.node), "rejoin with an id the coordinator rejects, for ever")
    ogl = prog.method(gci, "on_group_leave")
    stc = ctx.func(GROUP + ".stop_consumers")
    cstc = ctx.cfg(stc)
    for n in cstc.nodes:
        for x in n.calls():
            if call_name(x) == "stop" and call_recv(x) in {unparse(y.target) for y in ast.walk(stc.node) if isinstance(y, ast.For)}:
                v = call_recv(x)
                deps = sorted({norm(t.stmt.test) for t, lab in cstc.control_deps_transitive(n.id) if t.kind == "test" and not (
                    chains_in(at(ctx, stc, t.id, t.stmt.test)) <= {"self", "self.consumers"})})
                r.check(deps in ([], ["%s._start_d" % v], ["%s._start_d is not None" % v]), "%s#stops-every-started-consumer" % stc.qname,
                        "a consumer is stopped only under %s; every consumer whose start Deferred exists must be stopped" % deps, where(stc, x),
                        "a consumer whose start Deferred already fired with an error (rejected commit) keeps running after eviction: it "
                        "fetches and commits with the stale generation")
    r.check(ogl.cls is gci and any(prog.resolve_call(ogl, x) is stc for x in calls_in(ogl)) and any(
        call_name(x) == "stop" and call_recv(x) in {unparse(y.target) for y in ast.walk(stc.node) if isinstance(y, ast.For)}
        for x in calls_in(stc)), "%s#forcible-stop" % ogl.qname,
        "ConsumerGroup.on_group_leave does not forcibly stop every consumer", where(ogl, ogl.node))

    # "committing its progress unless the coordinator rejects the commit": the commit error handler gives up without a
    # retry only for classes that are such a rejection - never for a class the error table itself marks retriable
    from .c09 import exc_table
    anc_, _alias = exc_table(prog)
    hce_ = ctx.func("consumer:Consumer._handle_commit_error")
    chc = ctx.cfg(hce_)
    pce = hce_.first_param()
    retry_nodes = [n.id for n in chc.nodes if any(call_name(x) == "callLater" for x in n.calls())]
    need(retry_nodes, "commit retry scheduling not found")
    gave_up = []
    n_tests = 0
    for n in chc.nodes:
        if n.kind != "test":
            continue
        for sub in ast.walk(n.stmt.test):
            if isinstance(sub, ast.Call) and call_name(sub) == "check" and call_recv(sub) == pce:
                arm_t = [t for t, lab in chc.succ[n.id] if lab and lab[0] == "cond" and lab[2] is True]
                positive = not any(isinstance(u, ast.UnaryOp) and isinstance(u.op, ast.Not) and sub in list(ast.walk(u)) for u in ast.walk(n.stmt.test))
                if not positive or not arm_t:
                    continue
                n_tests += 1
                if any(rn in chc.reach(arm_t) or rn in arm_t for rn in retry_nodes):
                    continue
                for a in sub.args:
                    a = a.value if isinstance(a, ast.Starred) else a
                    for e_ in (expand(prog, hce_, a).elts if isinstance(expand(prog, hce_, a), (ast.Tuple, ast.List)) else [a]):
                        nm = unparse(e_).split(".")[-1]
                        up = anc_.get(nm, {nm})
                        if "RetriableBrokerResponseError" in up or "BrokerResponseError" not in up:
                            gave_up.append(nm)
    r.check(n_tests >= 1 and not gave_up, "%s#commit-abandoned-only-when-rejected" % hce_.qname,
            "the commit is abandoned without a retry for %s, which the error table marks retriable (or which is not a broker answer)" % sorted(set(gave_up)),
            where(hce_, hce_.node), "the coordinator moves while the previous generation's consumers shut down: their commit is answered "
            "NOT_COORDINATOR once, is not retried, and the next generation re-processes what was already processed")

    # ---- R4 single join in flight
    r = ctx.rule("R4", "a join is started only when needed and none is in flight; join/sync senders have one caller", 3,
                 "B")
    co = ctx.cfg(jouter)
    fo = ctx.facts(jouter)
    starts = [n for n in co.nodes if any(prog.resolve_call(jouter, x) is jas for x in n.calls())]
    need(starts, "join routine is not started from join_and_sync")
    for n in starts:
        # the Deferred of the join is kept in _rejoin_d: by the starting statement itself or by a store every path passes
        stored = node_assign_value(n, "_rejoin_d") is not None
        if not stored:
            the_call = [x for x in n.calls() if prog.resolve_call(jouter, x) is jas][0]
            for sn in co.nodes:
                v = node_assign_value(sn, "_rejoin_d")
                if v is not None and not (isinstance(v, ast.Constant) and v.value is None):
                    og = deferred_origins(co, sn.id, v) or []
                    if len(og) == 1 and og[0] is the_call and not co.normal_exits_from(n.id, avoid=[sn.id]):
                        stored = True
        ok = stored and known_falsy(fo[n.id], "self._rejoin_d") and \
            known_truthy(fo[n.id], "self._rejoin_needed")
        r.check(ok, "%s#start-join" % jouter.qname, "join started without `_rejoin_needed` and `_rejoin_d` falsy, or not stored",
                where(jouter, n.stmt), "two join/sync exchanges in flight")
    for nm in ("send_join_group_request", "send_sync_group_request"):
        callers = sorted({f.qname for f in prog.functions(module="_group") for x in calls_in(f, nm)})
        r.check(callers == [jas.qname], "%s#callers(%s)" % (COORD, nm), "%s called from %s" % (nm, callers), facts=callers)

    # ---- R5 heartbeat only when stable
    r = ctx.rule("R5", "heartbeat sent only when not stopping, no rejoin needed, none in flight; one caller", 3, "B")
    ch = ctx.cfg(hb)
    fh = ctx.facts(hb)
    snd = [n for n in ch.nodes if any(call_name(x) == "send_heartbeat_request" for x in n.calls())]
    need(snd, "heartbeat send not found")
    f0 = fh[snd[0].id]
    r.check(("self._stopping", False) in f0 and ("self._rejoin_needed", False) in f0 and known_falsy(f0, "self._heartbeat_request_d")
            and result_stored(ch, snd[0], [x for x in snd[0].calls() if call_name(x) == "send_heartbeat_request"][0], "_heartbeat_request_d"),
            "%s#preconditions" % hb.qname,
            "heartbeat can be sent while stopping / rejoining / another heartbeat is in flight", where(hb, snd[0].stmt),
            "heartbeat with a stale generation resets the coordinator's session timer for an evicted member",
            facts=sorted(t for t, pol in f0))
    callers = sorted({f.qname for f in prog.functions(module="_group") for x in calls_in(f, "send_heartbeat_request")})
    r.check(callers == [hb.qname], "%s#callers(send_heartbeat_request)" % COORD, "heartbeat sender called from %s" % callers)
    # the flag that gates the heartbeat says "stable" only once the sync reply is in: apart from stop(), it is cleared
    # only in the join routine, after the sync exchange
    cci = prog.cls(COORD)
    clr_w = [(f, n) for f, k, n in prog.attr_accesses(cci, "_rejoin_needed", False) if k == "write" and f.name != "__init__" and isinstance(
        n, ast.Assign) and isinstance(n.value, ast.Constant) and n.value.value is False]
    cjs = ctx.cfg(jas)
    sync_nodes = [n.id for n in cjs.nodes if any(call_name(x) == "send_sync_group_request" for x in n.calls())]
    bad_w = []
    for f, n in clr_w:
        if f.name == "stop":
            continue
        nn = cjs.node_of(n) if f is jas else None
        if nn is None or not sync_nodes or not cjs.dominates(sync_nodes, nn.id):
            bad_w.append("%s:%d" % (f.qname, n.lineno))
    r.check(bool(clr_w) and not bad_w, "%s#stable-only-after-sync" % COORD,
            "`_rejoin_needed` is cleared at %s: not in the join routine after the sync exchange" % bad_w, facts=sorted("%s:%d" % (f.qname, n.lineno) for f, n in clr_w),
            witness="a heartbeat tick between the JoinGroup reply and the SyncGroup reply sends a heartbeat from a member that is not stable; "
            "its rebalance-in-progress answer then leaves the flag set for good: the member never heartbeats or rejoins again")

    # ---- R6 nothing but leave after stop (check-after-yield)
    r = ctx.rule("R6", "group requests after a real suspension are dominated by a re-check of _stopping", 3, "B")
    S = {"send_join_group_request", "send_sync_group_request", "send_heartbeat_request", "_load_topic_partitions",
         "on_join_complete", "reset_heartbeat_timer"}
    pred = real_suspension(prog, jas)
    facts, _ = cf.must_facts(prog, suspend_pred=pred)
    real = [n for n in cf.nodes if n.suspends and pred(n)]
    r.info("real suspensions: %s; yields of plain values: %s" % (
        [n.text(40) for n in real], [n.text(40) for n in cf.nodes if n.suspends and not pred(n)]))
    first_real = min([n.id for n in real], default=None)
    for n in cf.nodes:
        for x in n.calls():
            if call_name(x) in S:
                # only sites that follow some real suspension
                after = any(n.id in cf.reach([s.id]) for s in real)
                if not after:
                    r.ok("%s#%s (before any suspension)" % (jas.qname, call_name(x)), where(jas, x))
                    continue
                r.check(("self._stopping", False) in facts[n.id], "%s#%s after suspension" % (jas.qname, call_name(x)),
                        "%s follows a suspension without a re-check of _stopping" % call_name(x), where(jas, x),
                        "stop() runs during that suspension and sends LeaveGroup; the join routine then resumes and "
                        "issues this request after the leave",
                        facts=sorted(t for t, pol in facts[n.id] if "_stopping" in t))

    # the join routine is entered from timers that can outlive stop() (a retriable failure of the exchange in flight arms
    # the rejoin timer while stop() is waiting for the leave reply): nothing - the coordinator lookup included - is
    # requested unless `_stopping` was tested on the way in, in the routine itself or at its only call site
    LOOKUPS = S | {"get_coordinator_broker"}
    first_req = [n for n in cf.nodes if any(call_name(x) in LOOKUPS for x in n.calls()) and n.id in cf.reach(
        [cf.entry.id], avoid=[m.id for m in cf.nodes if m is not n and any(call_name(x) in LOOKUPS for x in m.calls())])]
    f0 = ctx.facts(jas)
    cjo = ctx.cfg(jouter)
    fjo = ctx.facts(jouter)
    callsites = [n for n in cjo.nodes if any(prog.resolve_call(jouter, x) is jas for x in n.calls())]
    entry_guard = bool(callsites) and all(("self._stopping", False) in fjo[n.id] for n in callsites)
    for n in first_req:
        r.check(entry_guard or ("self._stopping", False) in f0[n.id], "%s#entry-request(%s)" % (jas.qname, n.text(40)),
                "the first request of the join routine is issued without `_stopping` having been tested (neither in the routine nor where it is started)",
                where(jas, n.stmt), "an exchange in flight fails retriably while stop() waits for the LeaveGroup reply: the rejoin timer "
                "it arms outlives stop() and sends a coordinator lookup / metadata request after the member has left")

    # ---- R7 stop cancels every handle
    r = ctx.rule("R7", "Coordinator.stop cancels every discovered handle; unstored timers are fenced by a flag stop clears",
                 5, "A+B")
    handles = {}
    for f in [x for x in prog.funcs.values() if x.cls is cci]:
        for n in walk_body_shallow(f.body):
            if isinstance(n, ast.Assign) and isinstance(n.value, ast.Call):
                nm = call_name(n.value)
                kind = None
                if nm == "callLater":
                    kind = "delayedcall"
                elif nm == "LoopingCall":
                    kind = "looper"
                elif nm == "Deferred":
                    kind = "deferred"
                else:
                    g = prog.resolve_call(f, n.value)
                    if g is not None and returns_deferred(prog, g):
                        kind = "deferred"
                    elif nm == "start" and "looper" in (call_recv(n.value) or ""):
                        kind = "looper_d"
                for t in n.targets:
                    a = self_attr(t)
                    if a and kind:
                        handles[a] = kind
    excluded = {"_start_d": "result handed to the user", "_heartbeat_looper_d": "fires when the looper stops"}
    act = {a: k for a, k in handles.items() if a not in excluded}
    ctx.extra["handles"] = handles
    cst = ctx.cfg(cstop)
    local_src = {}
    for n in cst.nodes:
        st = n.stmt
        if n.kind == "stmt" and isinstance(st, ast.Assign) and isinstance(st.targets[0], ast.Tuple) and isinstance(st.value, ast.Tuple):
            for t, v in zip(st.targets[0].elts, st.value.elts):
                if isinstance(t, ast.Name) and self_attr(v):
                    local_src[t.id] = self_attr(v)
    cancelled = {}
    for n in cst.nodes:
        for x in n.calls():
            if call_name(x) in ("cancel", "stop") and isinstance(x.func, ast.Attribute):
                rv = x.func.value
                a = self_attr(rv) or (local_src.get(rv.id) if isinstance(rv, ast.Name) else None)
                if not a and (call_recv(x) or "").startswith("self.") and (call_recv(x) or "").count(".") == 1:
                    a = call_recv(x)[5:]  # a local that holds what the attribute held (read-then-clear)
                if a:
                    cancelled.setdefault(a, []).append(n)
    for a, k in sorted(act.items()):
        ok = a in cancelled
        why = "no cancel()/stop() of self.%s in Coordinator.stop" % a
        for n in cancelled.get(a, []):
            for t, lab in cst.control_deps(n.id):
                e = at(ctx, cstop, t.id, t.stmt.test if t.kind == "test" else t.stmt.iter)
                foreign = [c for c in chains_in(e) if c != "self" and not (c == "self." + a or c.startswith("self." + a + "."))]
                if foreign:
                    ok = False
                    why = "cancel of self.%s depends on unrelated condition %s" % (a, norm(e))
        r.check(ok, "%s#cancels(%s:%s)" % (cstop.qname, a, k), why, where(cstop, cstop.node),
                "that activity survives stop(): rejoin / heartbeat after the leave")
    # the fence stays up: timers armed while stop() waits for the leave reply outlive it and are turned away only by the flag
    fence_w = [(f_, node) for f_, k_, node in prog.attr_accesses(cci, "_stopping", False) if k_ == "write"]
    lowered = []
    for f_, node in fence_w:
        cfw = ctx.cfg(f_)
        hit = cfw.containing(node)
        v_ = node_assign_value(hit[0], "_stopping") if hit else None
        if not (isinstance(v_, ast.Constant) and v_.value is True) and f_.name not in ("__init__", "start"):
            lowered.append("%s line %d" % (f_.qname, getattr(node, "lineno", 0)))
    r.check(bool(fence_w) and not lowered, "%s#stop-fence-stays-up" % cstop.qname, "`_stopping` is lowered outside the constructor / start(): %s" % lowered,
            where(cstop, cstop.node), "a rejoin timer armed while stop() waited for the leave reply fires afterwards and starts a new join exchange")
    # unstored timers
    sets_false = {self_attr(t) for n in cst.nodes if n.kind == "stmt" and isinstance(n.stmt, ast.Assign) and isinstance(
        n.stmt.value, ast.Constant) and n.stmt.value.value is False for t in n.stmt.targets if self_attr(t)}
    for f in [x for x in prog.funcs.values() if x.cls is cci]:
        cff = ctx.cfg(f)
        for n in cff.nodes:
            for x in n.calls():
                if call_name(x) == "callLater" and not (isinstance(n.stmt, ast.Assign) and any(self_attr(t) for t in n.stmt.targets)):
                    cb = prog.resolve_callable(f, x.args[1]) if len(x.args) > 1 else None
                    ok = False
                    if cb is not None:
                        ccb = ctx.cfg(cb)
                        fcb = ctx.facts(cb)
                        acts = [m for m in ccb.nodes if any(prog.resolve_call(cb, y) is jas for y in m.calls())]
                        ok = bool(acts) and all(any(("self." + a, True) in fcb[m.id] for a in sets_false) for m in acts)
                    r.check(ok, "%s#unstored-timer->%s" % (f.qname, cb.name if cb else "?"),
                            "a timer whose handle is discarded calls a function not fenced by a flag that stop() clears",
                            where(f, x), "timer fires after stop(): a join is started for a stopped member")


MUTANTS = [
    {"id": "join-entry-ignores-stopping", "file": "_group.py",
     "old": "        if self._stopping:\n            # a rejoin timer armed while stop() was waiting for the leave\n            # reply outlived it: we have left the group, request nothing more\n            log.debug(\"join_and_sync: stopping\")\n            return\n",
     "new": "", "expect": "C16.R6", "note": "finding F25"},
    {"id": "no-generation-kwarg", "file": "_group.py", "old": "                    commit_generation_id=self.generation_id,\n", "new": "",
     "expect": "C16.R1"},
    {"id": "start-latest", "file": "_group.py", "old": "start_d = consumer.start(OFFSET_COMMITTED)", "new": "start_d = consumer.start(OFFSET_LATEST)",
     "expect": "C16.R1"},
    {"id": "prepare-not-awaited", "file": "_group.py", "old": "        yield self.on_join_prepare()\n", "new": "        self.on_join_prepare()\n",
     "expect": "C16.R2"},
    {"id": "prepare-conditional", "file": "_group.py", "old": "        yield self.on_join_prepare()\n",
     "new": "        if self.generation_id is not None:\n            yield self.on_join_prepare()\n", "expect": "C16.R2"},
    {"id": "illegal-generation-keeps-consumers", "file": "_group.py",
     "old": "                self.generation_id,\n            )\n            self.on_group_leave()\n", "new": "                self.generation_id,\n            )\n",
     "expect": "C16.R3"},
    {"id": "unknown-member-keeps-id", "file": "_group.py", "old": "            self.on_group_leave()\n            self.member_id = \"\"\n",
     "new": "            self.on_group_leave()\n", "expect": "C16.R3"},
    {"id": "stop-skips-fired-consumers", "file": "_group.py",
     "old": "                    try:\n                        if consumer._start_d:\n                            consumer.stop()\n                    except Exception as e2:\n                        log.error(\n                            \"shutdown_consumers stop error in consumer %s: %s\",\n                            consumer,\n                            e2,\n                        )\n            log.debug(\"stop_consumers",
     "new": "                    try:\n                        if consumer._start_d and not consumer._start_d.called:\n                            consumer.stop()\n                    except Exception as e2:\n                        log.error(\n                            \"shutdown_consumers stop error in consumer %s: %s\",\n                            consumer,\n                            e2,\n                        )\n            log.debug(\"stop_consumers",
     "expect": "C16.R3", "note": "seeded C16-1"},
    {"id": "concurrent-join", "file": "_group.py",
     "old": "        if self._rejoin_d:\n            # XXX: This should throw, not silently ignore.\n            log.debug(\"join_and_sync: rejoin in progress\")\n            return\n",
     "new": "", "expect": "C16.R4"},
    {"id": "heartbeat-while-rejoining", "file": "_group.py",
     "old": "        if self._rejoin_needed:\n            log.debug(\"%s: skipping heartbeat, rejoin needed\", self)\n            return\n", "new": "",
     "expect": "C16.R5"},
    {"id": "no-stopping-recheck-after-prepare", "file": "_group.py",
     "old": "        yield self.on_join_prepare()\n        if self._stopping:\n            return\n", "new": "        yield self.on_join_prepare()\n",
     "expect": "C16.R6"},
    {"id": "join-result-not-checked-for-stop", "file": "_group.py", "old": "        if not join_response or self._stopping:",
     "new": "        if not join_response:", "expect": "C16.R6"},
    {"id": "stop-forgets-rejoin-timer", "file": "_group.py",
     "old": "        if self._rejoin_wait_dc:\n            self._rejoin_wait_dc.cancel()\n", "new": "", "expect": "C16.R7"},
    {"id": "stop-keeps-rejoin-needed", "file": "_group.py", "old": "        self._stopping = True\n        self._rejoin_needed = False\n",
     "new": "        self._stopping = True\n", "expect": "C16.R7"},
]
TWINS = [
    {"id": "recheck-merged", "file": "_group.py",
     "edits": [("_group.py", "        yield self.on_join_prepare()\n        if self._stopping:\n            return\n        join_response",
                "        yield self.on_join_prepare()\n        if not self._stopping:\n            pass\n        else:\n            return\n        join_response")]},
]

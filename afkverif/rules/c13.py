"""C13 - consumer stop and shutdown leave nothing running and report once.

Decided: stop() cancels every activity handle the class can create (handles
are discovered from the source, not listed); every on-failure handler attached
to something stop() cancels ignores the stop-induced CancelledError before it
reports, re-enters stop() or schedules; every scheduling site is guarded by a
not-stopping test or is entered only from start()/commit()/shutdown() or from
handlers of handles that stop() cancels; the start Deferred is created once,
cleared only by stop() and fired under `not called`; the shutdown sequence
(processor idle -> commit -> stop -> fire).  Not decided: a user processor
that ignores cancellation.
"""
import ast

from ..cfg import known_falsy
from ..model import self_attr, unparse, walk_body_shallow
from .util import *  # noqa: F401,F403
from .util import (at, stored_attrs, case_reach, aliases_of, call_edges, chains_in, call_name, call_recv, calls_in, need, node_assign_value, node_writes_attr,
                   norm, registrations, where)

TECHNIQUE = "handle discovery + teardown exhaustiveness, stop-cancel guard dominance in failure handlers, entry-point " \
            "analysis of scheduling sites"
EXPLANATION = (
    "Rules over afkak/consumer.py. Handles = attributes of Consumer ever assigned a Deferred-like value, an "
    "IDelayedCall or a LoopingCall (discovered by scanning every assignment/append in the class); for each, stop() "
    "must contain a cancel()/stop() guarded by nothing but the handle's own truthiness. For each on-failure handler "
    "registered on such a handle (including Deferreds returned by methods that store them in a handle, e.g. "
    "commit()), every sink (fire of the start Deferred, self.stop(), callLater, client send) must be dominated by "
    "the complement of `_stopping and failure.check(CancelledError)`. Scheduling sites are classified by the entry "
    "points that can reach them in the class call/registration graph."
    ' Also: start() returns the Deferred it created, and the function that fails the start Deferred does nothing afterwards (R4, finding F39).'
    " A delayed-call handle that gates re-arming is cleared by its callback on every path; every Deferred handle stop() cancels is gone afterwards (cleared by stop() or by a both-outcomes / first failure-side stage of its chain)."
)
SHARED = [('C03', ['R2'], 'the processor is not invoked again once stop() has begun'),
          ('C14', ['R6'], 'a consumer started again after stop/shutdown runs with the configuration it was given'),
          ('C14', ['R7'], 'an exception in a reply handler reaches the error handler, which retries or fails the start Deferred (the consumer never sits idle with that Deferred unfired)')]
ASSUMPTIONS = [
    "Twisted: cancel() of an unfired Deferred errbacks CancelledError through its chain synchronously",
    "IDelayedCall.cancel()/LoopingCall.stop() prevent further calls",
]
CONS = "consumer:Consumer"
EXCLUDED = {
    "_start_d": "result handed to the user; fired (not cancelled) by stop()",
    "_shutdown_d": "result handed to the user of shutdown(); fired by the shutdown handlers",
    "_commit_looper_d": "fires by itself when the looper is stopped",
}
DEFERRED_MAKERS = {"Deferred", "maybeDeferred", "deferLater", "DeferredList"}
SCHEDULERS = {"callLater"}


def _is_handle_value(v):
    if not isinstance(v, ast.Call):
        return None
    nm = call_name(v)
    if nm in DEFERRED_MAKERS:
        return "deferred"
    if nm == "callLater":
        return "delayedcall"
    if nm == "LoopingCall":
        return "looper"
    if nm and nm.startswith("send_") and (call_recv(v) or "").endswith("client"):
        return "deferred"
    if nm == "start" and isinstance(v.func, ast.Attribute):
        return "deferred"
    return None


def discover_handles(prog, ci):
    """attr -> kind, from every assignment / append in the class."""
    handles = {}
    for f in prog.funcs.values():
        if f.cls is not ci:
            continue
        local_kinds = {}
        for n in walk_body_shallow(f.body):
            if isinstance(n, ast.Assign):
                k = _is_handle_value(n.value)
                for t in n.targets:
                    a = self_attr(t)
                    if a and k:
                        handles[a] = k
                    elif isinstance(t, ast.Name) and k:
                        local_kinds[t.id] = k
                # chained: self.x = d = maybeDeferred(...)
            if isinstance(n, ast.Call) and call_name(n) == "append" and isinstance(n.func.value, ast.Attribute):
                a = self_attr(n.func.value)
                if a and n.args:
                    v = n.args[0]
                    if _is_handle_value(v) or (isinstance(v, ast.Name) and local_kinds.get(v.id)):
                        handles[a] = "list"
        # a handle kept through a local: `d = self.client.send_x(...)` ... `self._req = d`
        for n in walk_body_shallow(f.body):
            if isinstance(n, ast.Assign) and isinstance(n.value, ast.Name) and local_kinds.get(n.value.id):
                for t in n.targets:
                    a = self_attr(t)
                    if a:
                        handles[a] = local_kinds[n.value.id]
        # second pass for appends of locals defined later in source order
        for n in walk_body_shallow(f.body):
            if isinstance(n, ast.Call) and call_name(n) == "append" and isinstance(n.func.value, ast.Attribute):
                a = self_attr(n.func.value)
                if a and n.args and isinstance(n.args[0], ast.Name) and local_kinds.get(n.args[0].id):
                    handles[a] = "list"
    return handles


def methods_returning_handle(prog, ci, handles):
    """method name -> handle attr, for methods that return a value they also
    stored in a handle (e.g. commit() returns a Deferred appended to _commit_ds)."""
    out = {}
    for f in prog.funcs.values():
        if f.cls is not ci or f.parent is not None:
            continue
        stored = {}
        for n in walk_body_shallow(f.body):
            if isinstance(n, ast.Call) and call_name(n) == "append" and isinstance(n.func.value, ast.Attribute):
                a = self_attr(n.func.value)
                if a in handles and n.args and isinstance(n.args[0], ast.Name):
                    stored[n.args[0].id] = a
            if isinstance(n, ast.Assign):
                for t in n.targets:
                    a = self_attr(t)
                    if a in handles:
                        for t2 in n.targets:
                            if isinstance(t2, ast.Name):
                                stored[t2.id] = a
                        if isinstance(n.value, ast.Name):
                            stored[n.value.id] = a
        for n in walk_body_shallow(f.body):
            if isinstance(n, ast.Return) and isinstance(n.value, ast.Name) and n.value.id in stored:
                out[f.name] = stored[n.value.id]
    return out


def stop_cancels(ctx, stop):
    """handle attr -> (node, call) for cancel()/stop() calls in stop()."""
    cf = ctx.cfg(stop)
    local_src = {}
    for n in cf.nodes:
        st = n.stmt
        if n.kind == "stmt" and isinstance(st, ast.Assign):
            if isinstance(st.targets[0], ast.Tuple) and isinstance(st.value, ast.Tuple):
                for t, v in zip(st.targets[0].elts, st.value.elts):
                    if isinstance(t, ast.Name) and self_attr(v):
                        local_src[t.id] = self_attr(v)
            elif isinstance(st.targets[0], ast.Name):
                v = st.value
                if self_attr(v):
                    local_src[st.targets[0].id] = self_attr(v)
                elif isinstance(v, ast.Call) and call_name(v) == "pop" and self_attr(v.func.value):
                    local_src[st.targets[0].id] = self_attr(v.func.value)
    out = {}
    for n in cf.nodes:
        for c in n.calls():
            if call_name(c) in ("cancel", "stop") and isinstance(c.func, ast.Attribute):
                rv = c.func.value
                a = self_attr(rv) or (local_src.get(rv.id) if isinstance(rv, ast.Name) else None)
                if not a and isinstance(rv, ast.Call) and call_name(rv) in ("pop", "popleft") and isinstance(rv.func, ast.Attribute):
                    a = self_attr(rv.func.value)  # self.<list>.pop().cancel(): an element of the handle list
                if a:
                    out.setdefault(a, []).append((n, c))
    return out


def run(ctx):
    prog = ctx.prog
    ci = prog.cls(CONS)
    stop = ctx.func(CONS + ".stop")
    start = ctx.func(CONS + ".start")
    shutdown = ctx.func(CONS + ".shutdown")
    handles = discover_handles(prog, ci)
    for a in ("_request_d", "_retry_call", "_commit_req", "_processor_d", "_msg_block_d"):
        need(a in handles, "anchor handle %s not discovered in Consumer" % a)
    active = {a: k for a, k in handles.items() if a not in EXCLUDED}
    ctx.extra["handles"] = dict(handles)

    # ---- R1 stop cancels every handle
    r = ctx.rule("R1", "stop() cancels every discovered activity handle, guarded only by the handle itself", 8, "A+B")
    sc = stop_cancels(ctx, stop)
    fst = ctx.facts(stop)
    for a, k in sorted(active.items()):
        hits = sc.get(a, [])
        ok = bool(hits)
        why = "no cancel()/stop() of self.%s in stop()" % a
        cst = ctx.cfg(stop)
        for n, c in hits:
            deps = cst.control_deps_transitive(n.id)
            def foreign(t):
                e = at(ctx, stop, t.id, t.stmt.test if t.kind == "test" else t.stmt.iter)
                own = "self." + a
                out_ = []
                for c in chains_in(e):
                    if c == "self" or c == own or c.startswith(own + "."):
                        continue
                    root_ = c.split(".")[0]
                    if root_ != "self":
                        # a local that holds what the handle attribute held (read-then-clear swap, plain copy)
                        og_ = value_origins(cst, t.id, ast.Name(id=root_, ctx=ast.Load()), params=stop.params) or []
                        if og_ and all(norm(e_) == own for _d, e_ in og_):
                            continue
                    out_.append(c)
                return out_
            other = sorted({norm(t.stmt.test if t.kind == "test" else t.stmt.iter) for t, lab in deps if foreign(t)})
            if other:
                ok = False
                why = "cancel of self.%s is subject to unrelated conditions %s" % (a, other)
        r.check(ok, "%s#cancels(%s:%s)" % (stop.qname, a, k), why, where(stop, hits[0][1] if hits else stop.node),
                "stop() with that activity live: it keeps fetching / committing / ticking after stop returned",
                facts=["sites=%d" % len(hits)])
    # a request or processor handle is cancelled by nobody but stop() (which raises `_stopping` first): the failure
    # handlers tell "cancelled by stop()" from a failed attempt by that flag alone
    stray_c = []
    for f_ in sorted([x for x in prog.funcs.values() if x.module.name == "consumer"], key=lambda x: x.qname):
        top_ = f_
        while top_.parent is not None:
            top_ = top_.parent
        if top_.cls is not ci or top_ is stop:
            continue
        cfx, ffx = ctx.cfg(f_), ctx.facts(f_)
        for n_ in cfx.nodes:
            for c_ in n_.calls():
                if call_name(c_) != "cancel" or not isinstance(c_.func, ast.Attribute):
                    continue
                og_ = value_origins(cfx, n_.id, c_.func.value, params=f_.params) if isinstance(c_.func.value, ast.Name) else [(n_.id, c_.func.value)]
                hit_ = sorted({self_attr(e_) for _d, e_ in (og_ or []) if self_attr(e_) in active and active[self_attr(e_)] == "deferred"})
                if hit_ and ("self._stopping", True) not in ffx[n_.id]:
                    stray_c.append("%s line %d (%s)" % (f_.qname, n_.lineno, hit_[0]))
    r.check(not stray_c, "%s#requests-cancelled-only-by-stop" % CONS, "a request / processor Deferred is cancelled outside stop(): %s" % stray_c,
            where(stop, stop.node), "a graceful shutdown that cancels the long-poll fetch: the cancellation counts as a failed attempt and, at the "
            "attempt limit, fails the start Deferred of a cleanly shut down consumer")
    r.info("handles discovered: %s; excluded: %s" % (sorted(active), {k: v for k, v in EXCLUDED.items() if k in handles}))

    # ---- R2 stop-induced cancellations are ignored by failure handlers
    r = ctx.rule("R2", "failure handlers on cancelled handles ignore the stop-induced CancelledError before any sink",
                 5, "C")
    ret_handle = methods_returning_handle(prog, ci, handles)
    seen = set()
    for f in [x for x in prog.funcs.values() if x.cls is ci]:
        al_cache = {}
        for reg in registrations(f, prog):
            if reg["eb"] is None:
                continue
            root = reg["root"]
            root_node = reg["root_node"]
            on = None
            for a in active:
                al = al_cache.setdefault(a, aliases_of(f, "self." + a))
                if root in al:
                    on = a
            if on is None:
                # Deferred returned by a method that stores it in a handle, directly or via a local
                cands = [root_node]
                if isinstance(root_node, ast.Name):
                    cands = [x.value for x in walk_body_shallow(f.body) if isinstance(x, ast.Assign) and any(
                        unparse(t) == root_node.id for t in x.targets)]
                for cnd in cands:
                    if isinstance(cnd, ast.Call) and call_recv(cnd) == "self" and call_name(cnd) in ret_handle:
                        on = ret_handle[call_name(cnd)]
            if on is None or on not in sc:
                continue
            h = prog.resolve_callable(f, reg["eb"])
            if h is None or (h.qname, on) in seen:
                continue
            if reg["kind"] == "both":
                continue  # pure bookkeeping stages are checked by their own rules (C02/C03)
            seen.add((h.qname, on))
            p = h.first_param()
            ch = ctx.cfg(h)
            fh = ctx.facts(h)
            accept = [("self._stopping and %s.check(CancelledError)" % p, False), ("self._stopping", False),
                      ("%s.check(CancelledError)" % p, False)]
            sinks = []
            for n in ch.nodes:
                for c in n.calls():
                    rc = call_recv(c) or ""
                    nm = call_name(c)
                    if (nm in ("errback", "callback") and rc == "self._start_d") or (nm == "stop" and rc == "self") or \
                            nm == "callLater" or (nm.startswith("send_") and rc == "self.client") or \
                            (nm in ("_retry_fetch", "_do_fetch", "_send_commit_request") and rc == "self"):
                        sinks.append((n, c))
            bad = []
            anc_ = {"CancelledError": {"CancelledError", "Exception"}}
            for n, c in sinks:
                facts = fh[n.id]
                ok = any(a in facts for a in accept)
                # arm guarded by a check of a class disjoint from CancelledError
                for t, pol in facts:
                    if pol and t.startswith("%s.check(" % p) and "CancelledError" not in t:
                        ok = True
                if not ok:
                    # path-sensitive: with stopping set and a CancelledError in hand the sink is unreachable
                    ok = not case_reach(ch, p, "CancelledError", anc_, True, {n.id})
                if not ok:
                    bad.append(norm(c, 60))
            r.check(not bad, "%s#on-failure-of(%s)" % (h.qname, on),
                    "failure handler reaches %s without first excluding the CancelledError caused by stop()" % bad,
                    where(h, h.node),
                    "stop() while that activity is live: start()'s Deferred fails with CancelledError / stop() is "
                    "re-entered and the shutdown Deferred never fires", facts=["sinks=%d" % len(sinks)])
            # a request made through the client and cancelled in flight does not come back as CancelledError: the
            # client accounts for it as a failed payload and fails with FailedPayloadsError (C07.R5).  While stop()
            # runs, that failure too is stop()'s own doing and must not reach the start Deferred
            from_client = False
            for f3, k3, n3 in prog.attr_accesses(ci, on, False):
                if k3 == "write" and isinstance(n3, ast.Assign):
                    og3 = deferred_origins(ctx.cfg(f3), ctx.cfg(f3).node_of(n3).id, n3.value) if ctx.cfg(f3).node_of(n3) is not None else None
                    if og3 and any(isinstance(o, ast.Call) and call_name(o).startswith("send_") and call_recv(o) == "self.client" for o in og3):
                        from_client = True
            if from_client:
                from .c09 import exc_table
                anc2, _al2 = exc_table(prog)
                fatal = [norm(c, 60) for n, c in sinks if call_name(c) == "errback" and (call_recv(c) or "") == "self._start_d"
                         and case_reach(ch, p, "FailedPayloadsError", anc2, True, {n.id})]
                r.check(not fatal, "%s#cancelled-in-flight-is-not-an-error(%s)" % (h.qname, on),
                        "while stop() runs, a request it cancelled in flight - which the client reports as FailedPayloadsError, not "
                        "CancelledError - can fail the start Deferred (%s)" % fatal, where(h, h.node),
                        "consumer on the real client with an attempt limit of 1 (or 2 after any successful fetch), stop() with a fetch "
                        "in flight: the Deferred returned by start() fails with FailedPayloadsError instead of firing with the last "
                        "processed offset")

    # ---- R3 no new activity once stopping
    r = ctx.rule("R3", "scheduling sites are guarded by not-stopping or entered only from start/commit/shutdown or "
                       "from handlers of cancelled handles", 6, "B")
    members = [x for x in prog.funcs.values() if x.cls is ci]
    callers = {}
    reg_entries = {}  # func qname -> list of (registrar func, root text, kind)
    for f in members:
        for n, g, kind in call_edges(ctx, f):
            if g.cls is not ci:
                continue
            if kind == "call":
                callers.setdefault(g.qname, set()).add(f.qname)
            else:
                callc = [c for c in n.calls()]
                roots = []
                for c in callc:
                    if call_name(c) in ("addCallback", "addErrback", "addBoth", "addCallbacks"):
                        for reg in registrations(f, prog):
                            if reg["call"] is c:
                                roots.append(reg["root"])
                    elif call_name(c) in ("callLater", "LoopingCall"):
                        # which handle stores the timer?
                        tgt = sorted(stored_attrs(ctx.cfg(f), c))
                        roots.append("timer:" + ",".join(t for t in tgt if t))
                reg_entries.setdefault(g.qname, []).append((f, roots, n))
    allowed_public = {"start", "commit", "shutdown", "__init__"}

    def entry_ok(q, depth=0, seen=None):
        """Every way into function q is allowed. Returns (ok, reason)."""
        seen = seen or set()
        if q in seen or depth > 8:
            return True, ""
        seen = seen | {q}
        f = prog.funcs[q]
        cs = callers.get(q, set())
        regs = reg_entries.get(q, [])
        if not cs and not regs:
            top = f
            while top.parent is not None:
                top = top.parent
            if top.name in allowed_public or f.parent is not None:
                return True, ""
            return False, "public entry %s" % q
        for cq in cs:
            ok, why = entry_ok(cq, depth + 1, seen)
            if not ok:
                return ok, why
        for rf, roots, n in regs:
            for root in roots:
                if root.startswith("timer:"):
                    hs = [h for h in root[6:].split(",") if h]
                    if hs and all(h in sc or h in EXCLUDED or h == "_commit_looper" for h in hs):
                        continue
                    if not hs:
                        # discarded timer handle: its callback must start with a stop guard
                        g = prog.funcs[q]
                        cg = ctx.cfg(g)
                        first = [s for s, lab in cg.succ[cg.entry.id]]
                        if first and cg.nodes[first[0]].kind == "test" and "_stopping" in norm(cg.nodes[first[0]].stmt.test):
                            continue
                    return False, "timer not stored in a handle stop() cancels (%s in %s)" % (root, rf.qname)
                al_ok = False
                for a in list(sc) + list(EXCLUDED):
                    if root in aliases_of(rf, "self." + a):
                        al_ok = True
                if isinstance(root, str) and (root.startswith("self.commit()") or root in ("commit_d",)):
                    al_ok = True
                if not al_ok:
                    # chain on a local Deferred: then the registrar itself must be allowed
                    ok, why = entry_ok(rf.qname, depth + 1, seen)
                    if not ok:
                        return ok, why
        return True, ""

    for f in members:
        cf = ctx.cfg(f)
        ff = ctx.facts(f)
        for n in cf.nodes:
            for c in n.calls():
                nm = call_name(c)
                rc = call_recv(c) or ""
                if nm == "callLater" or (nm.startswith("send_") and rc == "self.client") or (
                        nm == "start" and rc.startswith("self._commit_looper")):
                    guarded = ("self._stopping", False) in ff[n.id] or ("self._start_d is None", False) in ff[n.id]
                    ok, why = (True, "guard") if guarded else entry_ok(f.qname)
                    r.check(ok, "%s#schedule:%s" % (f.qname, norm(c.func)),
                            "scheduling site reachable after stop(): %s" % why, where(f, c),
                            "activity (re)started after stop() returned", facts=["guarded=%s" % guarded])

    # start() itself: the reply to the first request may be there at once, and the processor - run from inside start() -
    # may stop the consumer.  Whatever start() arms after issuing that request is armed on a stopped consumer, unless it
    # looks at `_start_d` again first
    cst_ = ctx.cfg(start)
    fst_ = ctx.facts(start)
    issuing = []
    for n in cst_.nodes:
        for c in n.calls():
            g = prog.resolve_call(start, c)
            if g is not None and g.cls is ci and any(any(call_name(c2).startswith("send_") and call_recv(c2) == "self.client" for c2 in calls_in(h))
                                                     for h in list(reachable_funcs(prog, g).values()) + [g]):
                issuing.append(n.id)
    armed_late = []
    for n in cst_.nodes:
        for c in n.calls():
            nm, rc = call_name(c), call_recv(c) or ""
            if (nm == "start" and "looper" in rc.lower()) or nm in ("callLater", "LoopingCall"):
                if issuing and n.id in cst_.reach(issuing) and not any("_start_d" in t for t, pol in fst_[n.id]):
                    armed_late.append(n)
    r.check(bool(issuing) and not armed_late, "%s#armed-before-first-request" % start.qname,
            "start() arms %s after issuing the first request, without looking at `_start_d` again" % [n.text(50) for n in armed_late],
            where(start, armed_late[0].stmt if armed_late else start.node), "the first reply is available at once and the processor stops the "
            "consumer from inside start(): the automatic-commit timer is then started on the stopped consumer and keeps running")

    # activity started from the processor-success chain also has to look at "still started": the processor itself may
    # have called stop() (nothing to cancel yet, and stop() resets the stopping flag before the chain goes on)
    ac = ctx.func(CONS + "._auto_commit")
    cac = ctx.cfg(ac)
    fac = ctx.facts(ac)
    cm_nodes = [n for n in cac.nodes if any(call_name(c) == "commit" and call_recv(c) == "self" for c in n.calls())]
    for n in cm_nodes:
        f_ = fac[n.id]
        started = ("self._start_d", True) in f_ or ("not self._start_d", False) in f_ or ("self._start_d is None", False) in f_
        r.check(started, "%s#commit-only-while-started" % ac.qname, "the automatic commit is started without `_start_d` having been tested",
                where(ac, n.stmt), "the processor calls stop() and then returns success with the count threshold reached: the stopped "
                "consumer sends an OffsetCommit and, on a retriable error, keeps retrying after stop() has returned")

    # ---- R4 start Deferred
    r = ctx.rule("R4", "start Deferred: created once under `_start_d is None`, cleared only by stop(), fired under "
                       "`not called` with the processed offset; start() returns the Deferred it created; its failure is the last word", 8, "B")
    for f, k, node in prog.attr_accesses(ci, "_start_d", False):
        if k != "write" or f.name == "__init__":
            continue
        cf = ctx.cfg(f)
        n = cf.node_of(node)
        v = node_assign_value(n, "_start_d")
        if isinstance(v, ast.Constant) and v.value is None:
            r.check(f is stop, "%s#clear(_start_d)" % f.qname, "_start_d cleared outside stop()", where(f, node))
        else:
            facts = ctx.facts(f)[n.id]
            r.check(f is start and ("self._start_d is None", True) in facts, "%s#create(_start_d)" % f.qname,
                    "start Deferred created without the already-started test", where(f, node),
                    "second start() replaces the Deferred: the first never fires")
    # what start() returns is the Deferred it created: the attribute may have been cleared by then (the first reply can be
    # there at once and the processor may stop() the consumer before start() returns)
    cst = ctx.cfg(start)
    def _created(n):
        v_ = node_assign_value(n, "_start_d")
        if v_ is None or (isinstance(v_, ast.Constant) and v_.value is None):
            return None
        og_ = value_origins(cst, n.id, v_, params=start.params) or []
        return og_[0][1] if len(og_) == 1 and isinstance(og_[0][1], ast.Call) else None
    creates = [n for n in cst.nodes if _created(n) is not None]
    sret = [n for n in cst.nodes if n.kind == "stmt" and isinstance(n.stmt, ast.Return) and creates and n.id in cst.reach([creates[0].id])]
    okr, whyr = bool(creates) and bool(sret), "start() does not return after creating its Deferred"
    writers = {f_.qname for f_, k_, _n in prog.attr_accesses(ci, "_start_d", False) if k_ == "write" and f_.name != "__init__"}
    for n in sret:
        og_ = value_origins(cst, n.id, n.stmt.value, params=start.params) if n.stmt.value is not None else None
        if og_ and all(e_ is _created(creates[0]) for _d, e_ in og_):
            continue
        if n.stmt.value is not None and self_attr(n.stmt.value) == "_start_d":
            # re-read of the attribute: fine only if nothing called in between can write it
            between = cst.reach([creates[0].id]) & (set(cst._reaching_to(n.id)) if hasattr(cst, "_reaching_to") else set())
            risky = []
            for i_ in between:
                for c_ in cst.nodes[i_].calls():
                    g_ = prog.resolve_call(start, c_)
                    if g_ is None:
                        continue
                    reach_ = reachable_funcs(prog, g_, follow_registered=True, depth=10)
                    # application code (a callable held in an instance attribute, e.g. the processor) may call any public
                    # method of the object
                    app_ = [h_ for h_ in reach_.values() for x_ in walk_body_shallow(h_.body) if isinstance(x_, ast.Call) and self_attr(x_.func)
                            and h_.cls is not None and self_attr(x_.func) not in h_.cls.methods and prog.resolve_call(h_, x_) is None]
                    pub_writers = {q_ for q_ in writers if not q_.split(".")[-1].startswith("_")}
                    if writers & set(reach_) or (app_ and pub_writers):
                        risky.append("%s (line %d)" % (g_.qname, cst.nodes[i_].lineno))
            if not risky:
                continue
            okr, whyr = False, "start() returns a re-read of `self._start_d` after calling %s, which can reach a writer of it (stop() clears it)" % ", ".join(sorted(set(risky)))
        else:
            okr, whyr = False, "start() returns `%s`, not the Deferred it created" % (norm(n.stmt.value) if n.stmt.value is not None else None)
    r.check(okr, "%s#returns-created-deferred" % start.qname, whyr, where(start, sret[0].stmt if sret else start.node),
            "the first reply is available at once and the processor stops the consumer: start() returns None instead of the fired Deferred")
    # the failure of the start Deferred is the consumer's last word: the function that reports it issues no request and
    # arms no timer afterwards
    def _active(f_, c_):
        if call_name(c_) == "callLater" or (call_name(c_) or "").startswith("send_") and (call_recv(c_) or "").startswith("self.client"):
            return True
        g_ = prog.resolve_call(f_, c_)
        return g_ is not None and g_.cls is ci and any(
            call_name(y) == "callLater" or ((call_name(y) or "").startswith("send_") and (call_recv(y) or "").startswith("self.client"))
            for h_ in reachable_funcs(prog, g_).values() for y in calls_in(h_))
    n_eb = 0
    for f_ in sorted([x for x in prog.funcs.values() if x.module.name == "consumer" and (x.cls is ci or (x.parent is not None))], key=lambda x: x.qname):
        top_ = f_
        while top_.parent is not None:
            top_ = top_.parent
        if top_.cls is not ci:
            continue
        cfe = ctx.cfg(f_)
        for n in cfe.nodes:
            if not any(call_name(c) == "errback" and call_recv(c) == "self._start_d" for c in n.calls()):
                continue
            n_eb += 1
            after = [cfe.nodes[i] for i in cfe.reach([n.id], follow_exc=False)]
            late = [m for m in after if any(_active(f_, c) for c in m.calls())]
            r.check(not late, "%s#reports-failure-then-nothing(line-of:%s)" % (f_.qname, norm(n.stmt, 40)),
                    "after failing the start Deferred the function goes on to %s" % ", ".join("`%s` (line %d)" % (m.text(50), m.lineno) for m in late[:2]),
                    where(f_, n.stmt), "the failure has been reported and the consumer keeps requesting / retrying; with an attempt limit the "
                    "Deferred is failed a second time (AlreadyCalledError)")
    need(n_eb >= 3, "fewer than 3 sites failing the start Deferred")
    cs = ctx.cfg(stop)
    fires = [(n, c) for n in cs.nodes for c in n.calls() if call_name(c) == "callback" and not (call_recv(c) or "").startswith("_msg")]
    okf = False
    for n, c in fires:
        rc = call_recv(c)
        if ((rc + ".called", False) in fst[n.id] or (unparse(c.func.value) + ".called", False) in fst[n.id]) and c.args and norm(
                c.args[0]) == "self._last_processed_offset":
            okf = True
    # ... after the attribute was cleared: a callback on the start Deferred that starts the consumer again must find it stopped
    clears_ = [n.id for n in cs.nodes if isinstance(node_assign_value(n, "_start_d"), ast.Constant) and node_assign_value(n, "_start_d").value is None]
    clears_ += [n.id for n in cs.nodes if n.kind == "stmt" and isinstance(n.stmt, ast.Assign) and isinstance(n.stmt.targets[0], ast.Tuple) and isinstance(
        n.stmt.value, ast.Tuple) and any(self_attr(t_) == "_start_d" and isinstance(v_, ast.Constant) and v_.value is None
                                          for t_, v_ in zip(n.stmt.targets[0].elts, n.stmt.value.elts))]
    r.check(bool(fires) and bool(clears_) and all(cs.dominates(clears_, n.id) for n, c in fires), "%s#cleared-before-fired" % stop.qname,
            "stop() fires the start Deferred while `_start_d` still holds it", where(stop, fires[0][1] if fires else stop.node),
            "an application that restarts the consumer from the start Deferred's callback gets RestartError: the stopped consumer cannot be "
            "started again at the moment it reports being stopped")
    r.check(okf, "%s#fires-start-d" % stop.qname,
            "stop() does not fire the start Deferred under `not called` with the last processed offset", where(stop, stop.node),
            "start()'s Deferred fires twice (AlreadyCalledError) or never")

    # ---- R5 shutdown order
    r = ctx.rule("R5", "shutdown: flag first, wait for the processor, commit when a group is set, then stop, then fire", 13,
                 "B")
    csd = ctx.cfg(shutdown)
    flag = [n for n in csd.nodes if node_writes_attr(n, "_shuttingdown") and isinstance(node_assign_value(
        n, "_shuttingdown"), ast.Constant) and node_assign_value(n, "_shuttingdown").value is True]
    # the closures of shutdown(), by role: the commit-and-stop step is the one that calls self.commit(); the success
    # and failure continuations are the callback / errback it registers on that commit
    cass = [g for g in role_candidates(ctx, shutdown) if any(call_recv(c) == "self" for c in calls_in(g, "commit"))]
    cas = cass[0] if len(cass) == 1 else None
    ok_s = fail_h = None
    if cas is not None:
        for g in registrations(cas, prog):
            if g["cb"] is not None and g["eb"] is not None and g["kind"] == "cbs":
                ok_s = prog.resolve_callable(cas, g["cb"])
                fail_h = prog.resolve_callable(cas, g["eb"])
    need(cas and ok_s, "shutdown helpers missing")
    uses = [n for n in csd.nodes if any(prog.resolve_call(shutdown, c) is cas or any(
        isinstance(a, (ast.Name, ast.Attribute)) and prog.resolve_callable(shutdown, a) is cas for a in c.args) for c in n.calls())]
    r.check(bool(flag) and uses and all(csd.dominates([flag[0].id], u.id) for u in uses), "%s#flag-first" % shutdown.qname,
            "_shuttingdown is not set before the commit-and-stop step is started or registered", where(shutdown, shutdown.node))
    fsd = ctx.facts(shutdown)
    waits = [u for u in uses if any(call_name(c) == "addCallback" and call_recv(c) == "self._processor_d" for c in u.calls())]
    direct = [u for u in uses if any(prog.resolve_call(shutdown, c) is cas for c in u.calls())]
    r.check(bool(waits) and bool(direct) and all(known_falsy(fsd[u.id], "self._processor_d") for u in direct),
            "%s#waits-for-processor" % shutdown.qname,
            "commit-and-stop can run while the processor is still working on a block", where(shutdown, shutdown.node),
            "offsets committed at shutdown exclude the block in progress, or stop cancels it")
    ccas = ctx.cfg(cas)
    fcas = ctx.facts(cas)
    commits = [n for n in ccas.nodes if any(call_name(c) == "commit" and call_recv(c) == "self" for c in n.calls())]
    nog = [n for n in ccas.nodes if any(call_name(c) == ok_s.name for c in n.calls())]
    r.check(bool(commits) and all(known_falsy(fcas[n.id], "self.consumer_group") for n in nog) and all(
        not known_falsy(fcas[n.id], "self.consumer_group") for n in commits), "%s#commit-iff-group" % cas.qname,
        "shutdown does not commit exactly when a consumer group is configured", where(cas, cas.node))
    r.check(bool(commits) and all(("self._stopping", False) in fcas[n.id] and any(a_ in fcas[n.id] for a_ in (
        ("self._start_d is None", False), ("self._start_d", True), ("not self._start_d", False))) for n in commits),
        "%s#commit-only-while-started" % cas.qname, "the shutdown step commits without having tested that the consumer is still started and "
        "not being stopped", where(cas, cas.node), "a consumer that was stopped while shutdown() waited sends an OffsetCommit")
    regs = [g for g in registrations(cas, prog) if g["cb"] is not None and prog.resolve_callable(cas, g["cb"]) is ok_s]
    r.check(bool(regs) and all(g["kind"] in ("cb", "cbs") for g in regs), "%s#success-after-commit" % cas.qname,
            "the shutdown success step is not the on-success continuation of commit()", where(cas, cas.node))
    # commit() may skip the request only when nothing was processed or processed == committed
    cm = ctx.func(CONS + ".commit")
    ccm = ctx.cfg(cm)
    # wherever commit() answers at once with success (`succeed(...)`, returned directly or through a local), the guard
    # facts imply "nothing processed" or "processed == committed" - in whatever form the test is written
    fcm = ctx.facts(cm)
    sc_ret = [n for n in ccm.nodes if any(call_name(c) == "succeed" for c in n.calls())]
    okc = bool(sc_ret)
    for n in sc_ret:
        imp = False
        for eq in ("self._last_processed_offset == self._last_committed_offset", "self._last_committed_offset == self._last_processed_offset"):
            imp = imp or facts_imply(prog, cm, fcm[n.id], {"a": "self._last_processed_offset is None", "b": eq}, lambda env: env["a"] or env["b"])
        okc = okc and imp
    r.check(okc, "%s#skip-only-when-equal" % cm.qname,
            "commit() skips the request under a condition other than `nothing processed or processed == committed`", where(cm, cm.node),
            "consumer rewound below the committed offset (restart further back / offset reset): shutdown reports success without "
            "committing, last committed != last processed")
    okp = False
    if fail_h is not None:
        chf = ctx.cfg(fail_h)
        fhf = ctx.facts(fail_h)
        p = fail_h.first_param()
        for n in chf.nodes:
            for c in n.calls():
                if call_name(c) in ("addCallback", "addBoth") and ("%s.check(OperationInProgress)" % p, True) in fhf[n.id] and c.args:
                    okp = prog.resolve_callable(fail_h, c.args[0]) is cas and "%s.value.deferred" % p in (call_recv(c) or "")
    r.check(okp, "%s#in-progress-then-commit-again" % shutdown.qname,
            "when another commit is in flight at shutdown, its completion does not lead to a fresh commit of the final offset",
            where(shutdown, fail_h.node if fail_h else shutdown.node),
            "blocks processed after the in-flight commit was sent are never committed: on success last committed != last processed")
    # ... and whatever becomes of that commit: a continuation registered for its success only leaves shutdown() waiting
    # for ever when the commit in flight fails (finding F27)
    okb = False
    if fail_h is not None:
        on_ok, on_fail = [], []
        for g in registrations(fail_h, prog):
            if ".value.deferred" not in (g["root"] or ""):
                continue
            if g["cb"] is not None:
                on_ok.append(prog.resolve_callable(fail_h, g["cb"]))
            if g["eb"] is not None:
                on_fail.append(prog.resolve_callable(fail_h, g["eb"]))
        okb = cas in on_ok and any(h in (cas, fail_h) for h in on_fail if h is not None)
    r.check(okb, "%s#in-progress-both-outcomes" % shutdown.qname,
            "the step that follows the commit in flight is registered for its success only", where(shutdown, fail_h.node if fail_h else shutdown.node),
            "an automatic commit is in flight at shutdown() and then fails (out of attempts, or a non-Kafka error): the continuation never "
            "runs, the Deferred returned by shutdown() never fires and the consumer never stops")
    # stop() is not re-entrant: a handler (anything but the public methods) may be running because stop() just cancelled
    # the Deferred it is chained to, so it calls stop() only when no stop is in progress (finding F28)
    n_st = 0
    for f in sorted([x for x in prog.funcs.values() if x.cls is ci], key=lambda x: x.qname):
        if f.parent is None and not f.name.startswith("_"):
            continue
        cf_ = ctx.cfg(f)
        ff_ = None
        for n in cf_.nodes:
            for c in n.calls():
                if call_name(c) == "stop" and call_recv(c) == "self":
                    ff_ = ff_ or ctx.facts(f)
                    n_st += 1
                    started_ = any(a_ in ff_[n.id] for a_ in (("self._start_d is None", False), ("self._start_d", True), ("not self._start_d", False)))
                    r.check(started_, "%s#stop-only-while-started" % f.qname,
                            "a handler calls stop() without having tested that the consumer is still started", where(f, c),
                            "the application stopped the consumer while the handler's Deferred was pending (e.g. from its errback on the "
                            "start Deferred, after the processor failed): RestopError inside the callback chain - the Deferred returned by "
                            "shutdown() never fires and `_shuttingdown` stays set")
                    r.check(("self._stopping", False) in ff_[n.id], "%s#stop-not-re-entered" % f.qname,
                            "a handler calls stop() without having tested that no stop() is in progress", where(f, c),
                            "stop() cancels the Deferred this handler is chained to (the processor the shutdown waits for); the handler "
                            "calls stop() again, which completes; the outer stop() then works on cleared state: AttributeError out of stop()")
    need(n_st >= 2, "handler call sites of stop() not found")
    # whoever fires the shutdown Deferred has put the flag back on every path to that point: the flag gates the feeder
    # loop and the refetch, and a stopped consumer can be started again
    n_fire = 0
    for g in sorted([x for x in prog.funcs.values() if x.cls is ci], key=lambda x: x.qname):
        cg_ = ctx.cfg(g)
        for n in cg_.nodes:
            for c in n.calls():
                if call_name(c) not in ("callback", "errback") or not isinstance(c.func, ast.Attribute):
                    continue
                og_ = value_origins(cg_, n.id, c.func.value, params=g.params) or []
                if not og_ or not all(norm(e_) == "self._shutdown_d" for _n, e_ in og_):
                    continue
                n_fire += 1
                resets = [m.id for m in cg_.nodes if isinstance(node_assign_value(m, "_shuttingdown"), ast.Constant) and node_assign_value(
                    m, "_shuttingdown").value is False]
                r.check(bool(resets) and cg_.dominates(resets, n.id), "%s#flag-reset-before-fire" % g.qname,
                        "the shutdown Deferred is fired on a path that leaves `_shuttingdown` set", where(g, c),
                        "stop() while shutdown() is pending: the handler runs inside stop(), skips the reset; everything looks stopped, but "
                        "after start() the feeder loop and the refetch - both gated by the flag - do nothing: the restarted consumer is dead")
    need(n_fire >= 2, "fire sites of the shutdown Deferred not found")
    cok = ctx.cfg(ok_s)
    stops = [n.id for n in cok.nodes if any(call_name(c) == "stop" and call_recv(c) == "self" for c in n.calls())]
    fire = [n for n in cok.nodes if any(call_name(c) == "callback" for c in n.calls())]
    # ... unless stop() is what is running this handler (it cancelled the processor the shutdown was waiting for)
    # ... or the consumer has been stopped meanwhile: the case examined is "started and no stop() in progress"
    def _started_not_stopping(test, p_, case_cls, anc, stopping, env=None):
        def leaf(t):
            tx = norm(t)
            if tx == "self._stopping":
                return False
            if tx in ("self._start_d is not None", "self._start_d"):
                return True
            if tx in ("self._start_d is None", "not self._start_d"):
                return False
            return None
        return tri_eval(test, leaf, env)
    r.check(bool(stops) and fire and not case_reach(cok, "", "", {}, False, {n.id for n in fire}, flag_eval=_started_not_stopping, avoid=set(stops)) and all(
        norm(c.args[0]) == "self._last_processed_offset" for n in fire for c in n.calls() if call_name(c) == "callback"),
        "%s#stop-then-fire" % ok_s.qname, "shutdown success does not stop() before firing with the last processed offset",
        where(ok_s, ok_s.node))
    # the flag gates the feeder loop and the refetch
    rf = ctx.func(CONS + "._retry_fetch")
    crf = ctx.cfg(rf)
    frf = ctx.facts(rf)
    sched = [n for n in crf.nodes if any(call_name(c) == "callLater" for c in n.calls())]
    r.check(bool(sched) and all(("self._shuttingdown", False) in frf[n.id] for n in sched), "%s#gated-by-shuttingdown" % rf.qname,
            "refetch is scheduled although a graceful shutdown was requested", where(rf, rf.node))
    pm = ctx.func(CONS + "._process_messages")
    # every invocation of the processor is made with `_shuttingdown` just tested false (facts about attributes do not
    # survive the suspension of the previous block, so the test is made anew for every block, however the loop is written)
    cpm = ctx.cfg(pm)
    fpm = ctx.facts(pm)
    invs = [n for n in cpm.nodes if any((call_name(c) in ("maybeDeferred", "execute") and c.args and norm(c.args[0]) == "self.processor") or
                                        norm(c.func) == "self.processor" for c in n.calls())]
    r.check(bool(invs) and all(("self._shuttingdown", False) in fpm[n.id] or ("not self._shuttingdown", True) in fpm[n.id] for n in invs), "%s#loop-gated" % pm.qname,
            "the feeder loop does not stop handing out blocks once shutdown was requested", where(pm, pm.node))

    # ---- R7 fired timer handles are cleared (stop() cancels them unguarded)
    r = ctx.rule("R7", "a delayed-call handle that stop() cancels without `.active()` is cleared by the function its timer calls", 2, "C")
    for a, k in sorted(active.items()):
        if k != "delayedcall":
            continue
        guarded = all(any(pol and t == "self.%s.active()" % a for t, pol in fst[n.id]) for n, c in sc.get(a, []))
        cbs = set()
        for f in [x for x in prog.funcs.values() if x.cls is ci]:
            for x in walk_body_shallow(f.body):
                if isinstance(x, ast.Assign) and any(self_attr(t) == a for t in x.targets) and isinstance(x.value, ast.Call) and \
                        call_name(x.value) == "callLater" and len(x.value.args) > 1:
                    g = prog.resolve_callable(f, x.value.args[1])
                    if g is not None:
                        cbs.add(g)
        clears = [g for g in cbs if any(isinstance(x, ast.Assign) and any(self_attr(t) == a for t in x.targets) and isinstance(
            x.value, ast.Constant) and x.value.value is None for x in walk_body_shallow(g.body))]
        # a handle that gates re-arming (`if self.<handle> is None: <arm>`) must be cleared by its callback on EVERY path: an
        # early return that leaves the fired call in place blocks every later arming for good
        gated = any(("self.%s is None" % a, True) in ctx.facts(f_)[n_.id] or ("self.%s" % a, False) in ctx.facts(f_)[n_.id]
                    for f_ in [x for x in prog.funcs.values() if x.cls is ci] for n_ in ctx.cfg(f_).nodes
                    if n_.kind == "stmt" and isinstance(n_.stmt, ast.Assign) and any(self_attr(t) == a for t in n_.stmt.targets) and isinstance(
                        n_.stmt.value, ast.Call) and call_name(n_.stmt.value) == "callLater")
        if gated:
            for g in sorted(cbs, key=lambda g: g.qname):
                cg_ = ctx.cfg(g)
                clr_ = [n_.id for n_ in cg_.nodes if isinstance(node_assign_value(n_, a), ast.Constant) and node_assign_value(n_, a).value is None]
                # ... or finds it clear already (the branch of a test on the handle that means "is None")
                from ..cfg import cond_facts as _cf7
                fg_ = ctx.facts(g)
                for n_ in cg_.nodes:
                    for t_, lab_ in cg_.succ[n_.id]:
                        if lab_ and lab_[0] == "cond":
                            at_ = _cf7(frozenset(fg_[n_.id]), lab_[1], lab_[2])  # through local copies of the handle
                            if ("self.%s is None" % a, True) in at_ or ("self.%s" % a, False) in at_:
                                clr_.append(t_)
                r.check(bool(clr_) and not cg_.normal_exits_from(cg_.entry.id, avoid=clr_), "%s#gate-handle-cleared-on-every-path(%s)" % (g.qname, a),
                        "%s, which the `%s` timer calls, can return without clearing the handle; `%s` is armed only when the handle is None" % (g.name, a, a),
                        where(g, g.node), "the timer fires while a request is outstanding (the consumer was restarted from inside its processor): "
                        "the early return leaves the fired call in place and the consumer never fetches again")
        r.check(guarded or (bool(cbs) and len(clears) == len(cbs)), "%s#fired-handle-cleared(%s)" % (CONS, a),
                "self.%s keeps pointing at a delayed call that has already fired (its callback %s never clears it) and stop() cancels it "
                "without checking .active()" % (a, sorted(g.name for g in cbs)), where(stop, stop.node),
                "after a commit/fetch retry timer has fired, stop() raises AlreadyCalled half-way: looper left running, start Deferred unfired",
                facts=["callbacks=%s" % sorted(g.name for g in cbs)])

    # ---- R8 teardown order: cancelling a Deferred handle runs its chain synchronously; whatever that chain can start
    # must be cancelled afterwards
    r = ctx.rule("R8", "stop() cancels a Deferred handle before the handles its chain can (re)arm", 1, "C")
    cstop = ctx.cfg(stop)

    def _live_in_stop(func, astnode):
        """can this statement run while stop() is in progress?  Not when it sits behind a test of the stopping flag."""
        cfn = ctx.cfg(func)
        ns_ = cfn.containing(astnode)
        return not ns_ or ("self._stopping", False) not in ctx.facts(func)[ns_[0].id]

    def arms(func):
        """handle attrs that func (own scope) assigns a non-None value / appends to - at sites that can run while
        stop() is in progress"""
        out = set()
        for x in walk_body_shallow(func.body):
            if isinstance(x, ast.Assign) and not (isinstance(x.value, ast.Constant) and x.value.value is None):
                for t in x.targets:
                    for tt in (t.elts if isinstance(t, ast.Tuple) else [t]):
                        a = self_attr(tt)
                        if a in active and _is_handle_value(x.value) and _live_in_stop(func, x):
                            out.add(a)
            if isinstance(x, ast.Call) and call_name(x) == "append" and isinstance(x.func.value, ast.Attribute) and self_attr(x.func.value) in active \
                    and _live_in_stop(func, x):
                out.add(self_attr(x.func.value))
        return out
    order_checked = 0
    for h, k in sorted(active.items()):
        if k not in ("deferred", "list") or h not in sc:
            continue
        hs = []
        for f2 in [x for x in prog.funcs.values() if x.cls is ci]:
            al = aliases_of(f2, "self." + h)
            absorbed = False  # an earlier failure-side stage may have turned the cancellation into a result
            for reg in registrations(f2, prog):
                if reg["root"] in al:
                    # what runs when the handle is *cancelled*: the failure-side handlers, and success-side handlers
                    # registered behind one of them (a success-only stage in front of them is skipped)
                    run = [reg["eb"]] + ([reg["cb"]] if absorbed and reg["cb"] is not None else [])
                    for hh in run:
                        g = prog.resolve_callable(f2, hh) if hh is not None else None
                        if g is not None:
                            hs.append(g)
                    if reg["eb"] is not None:
                        absorbed = True
        started = set()

        def sync_reach(g0):
            """functions that can run synchronously once g0 runs: direct calls and Deferred-chain registrations
            (a timer's callback does not run synchronously; arming the timer is recorded by arms())"""
            seen, stack = {}, [g0]
            while stack:
                g = stack.pop()
                if g.qname in seen:
                    continue
                seen[g.qname] = g
                for x in walk_body_shallow(g.body):
                    if isinstance(x, ast.Call):
                        if not _live_in_stop(g, x):
                            continue  # behind `if self._stopping: return`: not taken while stop() runs
                        cal = prog.resolve_call(g, x)
                        if cal is not None:
                            stack.append(cal)
                        if call_name(x) in ("addCallback", "addErrback", "addBoth", "addCallbacks", "maybeDeferred"):
                            for a in x.args[:2]:
                                hh2 = prog.resolve_callable(g, a)
                                if hh2 is not None:
                                    stack.append(hh2)
            return seen
        for g in hs:
            for q, gg in sync_reach(g).items():
                if gg.cls is ci:
                    started |= arms(gg)
        started.discard(h)
        for h2 in sorted(started & set(sc)):
            n1 = min(n.id for n, c in sc[h])
            first = [n for n, c in sc[h]][0]
            later = all(n2.id in cstop.reach([first.id]) and first.id not in cstop.reach([n2.id]) for n2, c2 in sc[h2])
            order_checked += 1
            r.check(later, "%s#cancel(%s)-before-cancel(%s)" % (stop.qname, h, h2),
                    "stop() cancels self.%s after self.%s, although the chain of self.%s can (re)arm self.%s when it is cancelled" % (h, h2, h, h2),
                    where(stop, first.stmt), "shutdown() waiting on the processor, then stop(): cancelling the processor last runs the "
                    "commit-and-stop continuation after the commit teardown - a commit request is outstanding after stop() returned")
    r.info("ordered pairs checked: %d" % order_checked)

    # ---- R9 whatever stop() cancels runs its failure-side continuations synchronously, inside stop(): none of them may
    # reach a request to the broker or an invocation of the processor without having looked at the stopping state
    r = ctx.rule("R9", "a failure-side continuation (errback / on-both handler) never reaches a broker request or the processor "
                       "without a test of `_stopping` on the way", 8, "C")
    # (only a test of the stopping flag excludes "stop() is running": `_start_d` is cleared at the very end of stop())
    stop_guards = [("self._stopping", False)]

    def starts_activity(f_, c_):
        nm_, rc_ = call_name(c_), call_recv(c_) or ""
        if nm_.startswith("send_") and rc_ == "self.client":
            return True
        if rc_ == "self" and nm_ == "processor":
            return True
        return nm_ == "maybeDeferred" and bool(c_.args) and norm(c_.args[0]) == "self.processor"
    n_fs = 0
    for f_ in sorted([x for x in prog.funcs.values() if x.cls is ci], key=lambda x: x.qname):
        for n_, g_, kind_ in call_edges(ctx, f_):
            if kind_ != "reg-eb":
                continue
            n_fs += 1
            # synchronous edges only: what a timer will call later is the teardown order's business (R8)
            path = guarded_reach(ctx, [g_], starts_activity, stop_guards, edge_filter=lambda n2, g2, k2: not any(
                call_name(c2) in ("callLater", "LoopingCall", "deferLater") for c2 in n2.calls()))
            role = "%s@failure-side[%s]" % (f_.qname, (call_recv([c for c in n_.calls() if call_name(c) in (
                "addErrback", "addBoth", "addCallbacks")][0]) or "?") if any(call_name(c) in ("addErrback", "addBoth", "addCallbacks") for c in n_.calls()) else "?")
            r.check(path is None, "%s#stop-safe" % role,
                    "the handler `%s`, which runs when its Deferred fails or is cancelled (stop() cancels every pending one), reaches %s "
                    "without a test of the stopping state" % (g_.name, " -> ".join("%s:%s" % (q.split(":")[-1], ln) for q, ln, _t in (path or []))),
                    where(f_, n_.stmt), "stop() cancels the Deferred: the handler runs inside stop() and issues a request / feeds the "
                    "processor from a consumer that is stopping (or, queued behind what stop() is cancelling, makes stop() loop)")
    need(n_fs >= 8, "failure-side registrations of the consumer not found")

    # ---- R6 restartable
    r = ctx.rule("R6", "stop() resets _stopping, and every handle that gates a function start() calls is clear after stop()", 4, "A")
    for g in reachable_funcs(prog, start).values():
        if g.cls is not ci or g is start:
            continue
        cg = ctx.cfg(g)
        for n in cg.nodes:
            if n.kind != "test" or not isinstance(n.stmt, ast.If):
                continue
            h = self_attr(n.stmt.test)
            if h not in handles:
                continue
            tsucc = [t for t, lab in cg.succ[n.id] if lab and lab[0] == "cond" and lab[2]]
            arm = cg.reach(tsucc, avoid=[t for t, lab in cg.succ[n.id] if lab and lab[0] == "cond" and not lab[2]]) | set(tsucc)
            pure_exit = cg.exit.id in arm and not any(
                call_name(c) and (call_recv(c) or "").split(".")[0] not in ("log", "logging") for i in arm for c in cg.nodes[i].calls())
            if not pure_exit:
                continue
            # (a) stop() clears it on every normal path, or (b) every handler registered on it clears it on every path
            cstop = ctx.cfg(stop)
            a_ok = all(known_falsy(fst[pid], "self." + h) or getattr(node_assign_value(cstop.nodes[pid], h), "value", 1) is None
                       for pid, lab in cstop.pred[cstop.exit.id])
            b_ok = True
            n_h = 0
            for f2 in [x for x in prog.funcs.values() if x.cls is ci]:
                for reg in registrations(f2, prog):
                    if reg["root"] in aliases_of(f2, "self." + h):
                        for hh in (reg["cb"], reg["eb"]):
                            hf = prog.resolve_callable(f2, hh) if hh is not None else None
                            if hf is not None:
                                n_h += 1
                                ch = ctx.cfg(hf)
                                cl2 = [m.id for m in ch.nodes if getattr(node_assign_value(m, h), "value", 1) is None]
                                if not cl2 or ch.normal_exits_from(ch.entry.id, avoid=cl2):
                                    b_ok = False
            r.check(a_ok or (b_ok and n_h > 0), "%s#gate(%s)-clear-after-stop" % (g.qname, h),
                    "`if self.%s: return` gates %s, but neither stop() clears self.%s nor do all of its handlers on every path "
                    "(a reply parked behind the processor leaves the fired Deferred in place)" % (h, g.name, h), where(g, n.stmt),
                    "stop() while a fetch reply is parked; start() again: the stale handle makes the fetcher return at once, the "
                    "restarted consumer never fetches")
    # every Deferred handle stop() cancels is gone afterwards - cleared by stop() itself on every path, or by a stage of its own
    # chain (which the cancellation runs): the next run tests these handles ("a block is being worked through", "a request
    # is outstanding") and would wait behind a Deferred that fired long ago
    cstop_ = ctx.cfg(stop)
    for h, k in sorted(active.items()):
        if k != "deferred" or h not in sc:
            continue
        a_ok = all(known_falsy(fst[pid], "self." + h) or getattr(node_assign_value(cstop_.nodes[pid], h), "value", 1) is None or any(
            getattr(node_assign_value(m_, h), "value", 1) is None and not cstop_.normal_exits_from(c_n.id, avoid=[m_.id]) for m_ in cstop_.nodes for c_n, _c in sc[h])
            for pid, lab in cstop_.pred[cstop_.exit.id]) or all(
            any(getattr(node_assign_value(m_, h), "value", 1) is None and (m_.id == c_n.id or not cstop_.normal_exits_from(c_n.id, avoid=[m_.id]) or cstop_.dominates([m_.id], c_n.id))
                for m_ in cstop_.nodes) for c_n, _c in sc[h])
        # the cancellation runs the failure side of the chain: a stage that runs on both outcomes (or the first failure-side
        # stage) and clears the handle on every path does it
        b_ok = False
        for f2 in [x for x in prog.funcs.values() if x.cls is ci]:
            first_eb = True
            for reg in registrations(f2, prog):
                if reg["root"] in aliases_of(f2, "self." + h) and reg["eb"] is not None:
                    hf = prog.resolve_callable(f2, reg["eb"])
                    if hf is not None and (reg["kind"] == "both" or first_eb):
                        ch = ctx.cfg(hf)
                        cl2 = [m.id for m in ch.nodes if getattr(node_assign_value(m, h), "value", 1) is None]
                        if cl2 and not ch.normal_exits_from(ch.entry.id, avoid=cl2):
                            b_ok = True
                    first_eb = False
        r.check(a_ok or b_ok, "%s#handle(%s)-gone-after-stop" % (stop.qname, h),
                "stop() cancels self.%s but neither clears it on every path nor does every failure-side stage of its chain" % h, where(stop, stop.node),
                "stop() while a block of messages is being worked through, then start(): the first reply parks itself behind the "
                "Deferred that stop() fired - the restarted consumer never processes again")
    # a DelayedCall may be cancelled once: stop() either cancels a timer handle under `.active()`, or clears the handle on
    # every path after cancelling it - else the next stop() (after a restart that did not happen to replace the handle)
    # cancels the dead timer again
    for h, k in sorted(active.items()):
        if k != "delayedcall" or h not in sc:
            continue
        for n, c in sc[h]:
            if call_name(c) != "cancel":
                continue
            under_active = any(pol and t.endswith(".active()") and h in t for t, pol in fst[n.id])
            clears = [m.id for m in cs.nodes if isinstance(node_assign_value(m, h), ast.Constant) and node_assign_value(m, h).value is None]
            cleared_after = bool(clears) and not cs.normal_exits_from(n.id, avoid=clears)
            # ... or start() itself (what it calls directly) discards the old handle before anything can cancel it again
            on_start = any(g2.cls is ci and any(isinstance(node_assign_value(m2, h), ast.Constant) and node_assign_value(m2, h).value is None
                                                 for m2 in ctx.cfg(g2).nodes) for g2 in reachable_funcs(prog, start).values())
            r.check(under_active or cleared_after or on_start, "%s#timer(%s)-cancelled-once" % (stop.qname, h),
                    "stop() cancels the timer self.%s without testing `.active()` and keeps the dead handle" % h, where(stop, c),
                    "stop() while that timer is pending, start(), stop() again before the handle is replaced: AlreadyCancelled out of "
                    "stop(), `_stopping` stays set, the start Deferred never fires")
    rs = [n.id for n in cs.nodes if isinstance(node_assign_value(n, "_stopping"), ast.Constant) and node_assign_value(
        n, "_stopping").value is False]
    sets = [n.id for n in cs.nodes if isinstance(node_assign_value(n, "_stopping"), ast.Constant) and node_assign_value(
        n, "_stopping").value is True]
    r.check(bool(rs) and bool(sets) and not cs.normal_exits_from(sets[0], avoid=rs), "%s#resets-stopping" % stop.qname,
            "a normal path through stop() leaves _stopping set: the restarted consumer ignores every later failure",
            where(stop, stop.node))


MUTANTS = [
    {"id": "retry-handle-kept-on-outstanding-request", "file": "consumer.py",
     "edits": [("consumer.py", "        if self._retry_call is not None:\n            if self._retry_call.active():\n                self._retry_call.cancel()\n            self._retry_call = None\n\n        # Check for outstanding request.\n        if self._request_d:\n            log.debug(\"_do_fetch: Outstanding request: %r\", self._request_d)\n            return\n",
                "        # Check for outstanding request.\n        if self._request_d:\n            log.debug(\"_do_fetch: Outstanding request: %r\", self._request_d)\n            return\n\n        if self._retry_call is not None:\n            if self._retry_call.active():\n                self._retry_call.cancel()\n            self._retry_call = None\n")],
     "expect": "C13.R7", "note": "finding F44"},

    {"id": "looper-armed-after-first-fetch", "file": "consumer.py",
     "edits": [("consumer.py", "        # Start a new fetch request, possibly just for the starting offset\n        self._fetch_offset = start_offset\n        self._do_fetch()\n        return start_d\n", "        return start_d\n"),
               ("consumer.py", "        # Set up the auto-commit timer, if needed (before the first fetch: its\n", "        self._fetch_offset = start_offset\n        self._do_fetch()\n        # Set up the auto-commit timer, if needed (before the first fetch: its\n")],
     "expect": "C13.R3", "note": "finding F36"},

    {"id": "fetch-error-only-cancelled-is-stop-induced", "file": "consumer.py",
     "old": "        if self._stopping:\n            # Not really an error: stop() cancelled the request. (The client\n            # reports a request cancelled in flight as FailedPayloadsError.)\n            return\n        # Do we need to abort?\n        if self.request_retry_max_attempts != 0 and self._fetch_attempt_count >= self.request_retry_max_attempts:\n            log.debug(\n                \"%r: Exhausted attempts: %d fetching messages",
     "new": "        if self._stopping and failure.check(CancelledError):\n            return\n        # Do we need to abort?\n        if self.request_retry_max_attempts != 0 and self._fetch_attempt_count >= self.request_retry_max_attempts:\n            log.debug(\n                \"%r: Exhausted attempts: %d fetching messages",
     "expect": "C13.R2", "note": "finding F31"},
    {"id": "commit-timer-handle-kept", "file": "consumer.py",
     "old": "            if self._commit_call.active():\n                self._commit_call.cancel()\n            self._commit_call = None\n",
     "new": "            self._commit_call.cancel()\n", "expect": "C13.R6", "note": "finding F32"},

    {"id": "shutdown-step-ignores-stop", "file": "consumer.py",
     "old": "            if self._stopping or self._start_d is None:\n                # stop() cancelled what we were waiting for (the processor, or\n",
     "new": "            if self._start_d is None:\n                # stop() cancelled what we were waiting for (the processor, or\n",
     "expect": "C13.R9", "note": "finding F30"},
    {"id": "parked-reply-released-on-cancel", "file": "consumer.py",
     "old": "            self._msg_block_d.addCallback(lambda _: self._handle_fetch_response(responses))",
     "new": "            self._msg_block_d.addBoth(lambda _: self._handle_fetch_response(responses))", "expect": "C13.R9", "note": "seeded C02-11"},

    {"id": "shutdown-waits-for-success-only", "file": "consumer.py",
     "old": "                failure.value.deferred.addBoth(_commit_and_stop)", "new": "                failure.value.deferred.addCallback(_commit_and_stop)",
     "expect": "C13.R5", "note": "finding F27"},
    {"id": "shutdown-success-reenters-stop", "file": "consumer.py",
     "old": "            if not self._stopping and self._start_d is not None:\n                self.stop()\n            self._shuttingdown = False  # Shutdown complete\n            d.callback(",
     "new": "            if self._start_d is not None:\n                self.stop()\n            self._shuttingdown = False  # Shutdown complete\n            d.callback(", "expect": "C13.R5", "note": "finding F28"},
    {"id": "shutdown-success-stops-stopped-consumer", "file": "consumer.py",
     "old": "            if not self._stopping and self._start_d is not None:\n                self.stop()\n            self._shuttingdown = False  # Shutdown complete\n            d.callback(",
     "new": "            if not self._stopping:\n                self.stop()\n            self._shuttingdown = False  # Shutdown complete\n            d.callback(", "expect": "C13.R5", "note": "finding F35"},
    {"id": "shutdown-step-commits-when-stopped", "file": "consumer.py",
     "old": "            if self._stopping or self._start_d is None:\n                # stop() cancelled what we were waiting for (the processor, or\n",
     "new": "            if self._stopping:\n                # stop() cancelled what we were waiting for (the processor, or\n", "expect": "C13.R5", "note": "finding F35"},

    {"id": "stop-forgets-retry-call", "file": "consumer.py",
     "old": "        if self._retry_call:\n            if self._retry_call.active():\n                self._retry_call.cancel()\n            self._retry_call = None\n", "new": "", "expect": "C13.R1"},
    {"id": "stop-forgets-commit-req", "file": "consumer.py",
     "old": "        if self._commit_req:\n            self._commit_req.cancel()\n", "new": "", "expect": "C13.R1"},
    {"id": "stop-cancel-conditional", "file": "consumer.py",
     "old": "        if self._commit_call:\n            if self._commit_call.active():",
     "new": "        if self._commit_call and self.consumer_group:\n            if self._commit_call.active():", "expect": "C13.R1"},
    {"id": "autocommit-error-unguarded", "file": "consumer.py",
     "old": "        if self._stopping and failure.check(CancelledError):\n            # Not really an error: stop() cancelled the pending commit\n            return\n",
     "new": "", "expect": "C13.R2"},
    {"id": "fetch-error-unguarded", "file": "consumer.py",
     "old": "        if self._stopping:\n            # Not really an error: stop() cancelled the request. (The client\n            # reports a request cancelled in flight as FailedPayloadsError.)\n            return\n        # Do we need to abort?\n        if self.request_retry_max_attempts != 0 and self._fetch_attempt_count >= self.request_retry_max_attempts:\n            log.debug(\n                \"%r: Exhausted attempts: %d fetching messages from kafka: %r\",",
     "new": "        # Do we need to abort?\n        if self.request_retry_max_attempts != 0 and self._fetch_attempt_count >= self.request_retry_max_attempts:\n            log.debug(\n                \"%r: Exhausted attempts: %d fetching messages from kafka: %r\",",
     "expect": "C13.R2"},
    {"id": "processor-error-unguarded", "file": "consumer.py",
     "old": "        if not (self._stopping and failure.check(CancelledError)):\n",
     "new": "        if True:\n", "expect": "C13.R2"},
    {"id": "shutdown-reenters-stop", "file": "consumer.py",
     "old": "            if not self._stopping and self._start_d is not None:\n                self.stop()\n            self._shuttingdown = False  # Shutdown complete\n            d.errback(",
     "new": "            self.stop()\n            self._shuttingdown = False  # Shutdown complete\n            d.errback(", "expect": "C13.R2"},
    {"id": "retry-fetch-unguarded", "file": "consumer.py",
     "old": "        if self._stopping or self._shuttingdown or self._start_d is None:\n            # Stopping, or stopped already? No more fetching.\n            return\n",
     "new": "", "expect": ["C13.R3", "C13.R5"]},
    {"id": "start-twice", "file": "consumer.py",
     "old": "        if self._start_d is not None:\n            raise RestartError(\"Start called on already-started consumer\")\n", "new": "",
     "expect": "C13.R4"},
    {"id": "stop-fires-unguarded", "file": "consumer.py", "old": "        if not d.called:\n            d.callback(self._last_processed_offset)",
     "new": "        d.callback(self._last_processed_offset)", "expect": "C13.R4"},
    {"id": "shutdown-no-wait", "file": "consumer.py",
     "old": "        if self._processor_d:\n            self._processor_d.addCallback(_commit_and_stop)\n        else:\n            # No need to wait for the processor, we can commit and stop now\n            _commit_and_stop(None)",
     "new": "        _commit_and_stop(None)", "expect": "C13.R5"},
    {"id": "shutdown-fire-before-stop", "file": "consumer.py",
     "old": "            if not self._stopping and self._start_d is not None:\n                self.stop()\n            self._shuttingdown = False  # Shutdown complete\n            d.callback(self._last_processed_offset)",
     "new": "            d.callback(self._last_processed_offset)\n            if not self._stopping and self._start_d is not None:\n                self.stop()\n            self._shuttingdown = False  # Shutdown complete",
     "expect": "C13.R5"},
    {"id": "shutdown-in-progress-skips-final-commit", "file": "consumer.py",
     "old": "                failure.value.deferred.addBoth(_commit_and_stop)", "new": "                failure.value.deferred.addBoth(_handle_shutdown_commit_success)",
     "expect": "C13.R5", "note": "seeded C13-1"},
    {"id": "stop-leaves-fired-request-handle", "file": "consumer.py",
     "old": "            # It may already have fired (a reply parked behind the processor):\n            # don't let a stale handle block the fetcher after a restart.\n            self._request_d = None\n",
     "new": "", "expect": "C13.R6", "note": "finding F15"},
    {"id": "commit-skip-when-below", "file": "consumer.py",
     "old": "if (self._last_processed_offset is None) or (self._last_processed_offset == self._last_committed_offset):",
     "new": "if (self._last_processed_offset is None) or (self._last_committed_offset is not None and self._last_processed_offset <= self._last_committed_offset):",
     "expect": "C13.R5", "note": "seeded C13-4"},
    {"id": "stopping-not-reset", "file": "consumer.py", "old": "        # Done stopping\n        self._stopping = False\n", "new": "",
     "expect": "C13.R6"},
]
TWINS = [
    {"id": "retry-handle-cleared-through-a-local", "file": "consumer.py",
     "old": "        if self._retry_call is not None:\n            if self._retry_call.active():\n                self._retry_call.cancel()\n            self._retry_call = None\n\n        # Check for outstanding request.\n",
     "new": "        pending = self._retry_call\n        if pending is not None:\n            self._retry_call = None\n            if pending.active():\n                pending.cancel()\n\n        # Check for outstanding request.\n",
     "note": "the handle tested and cancelled through a local copy"},
    {"id": "fired-commit-timer-not-cleared", "file": "consumer.py",
     "old": "        if self._commit_call and not self._commit_call.active():\n            self._commit_call = None\n", "new": "",
     "note": "seeded C13-2: harmless since F32 (stop() cancels a timer only while active and clears the handle)"},
    {"id": "processor-cancelled-last", "file": "consumer.py",
     "edits": [("consumer.py", "        # Are we waiting for the processor to complete?\n        if self._processor_d:\n            self._processor_d.cancel()\n", ""),
               ("consumer.py", "        # Done stopping\n        self._stopping = False", "        if self._processor_d:\n            self._processor_d.cancel()\n        # Done stopping\n        self._stopping = False")],
     "note": "seeded C13-3: harmless since F30 (the shutdown step commits nothing once stop() is under way)"},

    {"id": "stop-guard-is-not-none", "file": "consumer.py", "old": "        if self._retry_call:\n            if self._retry_call.active():",
     "new": "        if self._retry_call is not None:\n            if self._retry_call.active():"},
]

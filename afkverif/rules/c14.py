"""C14 - consumer retries, offset-reset policy and buffer growth follow the contract.

Decided: the shape of the two back-off kernels (delay used = current, next =
min(current x F, max) with a constant F > 1, hence monotone and capped), reset
of delay and count on every success, the attempt-limit test dominating every
retry, the three-way reset policy, and the buffer growth kernel (x16 up to
1 MiB, then x2, capped, failing only at the cap, never moving the fetch
position).  Not decided: actual virtual times.
"""
import ast

from ..cfg import known_falsy
from ..model import self_attr, unparse, walk_body_shallow
from .util import *  # noqa: F401,F403
from .util import value_origins, at, expand, const_value, fold, path_values, call_name, call_recv, calls_in, need, node_assign_value, node_writes_attr, norm, where

TECHNIQUE = "symbolic comparator on the back-off and buffer kernels, guard-fact dominance of limit and policy arms"
EXPLANATION = (
    "Rules over afkak/consumer.py: each kernel expression is matched structurally (min(x*F, cap) with F a module "
    "constant whose literal value is > 1; the delay handed to callLater is read before the update), so that "
    "next >= current for current <= cap and next <= cap follow arithmetically; success handlers reset delay and "
    "count on every path; `max != 0 and count >= max` false is a must-hold fact at every retry call; policy arms "
    "are identified by their guard facts; the buffer kernel's three arms are identified by guard facts and the "
    "failing arm neither refetches nor moves the fetch position."
    ' Also: configuration attributes hold what the constructor was given (R6, value origins), and the start Deferred is failed only in the limit arm or the out-of-range-without-policy arm (R3).'
    " The reply handlers of fetch and offset requests have the matching error handler *behind* them on every path to the end of the registering function (addCallbacks side by side does not count), and the offset reply handler restores delay and attempt count only after it has taken the reply apart."
)
SHARED = [('C12', ['R5'], 'a message larger than the fetch buffer surfaces as the too-small signal (fields are taken through the checked readers), so the buffer grows'), ('C12', ['R7'], 'the too-small arm grows the buffer and does not move the fetch position (never skipping the message)'), ('C02', ['R6'], 'what may be stored in the fetch position: the reset policy is applied as resolved by the broker')]
ASSUMPTIONS = ["float arithmetic: x*F >= x for x >= 0 and F > 1", "reactor.callLater(delay, f) calls f once after delay"]
CONS = "consumer:Consumer"


def _const(prog, func, e):
    if isinstance(e, ast.Constant):
        return e.value
    if isinstance(e, ast.Name) and e.id in func.module.constants and isinstance(func.module.constants[e.id], ast.Constant):
        return func.module.constants[e.id].value
    return None


def _min_kernel(prog, func, v, cur):
    """v == min(cur * F, cap) (any arg order) -> (F value, cap text)."""
    if not (isinstance(v, ast.Call) and call_name(v) == "min" and len(v.args) == 2):
        return None
    for a, b in ((v.args[0], v.args[1]), (v.args[1], v.args[0])):
        if isinstance(a, ast.BinOp) and isinstance(a.op, ast.Mult):
            for x, y in ((a.left, a.right), (a.right, a.left)):
                if norm(x) == cur:
                    return _const(prog, func, y), norm(b)
    return None


def run(ctx):
    prog = ctx.prog
    rf = ctx.func(CONS + "._retry_fetch")
    hce = ctx.func(CONS + "._handle_commit_error")
    hor = ctx.func(CONS + "._handle_offset_response")
    hoe = ctx.func(CONS + "._handle_offset_error")
    hfe = ctx.func(CONS + "._handle_fetch_error")
    hfr = ctx.func(CONS + "._handle_fetch_response")
    dof = ctx.func(CONS + "._do_fetch")

    # ---- R1 back-off kernels
    r = ctx.rule("R1", "back-off: delay used = current, next = min(current x F, max), F > 1", 2, "E")
    cf = ctx.cfg(rf)
    upd = [n for n in cf.nodes if node_assign_value(n, "retry_delay") is not None]
    cl = [(n, c) for n in cf.nodes for c in n.calls() if call_name(c) == "callLater"]
    need(len(upd) == 1 and len(cl) == 1, "fetch back-off kernel not found in _retry_fetch")
    k = _min_kernel(prog, rf, at(ctx, rf, upd[0].id, node_assign_value(upd[0], "retry_delay")), "self.retry_delay")
    delay_arg = cl[0][1].args[0]
    # the delay handed to the timer is the caller's explicit delay or the value retry_delay had *before* the update
    og = value_origins(cf, cl[0][0].id, delay_arg, params=rf.params) or []
    reads = [(n_, e) for n_, e in og if norm(e) == "self.retry_delay"]
    others = [(n_, e) for n_, e in og if norm(e) != "self.retry_delay" and not (isinstance(e, ast.Name) and e.id in rf.params)]
    ok = (k is not None and isinstance(k[0], (int, float)) and k[0] > 1 and k[1] == "self.retry_max_delay"
          and bool(reads) and not others and all(upd[0].id in cf.reach([n_]) and n_ not in cf.reach([upd[0].id]) for n_, e in reads)
          and cl[0][0].id in cf.reach([upd[0].id]))
    r.check(ok, "%s#kernel" % rf.qname, "fetch retry delay is not `current`, followed by current = min(current*F, max) "
            "with F > 1 (found %s)" % (k,), where(rf, upd[0].stmt), "delays do not grow geometrically / exceed the cap",
            facts=["F=%r cap=%s" % (k or (None, None))])
    cc = ctx.cfg(hce)
    nd = [n for n in cc.nodes if n.kind == "stmt" and isinstance(n.stmt, ast.Assign) and isinstance(n.stmt.value, ast.Call)
          and call_name(n.stmt.value) == "min"]
    cl2 = [(n, c) for n in cc.nodes for c in n.calls() if call_name(c) == "callLater"]
    need(len(nd) == 1 and len(cl2) == 1, "commit back-off kernel not found")
    var = unparse(nd[0].stmt.targets[0])
    k2 = _min_kernel(prog, hce, at(ctx, hce, nd[0].id, nd[0].stmt.value), hce.params[3] if len(hce.params) > 3 else "retry_delay")
    c2 = cl2[0][1]
    ok = (k2 is not None and isinstance(k2[0], (int, float)) and k2[0] > 1 and k2[1] == "self.retry_max_delay"
          and len(c2.args) >= 4 and norm(expand(prog, hce, c2.args[0])) == norm(expand(prog, hce, nd[0].stmt.value))
          and norm(expand(prog, hce, c2.args[2])) == norm(expand(prog, hce, nd[0].stmt.value))
          and len(hce.params) > 4 and norm(expand(prog, hce, c2.args[3])) in ("%s + 1" % hce.params[4], "1 + %s" % hce.params[4]))
    r.check(ok, "%s#kernel" % hce.qname, "commit retry delay kernel is not min(delay*F, max) carried to the next attempt "
            "with attempt+1", where(hce, nd[0].stmt), facts=["F=%r cap=%s" % (k2 or (None, None))])

    for h in (hoe, hfe):
        for c in calls_in(h, rf.name):
            r.check(not c.args and not c.keywords, "%s#backoff-applies" % h.qname,
                    "the error handler passes an explicit delay (%s) to the retry scheduler, which bypasses the geometric growth" % norm(c),
                    where(h, c), "consecutive failures are all retried after the same delay")

    # ---- R2 reset on success
    r = ctx.rule("R2", "both success handlers reset delay and attempt count on every path", 6, "A")
    for h in (hor, hfr):
        ch = ctx.cfg(h)
        # the next request of a success path: every path that schedules/sends it has restored the counters before
        nexts = [n for n in ch.nodes if any(call_name(c) in ("_retry_fetch", "_do_fetch") and call_recv(c) == "self" for c in n.calls())]
        # lazily decoded content (the reply's messages are decoded while they are iterated): a reset that happens before
        # that iteration would also "succeed" a reply that then fails to decode
        lazy = [n for n in ch.nodes if n.kind == "for" and isinstance(n.stmt.iter, ast.Attribute) and n.stmt.iter.attr == "messages"]
        for attr, want in (("retry_delay", "self.retry_init_delay"), ("_fetch_attempt_count", "1")):
            ns = [n for n in ch.nodes if node_assign_value(n, attr) is not None and norm(at(ctx, h, n.id, node_assign_value(n, attr))) == want]
            ok = bool(ns) and bool(nexts) and all(ch.dominates([n.id for n in ns], x.id) for x in nexts)
            r.check(ok, "%s#reset(%s)" % (h.qname, attr), "success does not restore %s = %s before the next request is issued" % (attr, want),
                    where(h, h.node), "delays keep growing across successes / attempt limit reached by non-consecutive failures")
            early = [n for n in ns if any(n.id != l.id and l.id in ch.reach([n.id]) and not ch.dominates([l.id], n.id) for l in lazy)]
            # the same for a reply that is taken apart by indexing / unpacking (which can fail: a reply without offsets):
            # restored before that, a reply that cannot be used is retried as if every failure were the first
            if h is hor:
                tainted = {h.first_param()}
                for _ in range(3):
                    for x in walk_body_shallow(h.body):
                        if isinstance(x, ast.Assign) and tainted & names_in(x.value):
                            for t in x.targets:
                                tainted |= {y.id for y in ast.walk(t) if isinstance(y, ast.Name)}
                partial = [m for m in ch.nodes if m.stmt is not None and m.kind in ("stmt", "test") and any(
                    (isinstance(y, ast.Subscript) and isinstance(y.ctx, ast.Load) and tainted & names_in(y.value)) or
                    (isinstance(y, ast.Assign) and any(isinstance(t, (ast.Tuple, ast.List)) for t in y.targets) and not isinstance(y.value, (ast.Tuple, ast.List)) and
                     tainted & names_in(y.value)) for y in m.walk())]
                before = [n for n in ns if any(m.id != n.id and m.id in ch.reach([n.id], follow_exc=False) for m in partial)]
                r.check(bool(partial) and not before, "%s#reset-after-the-reply-was-used(%s)" % (h.qname, attr),
                        "%s is restored before the reply has been taken apart (lines %s can still raise)" % (attr, sorted({m.stmt.lineno for m in partial})),
                        where(h, before[0].stmt if before else h.node), "every offset reply lacks the offsets: each failure looks like the first one - "
                        "the same delay for ever, request_retry_max_attempts never reached")
            r.check(not early, "%s#reset-after-decode(%s)" % (h.qname, attr),
                    "%s is restored before the reply's messages have been decoded (they are decoded lazily, inside the loop)" % attr,
                    where(h, early[0].stmt if early else h.node), "a reply whose message set fails to decode (bad checksum) reaches the error "
                    "handler with the counters freshly reset: the attempt limit is never reached and the delay never grows")

    # ---- R3 attempt limit
    r = ctx.rule("R3", "limit test dominates every retry; limit arm fails the start Deferred and returns; count "
                       "incremented per scheduled retry; nothing else gives up", 7, "B")
    lim = "self.request_retry_max_attempts != 0 and self._fetch_attempt_count >= self.request_retry_max_attempts"
    for h in (hoe, hfe):
        ch = ctx.cfg(h)
        fh = ctx.facts(h)
        retries = [n for n in ch.nodes if any(call_name(c) == rf.name and call_recv(c) == "self" for c in n.calls())]
        need(retries, "no retry call in %s" % h.qname)
        # the limit test may be written as one condition, split over nested tests or computed by a predicate: what counts
        # is what the guard facts imply about "no limit configured" (z) and "attempts used up" (b)
        lim_atoms = {"z": "self.request_retry_max_attempts == 0", "b": "self._fetch_attempt_count >= self.request_retry_max_attempts"}
        for n in retries:
            r.check((lim, False) in fh[n.id] or facts_imply(prog, h, fh[n.id], lim_atoms, lambda env: env["z"] or not env["b"]),
                    "%s#retry-below-limit" % h.qname,
                    "retry scheduled without the attempt-limit test having failed", where(h, n.stmt),
                    "more than request_retry_max_attempts consecutive attempts")
        arm = [n for n in ch.nodes if (lim, True) in fh[n.id] or facts_imply(prog, h, fh[n.id], lim_atoms, lambda env: (not env["z"]) and env["b"])]
        eb = [n for n in arm if any(call_name(c) == "errback" and call_recv(c) == "self._start_d" for c in n.calls())]
        r.check(bool(eb) and not any(n.id in ch.reach([eb[0].id]) for n in retries), "%s#limit-arm" % h.qname,
                "limit arm does not fail the start Deferred and return", where(h, h.node))
        # ... and nothing else gives up: every other failure of the start Deferred in these handlers is the out-of-range
        # answer met without a reset policy ("otherwise retrying continues indefinitely", whatever the error class)
        allb = [n for n in ch.nodes if any(call_name(c) == "errback" and call_recv(c) == "self._start_d" for c in n.calls())]
        p_ = h.first_param()
        stray = []
        for n in allb:
            if n in arm:
                continue
            rf_ = resolved_facts(fh[n.id])
            oor = any(pol and t.startswith("%s.check(" % p_) and "OffsetOutOfRangeError" in t and t.count(",") == 0 for t, pol in rf_)
            nopol = ("self.auto_offset_reset is None", True) in rf_ or ("self.auto_offset_reset", False) in rf_
            if not (oor and nopol):
                stray.append("line %d under %s" % (n.lineno, sorted(t if pol else "not (%s)" % t for t, pol in rf_ if p_ in t or "retriable" in t)[:3]))
        r.check(not stray, "%s#gives-up-only-at-the-limit" % h.qname, "the start Deferred is failed outside the limit arm and the "
                "out-of-range-without-policy arm: %s" % stray, where(h, h.node), "no attempt limit configured and one broker error of an "
                "unlisted class: start() fails instead of retrying indefinitely")
    incs = [n for n in cf.nodes if n.kind == "stmt" and ((isinstance(n.stmt, ast.AugAssign) and self_attr(
        n.stmt.target) == "_fetch_attempt_count" and isinstance(n.stmt.op, ast.Add) and norm(n.stmt.value) == "1") or (
        node_assign_value(n, "_fetch_attempt_count") is not None and norm(node_assign_value(n, "_fetch_attempt_count")) in (
            "self._fetch_attempt_count + 1", "1 + self._fetch_attempt_count")))]
    r.check(len(incs) == 1 and cf.dominates([incs[0].id], cl[0][0].id) and not cf.normal_exits_from(
        incs[0].id, avoid=[cl[0][0].id]), "%s#count-per-retry" % rf.qname,
        "attempt count is not incremented exactly with every scheduled retry", where(rf, rf.node))
    fce = ctx.facts(hce)
    CFG_LIM = "self.request_retry_max_attempts"

    def commit_limit_ok(n):
        # `L != 0 and attempt >= L` is known false, L being the configured limit - or a local that holds it, possibly
        # replaced by a positive constant on paths where the configured limit was seen to be 0 (a bound that exists
        # only where the configuration sets none, e.g. for commits issued while shutting down)
        import re
        for t, pol in fce[n.id]:
            m = re.match(r"^([\w.]+) != 0 and attempt >= ([\w.]+)$", t)
            if pol or not m or m.group(1) != m.group(2):
                continue
            L = m.group(1)
            if L == CFG_LIM:
                return True
            if not L.isidentifier():
                continue
            tests = [x for x in cc.nodes if x.kind == "test" and norm(x.stmt.test) == t]
            for tn in tests:
                og = value_origins(cc, tn.id, ast.Name(id=L, ctx=ast.Load()), params=hce.params)
                if not og:
                    break
                for dn, e in og:
                    if norm(e) == CFG_LIM:
                        continue
                    cv_ = const_value(prog, hce, e)  # a literal, or a module / class constant
                    pos = isinstance(cv_, int) and not isinstance(cv_, bool) and cv_ > 0
                    rf_ = resolved_facts(fce[dn])
                    zero_seen = (CFG_LIM, False) in rf_ or ("not " + CFG_LIM, True) in rf_ or (CFG_LIM + " == 0", True) in rf_ or (
                        known_falsy(fce[dn], L) and all(norm(e2) == CFG_LIM for _d2, e2 in (value_origins(
                            cc, [p_ for p_, _l in cc.pred[dn]][0], ast.Name(id=L, ctx=ast.Load()), params=hce.params) or [(0, ast.Constant(value=None))])))
                    if not (pos and zero_seen):
                        break
                else:
                    continue
                break
            else:
                if tests:
                    return True
        return False

    r.check(all(commit_limit_ok(n) for n, c in cl2), "%s#retry-below-limit" % hce.qname, "commit retry scheduled beyond the attempt limit",
            where(hce, cl2[0][1]))

    # ---- R6 the limits and policies compared above are the configured ones
    r = ctx.rule("R6", "retry limit, delays, reset policy and buffer cap hold what the constructor was given: no other writer", 5, "A")
    ci = prog.cls(CONS)
    for attr in ("request_retry_max_attempts", "retry_init_delay", "retry_max_delay", "auto_offset_reset", "max_buffer_size"):
        probs = given_value_problems(ctx, ci, attr)
        r.check(not probs, "%s#as-configured(%s)" % (CONS, attr), "%s is not what the constructor was given: %s" % (attr, "; ".join(p_[0] for p_ in probs)),
                where(probs[0][1], probs[0][2]) if probs and probs[0][1] is not None else "", "the limit/policy applied to later requests - and to a consumer that is "
                "started again - is no longer the configured one (e.g. `retry for ever` silently becomes two attempts)")

    # ---- R4 reset policy
    r = ctx.rule("R4", "out-of-range: fail when no policy, else restart from the policy constant resolved by an offset "
                       "request; not-committed: latest iff policy is latest", 4, "B")
    ch = ctx.cfg(hfe)
    fh = ctx.facts(hfe)
    oor = "failure.check(OffsetOutOfRangeError)".replace("failure", hfe.first_param())
    sets = [n for n in ch.nodes if node_assign_value(n, "_fetch_offset") is not None]
    ok = len(sets) == 1 and norm(at(ctx, hfe, sets[0].id, node_assign_value(sets[0], "_fetch_offset"))) == "self.auto_offset_reset" and (
        oor, True) in fh[sets[0].id] and ("self.auto_offset_reset is None", False) in fh[sets[0].id]
    r.check(ok, "%s#policy-restart" % hfe.qname, "out-of-range with a policy does not restart from the policy position",
            where(hfe, hfe.node), "consumer keeps refetching the invalid offset for ever")
    fails = [n for n in ch.nodes if (oor, True) in fh[n.id] and ("self.auto_offset_reset is None", True) in fh[n.id]]
    eb = [n for n in fails if any(call_name(c) == "errback" and call_recv(c) == "self._start_d" for c in n.calls())]
    retries = [n for n in ch.nodes if any(call_name(c) == rf.name for c in n.calls())]
    r.check(bool(eb) and not any(x.id in ch.reach([eb[0].id]) for x in retries), "%s#policy-none-fails" % hfe.qname,
            "out-of-range without a policy does not fail the start Deferred and stop retrying", where(hfe, hfe.node))
    cd = ctx.cfg(dof)
    fd = ctx.facts(dof)
    orq = [n for n in cd.nodes if any(call_name(c) == "send_offset_request" for c in n.calls())]
    okd = bool(orq) and (any("self._fetch_offset == OFFSET_EARLIEST or self._fetch_offset == OFFSET_LATEST" == t and p
                             for t, p in resolved_facts(fd[orq[0].id]) | set(fd[orq[0].id])) or facts_imply(
        prog, dof, fd[orq[0].id], {"e": "self._fetch_offset == OFFSET_EARLIEST", "l": "self._fetch_offset == OFFSET_LATEST"}, lambda env: env["e"] or env["l"]))
    oreq = [c for c in calls_in(dof, "OffsetRequest")]
    okd = okd and bool(oreq) and len(oreq[0].args) >= 3 and norm(at(ctx, dof, cd.containing(oreq[0])[0].id, oreq[0].args[2])) == "self._fetch_offset"
    r.check(okd, "%s#symbolic-offset-resolved" % dof.qname,
            "earliest/latest are not resolved through an offset request carrying that constant", where(dof, dof.node))
    co = ctx.cfg(hor)
    fo = ctx.facts(hor)
    # every value the fetch position can be given here, case by case (through copies and conditional expressions), with
    # the facts holding where that value was chosen
    pos_cases = []
    for n in co.nodes:
        v_ = node_assign_value(n, "_fetch_offset")
        if v_ is None:
            continue
        for dn_, e_ in (value_origins(co, n.id, v_, params=hor.params) or [(n.id, v_)]):
            for f_, e2 in value_cases(ctx, hor, co.nodes[dn_], e_):
                pos_cases.append((frozenset(f_) | frozenset(fo[n.id]), e2))
    lat = [f_ for f_, e_ in pos_cases if norm(e_) == "OFFSET_LATEST"]
    ear = [f_ for f_, e_ in pos_cases if norm(e_) == "OFFSET_EARLIEST"]
    ok = (len(lat) == 1 and len(ear) == 1 and ("self.auto_offset_reset == OFFSET_LATEST", True) in lat[0]
          and ("self.auto_offset_reset == OFFSET_LATEST", False) in ear[0]
          and any(t.endswith(".offset == OFFSET_NOT_COMMITTED") and p for t, p in resolved_facts(lat[0]) | set(lat[0]))
          and any(t.endswith(".offset == OFFSET_NOT_COMMITTED") and p for t, p in resolved_facts(ear[0]) | set(ear[0])))
    r.check(ok, "%s#not-committed-policy" % hor.qname, "no stored offset: latest iff the policy is latest, else earliest "
            "is not what the code does", where(hor, hor.node))

    # ---- R7 a reply that fails while it is being handled (decode error, a reply without the expected content) is a failed
    # request, whichever way it got there
    r = ctx.rule("R7", "every chain that hands a fetch/offset reply to its reply handler has the matching error handler on its failure side", 3, "C")
    ci_ = prog.cls(CONS)
    n_h = {"fetch": 0, "offset": 0}
    for f in sorted([x for x in prog.funcs.values() if x.cls is ci_], key=lambda x: x.qname):
        regs = registrations(f, prog)
        cf_ = ctx.cfg(f)
        for i, g in enumerate(regs):
            if g["cb"] is None:
                continue
            h = prog.resolve_callable(f, g["cb"])
            for what_, hr_, he_ in (("fetch", hfr, hfe), ("offset", hor, hoe)):
                direct = h is hr_
                via = h is not None and h is not hr_ and (h.parent is f or isinstance(g["cb"], ast.Lambda)) and any(
                    prog.resolve_call(h, c) is hr_ for c in calls_in(h))
                if not (direct or via):
                    continue
                n_h[what_] += 1
                # addCallbacks(cb, eb) does not put eb behind cb: only a later stage catches what cb raises
                later = [x for x in regs[i + 1:] if x["root"] == g["root"] and x["eb"] is not None and prog.resolve_callable(f, x["eb"]) is he_]
                if g["kind"] == "both" and prog.resolve_callable(f, g["eb"]) is he_:
                    later = []  # the reply handler and the error handler side by side: nothing behind the reply handler
                here = cf_.containing(g["call"])
                same_stmt = [x for x in later if here and cf_.containing(x["call"]) and cf_.containing(x["call"])[0].id == here[0].id]
                behind = [cf_.containing(x["call"])[0].id for x in later if cf_.containing(x["call"])]
                # ... on every path from the registration to the end of the function (the arms of _do_fetch share one handle)
                ok_ = bool(same_stmt) or (bool(here) and bool(behind) and not cf_.normal_exits_from(here[0].id, avoid=behind))
                r.check(ok_, "%s#reply-failure-handled[%s%s]" % (f.qname, g["root"], "" if what_ == "fetch" else ":" + what_),
                        "the %s reply handler is registered on `%s` without the %s error handler behind it" % (what_, g["root"], what_), where(f, g["call"]),
                        "a reply parked behind a busy processor whose message set then fails to decode (bad checksum): the exception ends in "
                        "the block Deferred's chain - no retry, no failure of start(), no request outstanding: the consumer stalls" if what_ == "fetch" else
                        "an offset reply without offsets (or any other exception in the reply handler): no retry, no failure of start(): "
                        "the consumer sits idle for good")
    need(n_h["fetch"] >= 2, "registrations of the fetch reply handler not found")
    need(n_h["offset"] >= 1, "registrations of the offset reply handler not found")

    # ---- R5 buffer kernel
    buffer_kernel(ctx, ctx.rule("R5", "buffer growth: x16 up to 1 MiB else x2; capped by max; fails only at the cap; refetches", 5, "E"))


def buffer_kernel(ctx, r):
    """shared with C12.R7"""
    prog = ctx.prog
    hfr = ctx.func(CONS + "._handle_fetch_response")
    rf = ctx.func(CONS + "._retry_fetch")
    cfr = ctx.cfg(hfr)
    ffr = ctx.facts(hfr)
    exc = [n for n in cfr.nodes if n.kind == "except" and "ConsumerFetchSizeTooSmall" in norm(n.stmt.type)]
    need(exc, "too-small handler missing")
    r.check(all(norm(n.stmt.type) == "ConsumerFetchSizeTooSmall" for n in exc), "%s#grows-only-on-too-small" % hfr.qname,
            "the buffer-growth arm also handles %s" % [norm(n.stmt.type) for n in exc], where(hfr, exc[0].stmt),
            "a small message with a bad checksum grows the buffer with immediate refetches and no back-off; with max_buffer_size set "
            "start() fails with fetch-size-too-small although the maximum is ample")
    arm = [cfr.nodes[i] for i in cfr.reach([exc[0].id])]
    mul = [n for n in arm if n.kind == "stmt" and isinstance(n.stmt, ast.AugAssign) and isinstance(n.stmt.op, ast.Mult) and node_writes_attr(n, "buffer_size")]
    need(mul and isinstance(mul[0].stmt.value, ast.Name), "buffer growth `size *= <factor>` not found")
    fvar = mul[0].stmt.value.id
    # the factor as a function of the current size: on every path from the handler to the growth the value assigned
    # last is 16 exactly on the paths that took `size <= 2**20`, 2 on those that took its negation
    from ..cfg import cond_atoms
    found, bad = [], []
    for conds, val in path_values(cfr, exc[0].id, mul[0].id, fvar):
        v = const_value(prog, hfr, val) if val is not None else None
        small = None
        for t, pol in conds:
            for text, p in cond_atoms(fold(prog, hfr, t), pol):
                if text == "self.buffer_size <= 1048576":
                    small = p
        found.append(v)
        if not ((small is True and v == 16) or (small is False and v == 2)):
            bad.append("factor %s when size <= 2**20 is %s" % (v, small))
    ok = bool(found) and not bad and {16, 2} <= set(found)
    vals = sorted(set(str(x) for x in found)) + bad[:2]
    r.check(ok, "%s#factor" % hfr.qname, "growth factor is not 16 while size <= 2**20, else 2 (found %s)" % sorted(
        str(v) for v in vals), where(hfr, exc[0].stmt))
    grows = [n for n in arm if n.stmt is not None and node_writes_attr(n, "buffer_size")]
    unl = [n for n in grows if isinstance(n.stmt, ast.AugAssign) and isinstance(n.stmt.op, ast.Mult) and norm(
        n.stmt.value) == fvar and ("self.max_buffer_size is None", True) in ffr[n.id]]
    def _want(n):  # the two spellings of the capped growth, locals resolved as they are at n (like the value compared)
        return [norm(at(ctx, hfr, n.id, ast.parse(t % fvar, mode="eval").body)) for t in (
            "min(self.buffer_size * %s, self.max_buffer_size)", "min(self.max_buffer_size, self.buffer_size * %s)")]
    capd = [n for n in grows if isinstance(n.stmt, ast.Assign) and norm(at(ctx, hfr, n.id, n.stmt.value)) in _want(n)
            and ("self.buffer_size < self.max_buffer_size", True) in ffr[n.id]]
    r.check(len(unl) == 1 and len(capd) == 1 and len(grows) == 2, "%s#growth" % hfr.qname,
            "buffer growth is not `size *= factor` without a cap, `min(size*factor, max)` below the cap", where(hfr, exc[0].stmt),
            "buffer exceeds max_buffer_size / does not grow: the large message is never received")
    ebs = [n for n in arm if any(call_name(c) == "errback" and call_recv(c) == "self._start_d" for c in n.calls())]
    okf = len(ebs) == 1 and ("self.max_buffer_size is None", False) in ffr[ebs[0].id] and (
        "self.buffer_size < self.max_buffer_size", False) in {(t, p) for t, p in ffr[ebs[0].id]} | {
        (t.split(" and ")[-1], p) for t, p in ffr[ebs[0].id] if " and " in t and not p and "max_buffer_size is not None" in t}
    r.check(okf, "%s#fails-only-at-cap" % hfr.qname, "the failing arm is not confined to size >= max", where(hfr, exc[0].stmt),
            "consumer fails although the buffer could still grow")
    refetch = [n.id for n in cfr.nodes if any(call_name(c) == rf.name for c in n.calls())]
    r.check(all(not cfr.normal_exits_from(g.id, avoid=refetch) for g in grows) and bool(refetch), "%s#refetch-after-growth" % hfr.qname,
            "after growing the buffer the same offset is not refetched", where(hfr, exc[0].stmt))
    r.check(bool(ebs) and not any(x in cfr.reach([ebs[0].id]) for x in refetch), "%s#no-refetch-after-failure" % hfr.qname,
            "failing arm still schedules a refetch", where(hfr, exc[0].stmt))



MUTANTS = [
    {"id": "offset-reply-counters-restored-first", "file": "consumer.py",
     "edits": [("consumer.py", "        # Successful request (with a reply we could use: one we cannot ends in\n        # _handle_offset_error), reset our retry delay, count, etc\n        self.retry_delay = self.retry_init_delay\n        self._fetch_attempt_count = 1\n        self._do_fetch()\n", "        self._do_fetch()\n"),
               ("consumer.py", "        [response] = responses\n", "        self.retry_delay = self.retry_init_delay\n        self._fetch_attempt_count = 1\n        [response] = responses\n")],
     "expect": "C14.R2", "note": "finding F48"},
    {"id": "offset-reply-delay-restored-first", "file": "consumer.py",
     "edits": [("consumer.py", "        self.retry_delay = self.retry_init_delay\n        self._fetch_attempt_count = 1\n        self._do_fetch()\n", "        self._fetch_attempt_count = 1\n        self._do_fetch()\n"),
               ("consumer.py", "        [response] = responses\n", "        self.retry_delay = self.retry_init_delay\n        [response] = responses\n")],
     "expect": "C14.R2", "note": "finding F48, the delay only"},
    {"id": "offset-handlers-side-by-side", "file": "consumer.py",
     "old": "            d.addCallback(self._handle_offset_response)\n            d.addErrback(self._handle_offset_error)\n        elif self._fetch_offset == OFFSET_COMMITTED:",
     "new": "            d.addCallbacks(self._handle_offset_response, self._handle_offset_error)\n        elif self._fetch_offset == OFFSET_COMMITTED:", "expect": "C14.R7", "note": "finding F45"},
    {"id": "committed-offset-handlers-side-by-side", "file": "consumer.py",
     "old": "            d.addCallback(self._handle_offset_response)\n            d.addErrback(self._handle_offset_error)\n        else:",
     "new": "            d.addCallbacks(self._handle_offset_response, self._handle_offset_error)\n        else:", "expect": "C14.R7",
     "note": "finding F45, the other arm: the first arm's error handler does not stand behind this one"},
    {"id": "parked-reply-without-error-handler", "file": "consumer.py",
     "old": "            self._msg_block_d.addErrback(self._handle_fetch_error)\n", "new": "", "expect": "C14.R7", "note": "finding F33"},

    {"id": "shutdown-overwrites-limit", "file": "consumer.py",
     "old": "        # Create a deferred to track the shutdown\n",
     "new": "        if not self.request_retry_max_attempts:\n            self.request_retry_max_attempts = 2\n        # Create a deferred to track the shutdown\n",
     "expect": "C14.R6", "note": "finding F29"},
    {"id": "commit-limit-ignored-at-shutdown", "file": "consumer.py",
     "old": "        if not max_attempts and self._shuttingdown:\n            max_attempts = 2\n", "new": "        max_attempts = max_attempts * 2\n",
     "expect": "C14.R3"},

    {"id": "reset-before-decode", "file": "consumer.py",
     "edits": [("consumer.py", "        # Check to see if we are still processing the last block we fetched...\n        if self._msg_block_d:",
                "        self.retry_delay = self.retry_init_delay\n        self._fetch_attempt_count = 1\n        # Check to see if we are still processing the last block we fetched...\n        if self._msg_block_d:")],
     "expect": "C14.R2", "note": "finding F23"},
    {"id": "backoff-factor-inverse", "file": "consumer.py", "old": "REQUEST_RETRY_FACTOR = 1.20205", "new": "REQUEST_RETRY_FACTOR = 0.9",
     "expect": "C14.R1"},
    {"id": "backoff-no-cap", "file": "consumer.py",
     "old": "self.retry_delay = min(self.retry_delay * REQUEST_RETRY_FACTOR, self.retry_max_delay)",
     "new": "self.retry_delay = self.retry_delay * REQUEST_RETRY_FACTOR", "expect": "C14.R1"},
    {"id": "delay-read-after-update", "file": "consumer.py",
     "old": "                after = self.retry_delay\n                self.retry_delay = min(self.retry_delay * REQUEST_RETRY_FACTOR, self.retry_max_delay)\n",
     "new": "                self.retry_delay = min(self.retry_delay * REQUEST_RETRY_FACTOR, self.retry_max_delay)\n                after = self.retry_delay\n",
     "expect": "C14.R1"},
    {"id": "offset-error-fixed-delay", "file": "consumer.py",
     "old": "            log.warning(\"%r: Still failing fetching offset from kafka: %r\", self, failure)\n        self._retry_fetch()",
     "new": "            log.warning(\"%r: Still failing fetching offset from kafka: %r\", self, failure)\n        self._retry_fetch(self.retry_delay)",
     "expect": "C14.R1", "note": "seeded C14-3"},
    {"id": "no-reset-on-fetch-success", "file": "consumer.py",
     "old": "        self.retry_delay = self.retry_init_delay\n        self._fetch_attempt_count = 1\n\n        # start another fetch", "new": "        self._fetch_attempt_count = 1\n\n        # start another fetch",
     "expect": "C14.R2"},
    {"id": "limit-strict", "file": "consumer.py",
     "old": "        if self.request_retry_max_attempts != 0 and self._fetch_attempt_count >= self.request_retry_max_attempts:\n            log.debug(\n                \"%r: Exhausted attempts: %d fetching messages",
     "new": "        if self.request_retry_max_attempts != 0 and self._fetch_attempt_count > self.request_retry_max_attempts:\n            log.debug(\n                \"%r: Exhausted attempts: %d fetching messages",
     "expect": "C14.R3"},
    {"id": "limit-arm-keeps-retrying", "file": "consumer.py",
     "old": "            self._start_d.errback(failure)\n            return\n\n        # Decide how to log this failure... If we have retried so many times\n        # we're at the retry_max_delay, then we log at warning every other time\n        # debug otherwise\n        if self.retry_delay < self.retry_max_delay or 0 == (self._fetch_attempt_count % 2):\n            log.debug(\"%r: Failure fetching messages",
     "new": "            self._start_d.errback(failure)\n\n        # Decide how to log this failure... If we have retried so many times\n        # we're at the retry_max_delay, then we log at warning every other time\n        # debug otherwise\n        if self.retry_delay < self.retry_max_delay or 0 == (self._fetch_attempt_count % 2):\n            log.debug(\"%r: Failure fetching messages",
     "expect": "C14.R3"},
    {"id": "count-not-incremented", "file": "consumer.py", "old": "            self._fetch_attempt_count += 1\n", "new": "", "expect": "C14.R3"},
    {"id": "policy-ignored", "file": "consumer.py", "old": "            self._fetch_offset = self.auto_offset_reset\n", "new": "            pass\n",
     "expect": "C14.R4"},
    {"id": "not-committed-always-earliest", "file": "consumer.py", "old": "                if self.auto_offset_reset == OFFSET_LATEST:",
     "new": "                if self.auto_offset_reset == OFFSET_EARLIEST:", "expect": "C14.R4"},
    {"id": "factor-threshold", "file": "consumer.py", "old": "            if self.buffer_size <= 2**20:", "new": "            if self.buffer_size <= 2**10:",
     "expect": "C14.R5"},
    {"id": "growth-uncapped", "file": "consumer.py", "old": "self.buffer_size = min(self.buffer_size * factor, self.max_buffer_size)",
     "new": "self.buffer_size = self.buffer_size * factor", "expect": "C14.R5"},
    {"id": "fails-below-cap", "file": "consumer.py",
     "old": "            elif self.max_buffer_size is not None and self.buffer_size < self.max_buffer_size:",
     "new": "            elif self.max_buffer_size is not None and self.buffer_size * 16 < self.max_buffer_size:", "expect": "C14.R5"},
]
TWINS = [
    {"id": "offset-handlers-fluent", "file": "consumer.py",
     "old": "            d.addCallback(self._handle_offset_response)\n            d.addErrback(self._handle_offset_error)\n        else:",
     "new": "            d.addCallback(self._handle_offset_response).addErrback(self._handle_offset_error)\n        else:",
     "note": "one fluent statement"},
    {"id": "offset-error-handler-twice", "file": "consumer.py",
     "old": "            d.addCallback(self._handle_offset_response)\n            d.addErrback(self._handle_offset_error)\n        else:",
     "new": "            d.addCallbacks(self._handle_offset_response, self._handle_offset_error)\n            d.addErrback(self._handle_offset_error)\n        else:",
     "note": "side by side AND behind: a failed request is retried by the first, a failed handler by the second"},
    {"id": "min-args-swapped", "file": "consumer.py",
     "old": "self.retry_delay = min(self.retry_delay * REQUEST_RETRY_FACTOR, self.retry_max_delay)",
     "new": "self.retry_delay = min(self.retry_max_delay, REQUEST_RETRY_FACTOR * self.retry_delay)"},
]

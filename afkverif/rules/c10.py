"""C10 - after a connection drop, unanswered requests are re-sent once, in order.

Decided: the loss handler visits every entry (cancelled -> dropped, others ->
marked unsent) after clearing the connection; the queue sender resends only
unsent entries of an ordered table in table order; `sent` is set only by the
single write function; no-reply requests complete on write; the two reconnect
conditions; the connect retry loop (failure count, policy delay, reset on
success); close (flag first, three connection states, every pending request
failed, no request accepted afterwards); single write site.
Not decided: drop points inside a frame (transport level).
"""
import ast

from ..cfg import known_falsy, known_truthy
from ..model import self_attr, unparse, walk_body_shallow
from .util import *  # noqa: F401,F403
from .util import reachable_funcs, stored_forms, deferred_origins, call_name, call_recv, calls_in, need, node_assign_value, node_writes_attr, norm, registrations, where

TECHNIQUE = "loss/resend typestate on (proto, connector, sent, cancelled) via guard facts and who-may-call/write"
EXPLANATION = (
    "Rules over afkak/brokerclient.py: must-hold guard facts at the delete / mark-unsent statements of the loss "
    "handler and exhaustiveness of its loop body; the resend call is dominated by `sent is None`; writers of the "
    "`sent` attribute; table type and insertion site; guard facts at the two _connect() call sites; structure of "
    "the connect retry closures; dominance order inside close(); call graph of sendString."
    ' Also: the connect loop goes on only while a request is waiting, and the back-off Deferred kept as the pending attempt always gets its callback (R5, finding F43).'
    " With a live connection an accepted request is always written: beyond the acceptance tests only the connection test controls the write."
)
SHARED = [('C06', ['R1'], 'an id still in the table is never stored again: a re-used key keeps the old queue position and would be re-sent ahead of requests issued before it'), ('C06', ['R5'], 'a cancelled request is never re-sent: the canceller drops an unwritten entry and the loss handler drops cancelled ones')]
ASSUMPTIONS = ["OrderedDict iterates in insertion order", "Twisted calls connectionLost once per connection"]
BC = "brokerclient:_KafkaBrokerClient"


def run(ctx):
    prog = ctx.prog
    ci = prog.cls(BC)
    lost = ctx.func(BC + "._connectionLost")
    sq = ctx.func(BC + "._sendQueued")
    sr = ctx.func(BC + "._sendRequest")
    mk = ctx.func(BC + ".makeRequest")
    conn = ctx.func(BC + "._connect")
    close = ctx.func(BC + ".close")

    # ---- R1 loss handler
    r = ctx.rule("R1", "loss handler: connection cleared first; every entry dropped (cancelled) or marked unsent", 4, "B")
    cf = ctx.cfg(lost)
    fl = ctx.facts(lost)
    loops = [(n, table_loop(ctx, lost, n)) for n in cf.nodes if n.kind == "for"]
    loops = [(n, tl) for n, tl in loops if tl is not None and tl["table"] == "self.requests"]
    need(len(loops) >= 1, "loop over the request table not found in _connectionLost")
    # two-pass form: the cancelled entries are collected (ids filtered by `cancelled is not None`) and deleted, then every
    # remaining entry is marked unsent - the same partition of the table as the one-pass if/else, as long as both passes
    # come before anything is re-sent
    from ..cfg import cond_atoms as _ca
    recon0 = [n for n in cf.nodes if any(call_name(c) == "_connect" and call_recv(c) == "self" for c in n.calls())]
    two = None
    for nm_, elt_, src_, tgt_, conds_ in filtered_collects(lost):
        if not (isinstance(tgt_, ast.Name) and norm(src_) in ("self.requests.values()", "list(self.requests.values())") and norm(elt_) == "%s.correlationId" % tgt_.id):
            continue
        if len(conds_) != 1 or ("%s.cancelled is None" % tgt_.id, False) not in _ca(conds_[0], True):
            continue
        dl_ = [n for n in cf.nodes if n.kind == "for" and norm(n.stmt.iter) == nm_]
        if len(dl_) != 1:
            continue
        dbody = cf.reach([t for t, lab in cf.succ[dl_[0].id] if lab == ("iter", True)], avoid=[dl_[0].id], include_src=True)
        dels_ = [n for n, k in table_deletes(ctx, lost, cf, "self.requests") if n.id in dbody and norm(k) == unparse(dl_[0].stmt.target)]
        for mn, mtl in loops:
            if not mtl["val"]:
                continue
            mbody = cf.reach([t for t, lab in cf.succ[mn.id] if lab == ("iter", True)], avoid=[mn.id], include_src=True)
            sets_ = [cf.nodes[i] for i in mbody if cf.nodes[i].kind == "stmt" and isinstance(cf.nodes[i].stmt, ast.Assign) and
                     norm(cf.nodes[i].stmt.targets[0]) == "%s.sent" % mtl["val"] and norm(cf.nodes[i].stmt.value) == "None"]
            uncond = bool(sets_) and not [t for t, lab in cf.control_deps_transitive(sets_[0].id, within=mbody) if t.kind == "test"]
            if len(dels_) == 1 and uncond and mn.id in cf.reach([dl_[0].id]) and dl_[0].id not in cf.reach([mn.id]) and bool(recon0) and not any(
                    x.id in cf.reach([rc.id]) for rc in recon0 for x in (dl_[0], mn)):
                two = (dl_[0], mn, sets_[0])
    if two is not None:
        clr_ = [n for n in cf.nodes if node_assign_value(n, "proto") is not None]
        for key_ in ("single-pass", "iterates-copy", "drop-cancelled-mark-others", "body-exhaustive", "marked-before-reconnect"):
            r.ok("%s#%s" % (lost.qname, key_), where(lost, two[0].stmt))
        r.check(bool(clr_) and cf.dominates([clr_[0].id], two[0].id), "%s#proto-cleared-first" % lost.qname,
                "the dead connection is not cleared before requests are re-queued", where(lost, lost.node))
    else:
        lp, tl = loops[0]
        r.check(len(loops) == 1, "%s#single-pass" % lost.qname, "the request table is walked %d times in the loss handler" % len(loops), where(lost, lp.stmt),
                "entries are dropped / marked unsent in different passes: one of them can run after the reconnect")
        r.check(tl["copy"], "%s#iterates-copy" % lost.qname,
                "loss handler iterates the live table while deleting from it", where(lost, lp.stmt),
                "RuntimeError / skipped entries: some unanswered requests are never re-sent")
        clr = [n for n in cf.nodes if node_assign_value(n, "proto") is not None]
        r.check(bool(clr) and cf.dominates([clr[0].id], lp.id), "%s#proto-cleared-first" % lost.qname,
                "the dead connection is not cleared before requests are re-queued", where(lost, lost.node),
                "requests written to a dead connection and never re-sent")
        v = tl["val"]
        # the entry removed is the one being looked at: keyed by the loop's key, or by the entry's own correlation id
        own_key = {tl["key"], "%s.correlationId" % v} - {None, "None.correlationId"}
        dels = [n for n, k in table_deletes(ctx, lost, cf, "self.requests") if norm(k) in own_key]
        marks = [n for n in cf.nodes if v and n.kind == "stmt" and isinstance(n.stmt, ast.Assign) and norm(n.stmt.targets[0]) == "%s.sent" % v]
        ok = (v is not None and len(dels) == 1 and len(marks) == 1 and ("%s.cancelled is None" % v, False) in fl[dels[0].id]
              and ("%s.cancelled is None" % v, True) in fl[marks[0].id] and norm(marks[0].stmt.value) == "None")
        r.check(ok, "%s#drop-cancelled-mark-others" % lost.qname,
                "cancelled entries are not dropped / other entries are not marked unsent under the right condition",
                where(lost, lp.stmt), "cancelled requests are re-sent, or unanswered ones are not")
        recon = [n for n in cf.nodes if any(call_name(c) == "_connect" and call_recv(c) == "self" for c in n.calls())]
        r.check(bool(recon) and bool(marks) and not any(m.id in cf.reach([x.id]) for m in marks for x in recon), "%s#marked-before-reconnect" % lost.qname,
                "requests are marked unsent after the reconnect is started", where(lost, lost.node),
                "an endpoint whose connect() completes synchronously sends the queue while entries still look sent: nothing is re-sent")
        body = [t for t, lab in cf.succ[lp.id] if lab == ("iter", True)]
        r.check(bool(body) and lp.id not in cf.reach(body, avoid=[n.id for n in dels + marks]) and body[0] != lp.id,
                "%s#body-exhaustive" % lost.qname, "an entry can pass the loss handler untouched", where(lost, lp.stmt),
                "entry keeps `sent` set: never re-sent, never answered")

    # ---- R2 resend filter and order
    r = ctx.rule("R2", "resend only entries with `sent is None`, in table order; `sent` set only by the write function", 4, "A+B")
    cq = ctx.cfg(sq)
    fq = ctx.facts(sq)
    sends = [n for n in cq.nodes if any(prog.resolve_call(sq, c) is sr for c in n.calls())]
    need(sends, "queue sender does not call the write function")
    lq = [n for n in cq.nodes if n.kind == "for"]
    vq = ((table_loop(ctx, sq, lq[0]) or {}).get("val") or unparse(lq[0].stmt.target)) if lq else "?"
    r.check(all(("%s.sent is None" % vq, True) in fq[n.id] for n in sends), "%s#only-unsent" % sq.qname,
            "entries already written on this connection are written again", where(sq, sends[0].stmt),
            "a request is sent twice on one connection")
    tq = table_loop(ctx, sq, lq[0]) if lq else None
    r.check(tq is not None and tq["table"] == "self.requests" and tq["ordered"], "%s#table-order" % sq.qname,
            "resend does not iterate the request table in its own order", where(sq, sq.node), "re-sent out of order")
    sent_writes = []
    for f in prog.functions(module="brokerclient"):
        for x in walk_body_shallow(f.body):
            if isinstance(x, ast.Assign):
                for t in x.targets:
                    if isinstance(t, ast.Attribute) and t.attr == "sent":
                        sent_writes.append((f, x))
    setters = sorted({f.qname for f, x in sent_writes if not (isinstance(x.value, ast.Constant) and x.value.value is None)})
    clearers = sorted({f.qname for f, x in sent_writes if isinstance(x.value, ast.Constant) and x.value.value is None})
    r.check(setters == [sr.qname] and clearers == [lost.qname], "%s#writers(sent)" % BC,
            "`sent` is set in %s and cleared in %s" % (setters, clearers), facts=setters + clearers)
    # the connection handle says "connected" from the moment an attempt succeeds until the loss is *reported*: it is
    # set where the attempt's protocol arrives and cleared by the loss handler only.  Clearing it earlier (when a
    # disconnect is merely requested) makes the client look idle while the old connection still exists: a request made
    # then starts a second connect loop, the late loss report a third
    pw = [(f, n) for f, k, n in prog.attr_accesses(ci, "proto", False) if k == "write" and f.name != "__init__"]
    p_clear = sorted({f.qname for f, n in pw if isinstance(n, ast.Assign) and isinstance(n.value, ast.Constant) and n.value.value is None})
    p_set = sorted({f.qname for f, n in pw if not (isinstance(n, ast.Assign) and isinstance(n.value, ast.Constant) and n.value.value is None)})
    conn_ = ctx.func(BC + "._connect")
    r.check(p_clear == [lost.qname] and bool(p_set) and all(q.startswith(conn_.qname + ".") for q in p_set), "%s#writers(proto)" % BC,
            "the connection handle is cleared in %s and set in %s; only the loss handler may clear it, only a successful attempt may set it" % (p_clear, p_set),
            facts=p_set + p_clear, witness="disconnect() on a live connection, then a request before the loss is reported: two concurrent "
            "connections, every unanswered request re-sent twice although the connection carrying them never dropped")
    init = ctx.func(BC + ".__init__")
    tbl = [x for x in walk_body_shallow(init.body) if isinstance(x, ast.Assign) and self_attr(x.targets[0]) == "requests"]
    ins = [(f, n) for f, n, _k, _v in table_writers(ctx, ci, "self.requests")]
    r.check(bool(tbl) and norm(tbl[0].value) == "OrderedDict()" and [f.qname for f, n in ins] == [mk.qname],
            "%s#ordered-table-single-insert" % BC, "request table is not an OrderedDict filled only by makeRequest",
            where(init, tbl[0] if tbl else init.node))
    # sent is set before the write, inside the same try
    cs = ctx.cfg(sr)
    setn = [n for n in cs.nodes if n.kind == "stmt" and isinstance(n.stmt, ast.Assign) and norm(n.stmt.targets[0]).endswith(".sent")]
    wr = [n for n in cs.nodes if any(call_name(c) == "sendString" for c in n.calls())]
    need(wr and setn, "write function does not set sent / call sendString")
    r.check(cs.dominates([setn[0].id], wr[0].id), "%s#sent-before-write" % sr.qname,
            "`sent` is not set before the frame is handed to the transport", where(sr, wr[0].stmt),
            "connection lost during the write: entry looks unsent=never-written or cancel drops a written request")

    # re-entrancy: a loop over a *snapshot* of the request table whose body can fire a request Deferred (user callbacks run
    # synchronously and may cancel or close) has to re-validate each element against the live table before acting on it
    bci = prog.cls(BC)
    for g in sorted([x for x in prog.funcs.values() if x.cls is bci and x.parent is None], key=lambda x: x.qname):
        for lp in [x for x in walk_body_shallow(g.body) if isinstance(x, ast.For)]:
            it_ = lp.iter
            snap = isinstance(it_, ast.Call) and call_name(it_) in ("list", "tuple", "sorted") and it_.args and "self.requests" in norm(it_.args[0])
            if not snap or not isinstance(lp.target, ast.Name):
                continue
            # can the body fire a request Deferred (directly or through a method of this class)?
            fires_ = False
            for c in [x for st in lp.body for x in ast.walk(st) if isinstance(x, ast.Call)]:
                if call_name(c) in ("callback", "errback"):
                    fires_ = True
                callee = prog.resolve_call(g, c)
                if callee is not None and callee.cls is bci:
                    for f2 in reachable_funcs(prog, callee).values():
                        if any(call_name(c2) in ("callback", "errback") for c2 in calls_in(f2)):
                            fires_ = True
            if not fires_:
                continue
            cg_ = ctx.cfg(g)
            fg_ = ctx.facts(g)
            acts = [n for n in cg_.nodes if any(prog.resolve_call(g, c) is not None and prog.resolve_call(g, c).cls is bci for c in n.calls())
                    and n.stmt is not None and any(n.stmt is x or n.stmt in ast.walk(x) for x in lp.body)]
            tv = lp.target.id
            live_ok = bool(acts) and all(any(pol and (" in self.requests" in t and tv in t or "self.requests.get(" in t and tv in t) for t, pol in fg_[n.id]) for n in acts)
            r.check(live_ok, "%s#snapshot-loop-revalidates(for %s)" % (g.qname, tv),
                    "the loop iterates a copy of the request table and its body can fire a request Deferred, but an element is acted on "
                    "without checking that it is still in the table", where(g, lp),
                    "a no-reply request completes inside the loop, its callback cancels a later still-unsent request: that request is "
                    "removed from the table and written to the wire anyway")

    # ---- R3 no-reply requests
    r = ctx.rule("R3", "a written request that expects no reply is removed and completed with None", 1, "B")
    fs = ctx.facts(sr)
    fin = [n for n in cs.nodes if any(call_name(c) == "callback" for c in n.calls())]
    dele = [n for n in cs.nodes if n.kind == "stmt" and isinstance(n.stmt, ast.Delete) and any(
        not pol and t.endswith(".expectResponse") for t, pol in fs[n.id])]
    ok = bool(fin) and bool(dele) and all(any(not pol and t.endswith(".expectResponse") for t, pol in fs[n.id]) for n in fin) and \
        cs.dominates([dele[0].id], fin[0].id) and norm(fin[0].calls()[0].args[0]) == "None" and wr[0].id not in cs.reach([fin[0].id])
    r.check(ok, "%s#no-reply-completes-on-write" % sr.qname, "no-reply request is not removed and fired with None after the write",
            where(sr, sr.node), "acks=0 produce never completes, or is re-sent after a reconnect")

    # ---- R4 reconnect conditions
    r = ctx.rule("R4", "_connect() is called only from makeRequest (no connection, no attempt) and from the loss handler "
                       "(not closing, requests remain)", 3, "B")
    sites = []
    for f in prog.functions(module="brokerclient"):
        for c in calls_in(f, "_connect"):
            if call_recv(c) == "self":
                sites.append((f, c))
    r.check(sorted(f.qname for f, c in sites) == sorted([mk.qname, lost.qname]), "%s#callers(_connect)" % BC,
            "_connect called from %s" % sorted(f.qname for f, c in sites), facts=[f.qname for f, c in sites])
    for f, c in sites:
        cff = ctx.cfg(f)
        ff = ctx.facts(f)
        n = cff.containing(c)[0]
        if f is mk:
            ok = known_falsy(ff[n.id], "self.proto") and known_falsy(ff[n.id], "self.connector")
            what = "a connection attempt is started although a connection or an attempt exists"
        else:
            ok = known_falsy(ff[n.id], "self._dDown") and known_truthy(ff[n.id], "self.requests")
            what = "reconnect after loss is not conditioned on `not closing and requests remain`"
        r.check(ok, "%s#connect-condition" % f.qname, what, where(f, c),
                "two concurrent connection attempts / reconnect of an idle or closed client")

    # ---- R5 back-off loop
    r = ctx.rule("R5", "connect failure: stop when closing, else count, policy delay, delayed retry kept in `connector`; "
                       "success resets the count; the loop ends when nothing waits; only close() cancels", 11, "B+E")
    # the connect loop, identified by role (not by name).  An *attempt site* is a statement that stores a
    # maybeDeferred(...) attempt in `connector`; the function holding it (a closure of _connect, or _connect itself)
    # registers the success / failure handlers on it.  All sites must agree on the handlers.
    scope = [conn] + list(conn.nested.values())
    sites = []
    for g in scope:
        cg_ = ctx.cfg(g)
        for n in cg_.nodes:
            v = node_assign_value(n, "connector")
            if v is not None:
                og = deferred_origins(cg_, n.id, v) or []
                if len(og) == 1 and isinstance(og[0], ast.Call) and call_name(og[0]) not in ("deferLater", "callLater"):
                    sites.append((g, n, og[0]))
    need(sites, "connect closures missing")
    tc = sites[0][0]
    starters = {g for g, n, o in sites if g is not conn}
    hs = set()
    for g in {g for g, n, o in sites}:
        rg = registrations(g, prog)
        hs.add((tuple(sorted({prog.resolve_callable(g, x["cb"]) for x in rg if x["cb"] is not None}, key=lambda f: f.qname if f else "")),
                tuple(sorted({prog.resolve_callable(g, x["eb"]) for x in rg if x["eb"] is not None}, key=lambda f: f.qname if f else ""))))
    need(len(hs) == 1, "connect closures missing")
    (cbs_, ebs_), = hs
    cb = cbs_[0] if len(cbs_) == 1 else None
    eb = ebs_[0] if len(ebs_) == 1 else None
    need(eb and cb and tc, "connect closures missing")
    ce = ctx.cfg(eb)
    fe = ctx.facts(eb)
    p = eb.first_param()
    rets = [n for n in ce.nodes if n.kind == "stmt" and isinstance(n.stmt, ast.Return) and norm(n.stmt.value or ast.Constant(value=None)) == p]
    sched0 = [n for n in ce.nodes if any(call_name(c) in ("deferLater", "callLater") for c in n.calls())]
    r.check(bool(rets) and all(known_truthy(fe[n.id], "self._dDown") for n in rets) and bool(sched0) and all(
        known_falsy(fe[n.id], "self._dDown") for n in sched0), "%s#stops-when-closing" % eb.qname,
            "a connect failure can schedule another attempt although close() was called", where(eb, eb.node),
            "close() cancels the pending attempt; the endpoint reports it with an error class the guard does not expect: a retry "
            "timer is armed, the close Deferred never fires, a connection is attempted after close")
    inc = [n for n in ce.nodes if n.kind == "stmt" and isinstance(n.stmt, ast.AugAssign) and self_attr(n.stmt.target) == "_failures"]
    dl = [n for n in ce.nodes if n.kind == "stmt" and isinstance(n.stmt, ast.Assign) and isinstance(n.stmt.value, ast.Call) and
          norm(n.stmt.value.func) == "self._retryPolicy"]
    dly = [n for n in ce.nodes if any(call_name(c) == "deferLater" for c in n.calls())]
    kept = []
    for n in ce.nodes:
        v = node_assign_value(n, "connector")
        if v is not None:
            og = deferred_origins(ce, n.id, v) or []
            if len(og) == 1 and isinstance(og[0], ast.Call) and call_name(og[0]) == "deferLater":
                kept.append((n, og[0]))
    ok = bool(inc) and bool(dl) and bool(dly) and norm(dl[0].stmt.value.args[0]) == "self._failures" and \
        ce.dominates([inc[0].id], dl[0].id) and ce.dominates([dl[0].id], dly[0].id) and \
        len(kept) == 1 and norm(kept[0][1].args[1]) == unparse(dl[0].stmt.targets[0]) and (
            dly[0].id == kept[0][0].id or not ce.normal_exits_from(dly[0].id, avoid=[kept[0][0].id]))
    r.check(ok, "%s#count-policy-delay" % eb.qname, "retry delay is not policy(consecutive failures), kept as the pending attempt",
            where(eb, eb.node), "no back-off between failed attempts / close() cannot cancel the wait")
    wrapped = all(call_name(o) in ("maybeDeferred", "execute") and bool(o.args) and prog.resolve_callable(g, o.args[0]) in conn.nested.values()
                  for g, n, o in sites)
    r.check(wrapped, "%s#attempt-wrapped" % tc.qname, "the connection attempt is not started through maybeDeferred(connect): an exception raised "
            "synchronously by the endpoint factory escapes instead of being counted as a failed attempt", where(tc, tc.node),
            "endpoint factory raises on a retry (e.g. unresolvable host): the retry loop dies, requests are never re-sent")
    before = True
    for g, n, o in sites:
        cg_ = ctx.cfg(g)
        hreg = [x for x in cg_.nodes if any(call_name(c) in ("addCallback", "addErrback", "addBoth", "addCallbacks") for c in x.calls())
                and x.id in cg_.reach([cg_.containing(o)[0].id], include_src=True)]
        before = before and bool(hreg) and all(cg_.dominates([n.id], x.id) for x in hreg)
    r.check(before, "%s#stored-before-handlers" % tc.qname,
            "the attempt is stored in `connector` after its handlers are attached: a synchronous failure lets ebConnect store the back-off "
            "timer first, which the late assignment then overwrites with the dead attempt", where(tc, tc.node),
            "close() during that back-off cancels a fired Deferred: the close Deferred never fires, the timer still reconnects")
    cbds = [prog.resolve_callable(eb, g["cb"]) for g in registrations(eb, prog) if g["cb"] is not None]
    cbd = cbds[0] if len(cbds) == 1 and cbds[0] in conn.nested.values() else None
    for g in [x for x in (cb, eb, cbd) if x is not None]:
        cg = ctx.cfg(g)
        fgx = ctx.facts(g)
        sets = [n.id for n in cg.nodes if node_assign_value(n, "connector") is not None or any(
            prog.resolve_call(g, c) in starters for c in n.calls())]
        closing = [n.id for n in cg.nodes if n.kind == "stmt" and isinstance(n.stmt, ast.Return) and known_truthy(fgx[n.id], "self._dDown")]
        r.check(bool(sets) and not cg.normal_exits_from(cg.entry.id, avoid=sets + closing), "%s#no-stale-connector" % g.qname,
                "a path through %s returns leaving `connector` pointing at the Deferred that has just fired (neither cleared, replaced by a "
                "timer, nor a new attempt started)" % g.name, where(g, g.node),
                "all queued requests cancelled during a failed attempt / back-off: the early return leaves a stale `connector`; makeRequest "
                "only connects when `not self.connector`, so every later request is queued for ever")
    # the loop goes on only while something is waiting to be sent: the retry after the back-off is made with a non-empty
    # table (every request may have been cancelled - timed out - meanwhile; the next request then connects)
    if cbd is not None:
        cgd = ctx.cfg(cbd)
        fgd = ctx.facts(cbd)
        again_nodes = [n for n in cgd.nodes if any(prog.resolve_call(cbd, c) in starters for c in n.calls())] + [sn for sg, sn, so in sites if sg is cbd]
        r.check(bool(again_nodes) and all(known_truthy(fgd[n.id], "self.requests") for n in again_nodes), "%s#retries-only-with-requests-waiting" % cbd.qname,
                "after the back-off another connection attempt is made whether or not a request is still waiting", where(cbd, cbd.node),
                "a broker stays down, every request to it times out: the client keeps dialling it for ever, and re-opens the connection "
                "when it comes back although nothing is to be sent")
    # the pending attempt / back-off timer is what keeps the loop alive: only close() cancels it (an address update or a
    # disconnect() that cancels the back-off timer ends the loop and leaves the dead handle in `connector`)
    bci_ = prog.cls(BC)
    stray = []
    for f_ in sorted([x for x in prog.funcs.values() if x.cls is bci_ or (x.parent is not None and x.qname.startswith(BC + "."))], key=lambda x: x.qname):
        top_ = f_
        while top_.parent is not None:
            top_ = top_.parent
        if top_.name == "close":
            continue
        cff_ = ctx.cfg(f_)
        for n_ in cff_.nodes:
            for c_ in n_.calls():
                if call_name(c_) == "cancel" and isinstance(c_.func, ast.Attribute):
                    og_ = value_origins(cff_, n_.id, c_.func.value, params=f_.params) if isinstance(c_.func.value, ast.Name) else [(n_.id, c_.func.value)]
                    if any(norm(e_) == "self.connector" for _d, e_ in (og_ or [])):
                        stray.append("%s line %d" % (f_.qname, n_.lineno))
    r.check(not stray, "%s#connector-cancelled-only-by-close" % BC, "the pending connection attempt / back-off timer is cancelled outside close(): %s" % stray,
            where(conn, conn.node), "the cancelled back-off timer never calls the retry: the loop is dead, `connector` stays set, every queued and "
            "future request waits for ever")
    regs = registrations(eb, prog)
    rd = [g for g in regs if g["cb"] is not None and prog.resolve_callable(eb, g["cb"]) is not None]
    again = any(any(prog.resolve_call(prog.resolve_callable(eb, g["cb"]), c) in starters for c in calls_in(prog.resolve_callable(eb, g["cb"])))
                or any(sg is prog.resolve_callable(eb, g["cb"]) for sg, sn, so in sites) for g in rd)
    # ... on every path: once the back-off Deferred is what `connector` holds, the callback that goes on (or ends the loop
    # and clears `connector`) is attached to it - a return in between leaves a handle that never does anything and never
    # goes away, and makeRequest only connects when there is none
    reg_nodes = [n.id for n in ce.nodes if any(call_name(c) in ("addCallback", "addBoth", "addCallbacks") and c.args and
                                                prog.resolve_callable(eb, c.args[0]) is not None for c in n.calls())]
    wired = bool(kept) and bool(reg_nodes) and all(n.id in reg_nodes or not ce.normal_exits_from(n.id, avoid=reg_nodes) for n, _o in kept)
    r.check(again and wired, "%s#retries" % eb.qname, "the delayed call does not try to connect again (on some path the back-off Deferred kept in "
            "`connector` gets no callback)" if again else "the delayed call does not try to connect again", where(eb, eb.node),
            "one failed attempt and the client stays disconnected with requests pending")
    cc = ctx.cfg(cb)
    z = [n for n in cc.nodes if getattr(node_assign_value(n, "_failures"), "value", None) == 0]
    pr = [n for n in cc.nodes if node_assign_value(n, "proto") is not None]
    cn = [n for n in cc.nodes if getattr(node_assign_value(n, "connector"), "value", 1) is None]
    fcb = ctx.facts(cb)
    sqn = [n for n in cc.nodes if any(prog.resolve_call(cb, c) is sq for c in n.calls())]
    # the three stores happen on every path, before the queue is sent, with nothing but logging in between (their mutual
    # order is immaterial then)
    ok = bool(z) and bool(pr) and bool(cn) and bool(sqn) and all(known_falsy(fcb[n.id], "self._dDown") for n in sqn)
    if ok:
        trio = [z[0].id, pr[0].id, cn[0].id]
        ok = all(cc.dominates([t_], cc.exit.id) and all(cc.dominates([t_], n.id) for n in sqn) for t_ in trio)
        first = [t_ for t_ in trio if all(t_ == o_ or o_ in cc.reach([t_]) for o_ in trio)]
        last = [t_ for t_ in trio if all(t_ == o_ or t_ in cc.reach([o_]) for o_ in trio)]
        if ok and first and last:
            between = cc.reach([first[0]], avoid=[last[0]])
            ok = not any(any(not (call_recv(c) or "").startswith("log") for c in cc.nodes[i].calls()) for i in between if i not in trio)
    r.check(ok, "%s#success-resets" % cb.qname, "successful connect does not zero the failure count, clear the attempt and "
            "(unless closing) send the queue", where(cb, cb.node), "back-off keeps growing / queued requests never sent")

    # the back-off between attempts is the caller's policy, as given
    binit = ctx.func(BC + ".__init__")
    forms = stored_forms(ctx, binit, "_retryPolicy")
    pol_params = [p_ for p_ in binit.params if "olicy" in p_]
    r.check(bool(forms) and bool(pol_params) and all(f_ == "<param:%s>" % pol_params[0] for f_ in forms), "%s#policy-as-configured" % binit.qname,
            "the retry policy used between connection attempts is %s, not the configured one" % forms, where(binit, binit.node),
            "a configured back-off above some built-in ceiling is silently shortened: a struggling broker is hammered every few seconds")

    # ---- R6 close
    r = ctx.rule("R6", "close: flag first; drop connection / cancel attempt / fire; fail every pending request; refuse new ones", 5, "B")
    cl = ctx.cfg(close)
    fc = ctx.facts(close)
    flag = [n for n in cl.nodes if node_assign_value(n, "_dDown") is not None]
    need(flag, "close() does not set _dDown")
    eff = [n for n in cl.nodes if n.stmt is not None and n.id != flag[0].id and (
        any(call_name(c) in ("loseConnection", "cancel", "callback", "errback", "popitem", "addErrback") for c in n.calls()))]
    r.check(all(cl.dominates([flag[0].id], n.id) for n in eff) and bool(eff), "%s#flag-first" % close.qname,
            "close() acts before marking the client as closing", where(close, flag[0].stmt), "reconnect triggered during close")
    lose = [n for n in cl.nodes if any(call_name(c) == "loseConnection" for c in n.calls())]
    canc = [n for n in cl.nodes if any(call_name(c) == "cancel" and call_recv(c) == "self.connector" for c in n.calls())]
    fire = [n for n in cl.nodes if any(call_name(c) == "callback" and call_recv(c) == "self._dDown" for c in n.calls())]
    ok = (bool(lose) and ("self.proto is None", False) in fc[lose[0].id] and bool(canc) and ("self.connector is None", False) in fc[canc[0].id]
          and known_falsy(fc[canc[0].id], "self.proto") and bool(fire) and known_falsy(fc[fire[0].id], "self.proto")
          and known_falsy(fc[fire[0].id], "self.connector"))
    r.check(ok, "%s#three-states" % close.qname, "close() does not handle connected / connecting / idle as drop / cancel / fire",
            where(close, close.node), "close Deferred never fires, or a pending attempt connects after close")
    lw = [n for n in cl.nodes if n.kind == "test" and isinstance(n.stmt, ast.While) and norm(at(ctx, close, n.id, n.stmt.test)) == "self.requests"]
    ebn = [n for n in cl.nodes if any(call_name(c) == "errback" for c in n.calls())]
    pop = [n for n in cl.nodes if any(call_name(c) in ("popitem", "pop") and call_recv(c) == "self.requests" for c in n.calls())]
    ok = bool(lw) and bool(ebn) and bool(pop) and all(any(t.endswith(".cancelled is None") and pol for t, pol in fc[n.id]) for n in ebn) \
        and cl.dominates([lw[0].id], cl.exit.id)
    r.check(ok, "%s#fails-pending" % close.qname, "close() does not empty the table failing every non-cancelled request",
            where(close, close.node), "requests pending at close never complete")
    cm = ctx.cfg(mk)
    fm = ctx.facts(mk)
    insn = [n for n, _k, _v in table_stores(ctx, mk, "self.requests")]
    r.check(bool(insn) and all(known_falsy(fm[n.id], "self._dDown") for n in insn), "%s#refuses-after-close" % mk.qname,
            "makeRequest accepts a request after close()", where(mk, mk.node), "request queued for ever / connection attempt after close")
    # the handler close() registers on the pending attempt before cancelling it (whatever it is called)
    hcfs = [prog.resolve_callable(close, g["eb"]) for g in registrations(close, prog) if g["eb"] is not None and g["root"] == "self.connector"]
    hcf = hcfs[0] if len(hcfs) == 1 else None
    r.check(hcf is not None and any(call_name(c) == "callback" and call_recv(c) == "self._dDown" for c in calls_in(hcf)),
        "%s#cancelled-attempt-fires" % close.qname, "cancelling the pending attempt does not fire the close Deferred", where(close, close.node))

    # ---- R7 write site
    r = ctx.rule("R7", "sendString is called in one function, reachable only from makeRequest (connected) and the queue sender", 3, "A")
    ws = sorted({f.qname for f in prog.functions(module="brokerclient") for c in calls_in(f, "sendString")})
    r.check(ws == [sr.qname], "%s#write-sites" % BC, "sendString called from %s" % ws, facts=ws)
    callers = sorted({f.qname for f in prog.functions(module="brokerclient") for c in calls_in(f) if prog.resolve_call(f, c) is sr})
    r.check(callers == sorted([mk.qname, sq.qname]), "%s#callers(_sendRequest)" % BC, "write function called from %s" % callers, facts=callers)
    for n in cm.nodes:
        if any(prog.resolve_call(mk, c) is sr for c in n.calls()):
            r.check(known_truthy(fm[n.id], "self.proto"), "%s#write-only-when-connected" % mk.qname,
                    "makeRequest writes without a live connection", where(mk, n.stmt))
    # ... and with a live connection it always writes: beyond the tests that decide whether the request is accepted at all,
    # only the connection test stands between an accepted request and the wire (nothing else will send it later: the queue
    # sender runs once per connection)
    ins_ = [n for n in cm.nodes if n.kind == "stmt" and isinstance(n.stmt, ast.Assign) and any(
        isinstance(t, ast.Subscript) and norm(t.value) == "self.requests" for t in n.stmt.targets)]
    wr_ = [n for n in cm.nodes if any(prog.resolve_call(mk, c) is sr for c in n.calls())]
    if ins_ and wr_:
        base_ = {(t.id, lab) for t, lab in cm.control_deps_transitive(ins_[0].id)}
        extra_ = []
        for w_ in wr_:
            for t, lab in cm.control_deps_transitive(w_.id):
                if (t.id, lab) in base_ or t.kind != "test":
                    continue
                txt_ = norm(at(ctx, mk, t.id, t.stmt.test))
                if txt_ not in ("self.proto", "self.proto is not None", "not self.proto", "self.proto is None", "bool(self.proto)"):
                    extra_.append("line %d: %s" % (t.stmt.lineno, txt_))
        r.check(not extra_, "%s#connected-means-written" % mk.qname, "with a live connection an accepted request is written only if also %s" % extra_,
                where(mk, wr_[0].stmt), "a request issued from the callback of a no-reply request while the queue is flushed to a new connection "
                "stays in the table unsent on a live connection: it never completes")


MUTANTS = [
    {"id": "queue-sender-trusts-snapshot", "file": "brokerclient.py",
     "old": "            if tReq.sent is None and self.requests.get(tReq.correlationId) is tReq:", "new": "            if tReq.sent is None:",
     "expect": "C10.R2", "note": "finding F17"},
    {"id": "lost-keeps-sent", "file": "brokerclient.py", "old": "            else:\n                tReq.sent = None\n", "new": "", "expect": "C10.R1"},
    {"id": "lost-keeps-cancelled", "file": "brokerclient.py",
     "old": "            if tReq.cancelled is not None:\n                del self.requests[tReq.correlationId]\n            else:\n                tReq.sent = None",
     "new": "            tReq.sent = None", "expect": "C10.R1"},
    {"id": "resend-everything", "file": "brokerclient.py", "old": "            if tReq.sent is None and self.requests.get(tReq.correlationId) is tReq:\n                self._sendRequest(tReq)",
     "new": "            self._sendRequest(tReq)", "expect": "C10.R2"},
    {"id": "resend-reversed", "file": "brokerclient.py", "old": "        for tReq in list(self.requests.values()):  # must copy, may del",
     "new": "        for tReq in reversed(list(self.requests.values())):  # must copy, may del", "expect": "C10.R2"},
    {"id": "plain-dict", "file": "brokerclient.py", "old": "        self.requests = OrderedDict()", "new": "        self.requests = set()",
     "expect": "C10.R2"},
    {"id": "noreply-kept", "file": "brokerclient.py",
     "old": "                del self.requests[tReq.correlationId]\n                tReq.d.callback(None)", "new": "                tReq.d.callback(None)",
     "expect": "C10.R3"},
    {"id": "reconnect-when-idle", "file": "brokerclient.py", "old": "        elif self.requests:\n            self._connect()",
     "new": "        else:\n            self._connect()", "expect": "C10.R4"},
    {"id": "connect-while-connecting", "file": "brokerclient.py", "old": "        elif not self.connector:\n            self._connect()",
     "new": "        else:\n            self._connect()", "expect": "C10.R4"},
    {"id": "failures-not-counted", "file": "brokerclient.py", "old": "            self._failures += 1\n            delay", "new": "            delay",
     "expect": "C10.R5"},
    {"id": "failures-not-reset", "file": "brokerclient.py",
     "old": "            log.debug(\"%r: connected to %r\", self, proto.transport.getPeer())\n            self._failures = 0\n",
     "new": "            log.debug(\"%r: connected to %r\", self, proto.transport.getPeer())\n", "expect": "C10.R5"},
    {"id": "retry-after-close", "file": "brokerclient.py",
     "old": "            if self._dDown:\n                log.debug(\"%r: breaking connect loop due to %r after close()\", self, fail)\n                return fail\n",
     "new": "", "expect": "C10.R5"},
    {"id": "closing-guard-narrowed", "file": "brokerclient.py", "old": "            if self._dDown:\n                log.debug(\"%r: breaking connect loop",
     "new": "            if self._dDown and fail.check(Exception) and not fail.check(ValueError):\n                log.debug(\"%r: breaking connect loop", "expect": "C10.R5",
     "note": "seeded C20-2 (guard narrowed to one failure class)"},
    {"id": "attempt-not-wrapped", "file": "brokerclient.py", "old": "            self.connector = d = maybeDeferred(connect)",
     "new": "            self.connector = d = connect()", "expect": "C10.R5", "note": "seeded C10-3"},
    {"id": "connector-stored-late", "file": "brokerclient.py",
     "old": "            self.connector = d = maybeDeferred(connect)\n            d.addCallback(cbConnect)\n            d.addErrback(ebConnect)",
     "new": "            d = maybeDeferred(connect)\n            d.addCallback(cbConnect)\n            d.addErrback(ebConnect)\n            self.connector = d", "expect": "C10.R5",
     "note": "seeded C20-4"},
    {"id": "backoff-expiry-skips-reconnect", "file": "brokerclient.py", "old": "                self.connector = None\n                return\n            tryConnect()",
     "new": "                return\n            tryConnect()", "expect": "C10.R5", "note": "seeded C06-4 (since F43: the idle exit that keeps the fired back-off Deferred in `connector`)"},
    {"id": "failed-attempt-no-retry-when-idle", "file": "brokerclient.py", "old": "            self._failures += 1\n            delay = self._retryPolicy(self._failures)",
     "new": "            if not self.requests:\n                return None\n            self._failures += 1\n            delay = self._retryPolicy(self._failures)", "expect": "C10.R5",
     "note": "seeded C10-5"},
    {"id": "close-keeps-pending", "file": "brokerclient.py", "old": "            if tReq.cancelled is None:\n                tReq.d.errback(reason)",
     "new": "            pass", "expect": "C10.R6"},
    {"id": "accept-after-close", "file": "brokerclient.py",
     "old": "        if self._dDown:\n            return fail(\n                ClientError(\n                    \"Broker client for node_id={} {}:{} has been closed\".format(self.node_id, self.host, self.port)\n                )\n            )\n",
     "new": "", "expect": "C10.R6"},
    {"id": "write-elsewhere", "file": "brokerclient.py", "old": "            self.proto.transport.loseConnection()\n\n    def close",
     "new": "            self.proto.sendString(b\"\")\n            self.proto.transport.loseConnection()\n\n    def close", "expect": "C10.R7"},
]
TWINS = [
    {"id": "lost-branches-swapped", "file": "brokerclient.py",
     "old": "            if tReq.cancelled is not None:\n                del self.requests[tReq.correlationId]\n            else:\n                tReq.sent = None",
     "new": "            if tReq.cancelled is None:\n                tReq.sent = None\n            else:\n                del self.requests[tReq.correlationId]"},
]

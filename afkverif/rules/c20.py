"""C20 - closing the client fails everything pending and releases every connection.

Decided: close() poisons first; every broker client is closed and the returned
Deferred aggregates all their close Deferreds (nesting an earlier aggregate);
the fire sites of a broker client's close Deferred; every path from the client
to an I/O primitive passes a `_closing` test (call-graph dominance); after a
suspension nothing new is started without re-checking `_closing`
(check-after-yield); metadata is cleared.  Broker-client close is C10.R6.
Not decided: ordering of late connection-closed notifications.
"""
import ast

from ..cfg import known_falsy, known_truthy
from ..model import self_attr, unparse, walk_body_shallow
from .util import *  # noqa: F401,F403
from .util import (list_adds, expand, value_origins, at, deferred_origins, bootstrap_names, call_name, call_recv, calls_in, need, node_assign_value, norm, real_suspension, registrations, where)

TECHNIQUE = "poison-first dominance, aggregate construction def-use, call-graph dominance of the closing test, " \
            "check-after-yield (G-YIELD)"
EXPLANATION = (
    "Rules over afkak/client.py and the close-Deferred fire sites of afkak/brokerclient.py: `_closing = True` "
    "dominates every other effect of close(); the DeferredList is built from every brokerClient.close() result plus "
    "any earlier aggregate and is what close() returns; each call site of an I/O primitive (makeRequest via the "
    "wrapper, endpoint connect, bootstrap request) is dominated by a `_closing` test or by a call to a function that "
    "tests it on entry; G-YIELD: with facts on self.* killed at every real suspension, each such site that follows a "
    "suspension must still carry the fact `not self._closing`."
)
SHARED = [('C10', ['R2'], 'requests that close() failed during a flush of the queue are not written afterwards'), ('C08', ['R2'], 'broker clients dropped by a metadata refresh are closed through the aggregate that close() waits for'), ('C10', ['R5', 'R6'], 'a closed broker client arms nothing and fails what is pending'), ('C06', ['R8'], 'a closed bootstrap protocol refuses requests and fails what is pending')]
ASSUMPTIONS = ["DeferredList fires after every member fired", "endpoint.connect / protocol.request are the only ways the client opens "
               "connections or writes outside _KafkaBrokerClient"]
KC = "client:KafkaClient"


def _entry_checks_closing(ctx, f):
    """f raises (or returns a failure) on entry when self._closing."""
    cf = ctx.cfg(f)
    first = [t for t, lab in cf.succ[cf.entry.id]]
    if not first:
        return False
    n = cf.nodes[first[0]]

    def harmless(x):
        st = x.stmt
        if x.kind != "stmt":
            return False
        if isinstance(st, ast.Pass) or (isinstance(st, ast.Expr) and isinstance(st.value, ast.Constant)):
            return True
        return isinstance(st, ast.Expr) and isinstance(st.value, ast.Call) and (call_recv(st.value) or "").split(".")[0] in ("log", "logging")
    while harmless(n):  # docstring, logging
        n = cf.nodes[[t for t, lab in cf.succ[n.id] if lab is None][0]]
    if n.kind == "test" and norm(n.stmt.test) in ("self._closing", "not self._closing"):
        closed_pol = norm(n.stmt.test) == "self._closing"  # the outcome of the test that means "closed"
        starts = [t for t, lab in cf.succ[n.id] if lab and lab[0] == "cond" and lab[2] == closed_pol]
        arm = cf.reach(starts) | set(starts)
        return cf.exit.id not in arm or all(isinstance(cf.nodes[i].stmt, (ast.Raise, ast.Return)) or cf.nodes[i].stmt is None for i in arm)
    return False


def run(ctx):
    prog = ctx.prog
    ci = prog.cls(KC)
    close = ctx.func(KC + ".close")
    cbc = ctx.func(KC + "._close_brokerclients")
    cf = ctx.cfg(close)

    # ---- R1 poison first
    r = ctx.rule("R1", "close() sets _closing before any other effect", 1, "B")
    flag = [n for n in cf.nodes if getattr(node_assign_value(n, "_closing"), "value", None) is True]
    need(flag, "close() does not set _closing")
    eff = [n for n in cf.nodes if n.stmt is not None and n.id != flag[0].id and (
        any(not (call_recv(c) or "").startswith("log") for c in n.calls()) or (n.kind == "stmt" and isinstance(n.stmt, ast.Assign)))]
    r.check(bool(eff) and all(cf.dominates([flag[0].id], n.id) for n in eff), "%s#poison-first" % close.qname,
            "close() closes connections or clears state before marking the client closed", where(close, flag[0].stmt),
            "a callback fired by the teardown starts a new request/connection on the closing client")

    # ---- R2 every broker client closed and awaited
    r = ctx.rule("R2", "all broker clients are closed; the returned Deferred aggregates every close (and earlier aggregates)", 7, "A+C")
    sw = [n for n in cf.nodes if node_assign_value(n, "clients") is not None]
    call = [c for c in calls_in(close, cbc.name)]
    fcl = ctx.facts(close)
    ok = len(sw) == 1 and len(call) == 1
    if ok:
        # the closer gets `<map>.values()` where <map> is what self.clients held before it was poisoned (tuple swap,
        # or read into a local first)
        a0 = call[0].args[0] if call[0].args else None
        ok = isinstance(a0, ast.Call) and call_name(a0) == "values" and isinstance(a0.func, ast.Attribute)
        if ok:
            cn_ = cf.containing(call[0])[0]
            st_ = sw[0].stmt
            src = None
            if isinstance(st_.targets[0], ast.Tuple) and isinstance(st_.value, ast.Tuple):
                local = [unparse(t) for t, v in zip(st_.targets[0].elts, st_.value.elts) if norm(v) == "self.clients"]
                src = local[0] if local else None
                ok = src is not None and norm(a0.func.value) == src
            else:
                og = value_origins(cf, cn_.id, a0.func.value, params=close.params) or []
                ok = bool(og) and all(norm(e) == "self.clients" and sw[0].id in cf.reach([n_]) and n_ not in cf.reach([sw[0].id]) for n_, e in og)
    r.check(ok, "%s#closes-all-clients" % close.qname, "close() does not hand every broker client to the closer", where(close, close.node),
            "a broker connection survives close()")
    newv = []
    if sw:
        st_ = sw[0].stmt
        if isinstance(st_.targets[0], ast.Tuple) and isinstance(st_.value, ast.Tuple):
            newv = [norm(v) for t, v in zip(st_.targets[0].elts, st_.value.elts) if self_attr(t) == "clients"]
        else:
            newv = [norm(node_assign_value(sw[0], "clients"))]
    # (since every wait of a client operation is ended by close() - R7 - no reply handler can run after it; what matters is
    # that the closed client no longer holds the broker clients it has just closed: None or a fresh empty map)
    r.check(len(newv) == 1 and newv[0] in ("None", "{}", "dict()") and len(sw) == 1, "%s#client-map-poisoned" % close.qname,
            "close() replaces the client map by %s instead of detaching it (None / an empty map)" % newv, where(close, close.node),
            "a reply to a request still in flight on a bootstrap connection arrives after close(): with a usable map _update_brokers no "
            "longer fails, the reply is merged and the caches are repopulated; the pending load fires True after close")
    retn = [n for n in cf.nodes if n.kind == "stmt" and isinstance(n.stmt, ast.Return)]
    okr = bool(retn) and bool(call)
    for n in retn:
        v = at(ctx, close, n.id, n.stmt.value) if n.stmt.value is not None else None
        t = norm(v) if v is not None else ""
        if t.startswith("self.close_dlist or ") and isinstance(v, ast.BoolOp) and len(v.values) == 2 and call_name(v.values[1]) == "succeed" if isinstance(
                v, ast.BoolOp) and isinstance(v.values[1], ast.Call) else False:
            pass
        elif t == "self.close_dlist" and known_truthy(fcl[n.id], "self.close_dlist"):
            pass
        elif isinstance(v, ast.Call) and call_name(v) == "succeed" and known_falsy(fcl[n.id], "self.close_dlist"):
            pass
        else:
            okr = False
        okr = okr and cf.dominates([cf.containing(call[0])[0].id], n.id)
    r.check(okr, "%s#returns-aggregate" % close.qname,
            "close() does not return the aggregate of the broker-client closes", where(close, close.node), "close Deferred fires before the connections are gone")
    cc = ctx.cfg(cbc)
    fcc = ctx.facts(cbc)
    dl = []
    for n in cc.nodes:
        v = node_assign_value(n, "close_dlist")
        if v is not None:
            og = deferred_origins(cc, n.id, v) or []
            if len(og) == 1 and isinstance(og[0], ast.Call) and call_name(og[0]) == "DeferredList":
                dl.append((n, og[0]))
    need(len(dl) == 1, "aggregate construction not found")
    dl_call = dl[0][1]
    dl = [dl[0][0]]
    lst = norm(dl_call.args[0])
    loops = [n for n in cc.nodes if n.kind == "for" and norm(n.stmt.iter) == cbc.params[1]]
    apps = [n for n in cc.nodes if any(call_name(c) == "append" and call_recv(c) == lst for c in n.calls())]
    ok = len(loops) == 1 and bool(apps)
    if ok:
        body = cc.reach([loops[0].id], avoid=[t for t, lab in cc.succ[loops[0].id] if lab == ("iter", False)])
        inl = [n for n in apps if n.id in body]
        ok = len(inl) == 1 and loops[0].id not in cc.reach([t for t, lab in cc.succ[loops[0].id] if lab == ("iter", True)], avoid=[inl[0].id])
        if ok:
            av = [c for c in inl[0].calls() if call_name(c) == "append"][0].args[0]
            og = deferred_origins(cc, inl[0].id, av) or []
            ok = len(og) == 1 and norm(og[0]) == "%s.close()" % unparse(loops[0].stmt.target)
        ok = ok and cc.dominates([loops[0].id], dl[0].id)
    r.check(ok, "%s#aggregate-of-every-close" % cbc.qname, "the aggregate does not contain the close Deferred of every broker client",
            where(cbc, cbc.node), "close() reports completion while a broker connection is still closing")
    inits = [n for n in cc.nodes if n.kind == "stmt" and isinstance(n.stmt, ast.Assign) and unparse(n.stmt.targets[0]) == lst]
    nest = [n for n in inits if norm(at(ctx, cbc, n.id, n.stmt.value)) == "[self.close_dlist]"]
    okn = len(nest) == 1 and any((t, pol) in fcc[nest[0].id] for t, pol in (("self.close_dlist", True), ("not self.close_dlist", False)))
    r.check(okn, "%s#nests-earlier-aggregate" % cbc.qname, "an aggregate still pending from an earlier close (metadata refresh) is dropped",
            where(cbc, cbc.node), "close() fires before brokers being closed by a refresh are gone")
    resets = []
    for g in [cbc] + list(cbc.nested.values()):
        cg = ctx.cfg(g)
        fg = ctx.facts(g)
        for n in cg.nodes:
            v = node_assign_value(n, "close_dlist")
            if v is not None and isinstance(v, ast.Constant) and v.value is None:
                cmp_ok = any(pol and ("== self.close_dlist" in t or "self.close_dlist ==" in t or "is self.close_dlist" in t or "self.close_dlist is " in t)
                             for t, pol in fg[n.id])
                resets.append((g, n, cmp_ok))
    r.check(bool(resets) and all(ok for g, n, ok in resets), "%s#reset-only-own-aggregate" % cbc.qname,
            "the pending-close aggregate is forgotten although it may not be the one that just completed", where(cbc, cbc.node),
            "two overlapping refreshes each close a broker; the older batch completes first and wipes the reference to the newer "
            "one: close() then fires while that broker's connection is still open")
    fires = []
    for f in prog.functions(module="brokerclient"):
        for c in calls_in(f, "callback"):
            if call_recv(c) == "self._dDown":
                fires.append(f.qname)
    bclose = ctx.func("brokerclient:_KafkaBrokerClient.close")
    ebs = [prog.resolve_callable(bclose, g["eb"]) for g in registrations(bclose, prog) if g["eb"] is not None and g["root"] == "self.connector"]
    want = sorted(["brokerclient:_KafkaBrokerClient._connectionLost", "brokerclient:_KafkaBrokerClient.close"] + [h.qname for h in ebs if h is not None])
    r.check(sorted(fires) == want and len(want) == 3, "brokerclient:_KafkaBrokerClient#fire-sites(_dDown)", "close Deferred of a broker client is fired from %s" % sorted(fires),
            facts=sorted(fires), witness="fired before the connection is gone, or twice")

    # ---- R3 new operations fail (call-graph dominance)
    r = ctx.rule("R3", "every I/O site in the client is dominated by a _closing test or by a callee that tests it on entry", 4, "A")
    sites = []
    for f in [x for x in prog.funcs.values() if x.cls is ci]:
        cff = ctx.cfg(f)
        for n in cff.nodes:
            for c in n.calls():
                nm, rc = call_name(c), call_recv(c) or ""
                epv, prv = bootstrap_names(f)
                if nm == "_make_request_to_broker" or (nm == "connect" and rc == epv and epv) or (nm == "request" and rc == prv and prv) \
                        or nm == "_send_bootstrap_request" or nm == "makeRequest":
                    sites.append((f, cff, n, c))
    need(len(sites) >= 5, "I/O sites not found")
    wrapper = ctx.func(KC + "._make_request_to_broker")
    boot = ctx.func(KC + "._send_bootstrap_request")
    for f, cff, n, c in sites:
        if f is wrapper:
            r.ok("%s#%s (the wrapper itself; its callers are checked)" % (f.qname, call_name(c)), where(f, c))
            continue
        ff = ctx.facts(f, kill_on_suspend=False)
        direct = ("self._closing", False) in ff[n.id]
        via = [m for m in cff.nodes if any(prog.resolve_call(f, x) is not None and prog.resolve_call(f, x).cls is ci and
                                           _entry_checks_closing(ctx, prog.resolve_call(f, x)) for x in m.calls())]
        dom = cff.dominates([m.id for m in via], n.id) if via else False
        callers_ok = False
        if f is boot:
            cs = [(g, x) for g in prog.funcs.values() if g.cls is ci for x in calls_in(g, boot.name)]
            callers_ok = bool(cs) and all(("self._closing", False) in ctx.facts(g, kill_on_suspend=False)[ctx.cfg(g).containing(x)[0].id] for g, x in cs)
        r.check(direct or dom or callers_ok, "%s#io:%s" % (f.qname, norm(c.func)),
                "I/O site reachable without any test of _closing on the way", where(f, c), "operation started on a closed client opens a connection")

    for q in (KC + "._get_brokerclient", KC + "._send_broker_unaware_request"):
        g = ctx.func(q)
        r.check(_entry_checks_closing(ctx, g), "%s#refuses-on-entry" % q,
                "does not refuse (raise) on entry once the client is closed", where(g, g.node),
                "an operation started after close() is not failed with ClientError (it is silently cancelled or proceeds)")

    # a handler in the client that absorbs an exception (no re-raise anywhere in its arm) must not be able to catch what
    # a closed client raises (ClientError, CancelledError): otherwise an operation on a closed client "succeeds"
    from .c09 import exc_table
    anc_, _al = exc_table(prog)
    closed_errs = {"ClientError", "CancelledError"}
    n_abs = 0
    for f in sorted([x for x in prog.funcs.values() if x.cls is ci or (x.parent is not None and x.cls is ci)], key=lambda x: x.qname):
        cfh = ctx.cfg(f)
        for hn in [n for n in cfh.nodes if n.kind == "except"]:
            arm_ = cfh.reach([hn.id])
            reraises = any(cfh.nodes[i_].kind == "stmt" and isinstance(cfh.nodes[i_].stmt, ast.Raise) for i_ in arm_)
            if reraises:
                continue
            t_ = hn.stmt.type
            names_ = ["BaseException"] if t_ is None else [unparse(e).split(".")[-1] for e in (t_.elts if isinstance(t_, ast.Tuple) else [t_])]
            catches = sorted(c_ for c_ in closed_errs if any(nm in anc_.get(c_, {c_}) or nm in ("Exception", "BaseException") for nm in names_))
            n_abs += 1
            r.check(not catches, "%s#absorbing-handler(%s)" % (f.qname, ",".join(names_)), "the handler absorbs %s, which includes the %s raised for a closed "
                    "client" % (names_, catches), where(f, hn.stmt), "an operation in progress at close, or started on a closed client, returns a "
                    "value instead of failing")

    # ---- R4 nothing new after close (G-YIELD)
    r = ctx.rule("R4", "I/O sites that follow a suspension re-check _closing (or call a function that does) after it", 3, "B")
    for f in [x for x in prog.funcs.values() if x.cls is ci and x.is_inline_callbacks]:
        cff = ctx.cfg(f)
        pred = real_suspension(prog, f)
        facts, _ = cff.must_facts(prog, suspend_pred=pred)
        real = [n for n in cff.nodes if n.suspends and pred(n)]
        for n in cff.nodes:
            for c in n.calls():
                nm, rc = call_name(c), call_recv(c) or ""
                epv, prv = bootstrap_names(f)
                io = nm in ("_make_request_to_broker", "_send_bootstrap_request") or (nm == "connect" and rc == epv and epv) or (
                    nm == "request" and rc == prv and prv)
                if not io:
                    continue
                after = [s for s in real if n.id in cff.reach([s.id])]
                if not after:
                    continue
                direct = ("self._closing", False) in facts[n.id]
                # a dominating call, after the last suspension, to a function that tests _closing on entry
                via = False
                for m in cff.nodes:
                    if m.id != n.id and any(prog.resolve_call(f, x) is not None and prog.resolve_call(f, x).cls is ci and
                                            _entry_checks_closing(ctx, prog.resolve_call(f, x)) for x in m.calls()):
                        if not cff.dominates([m.id], n.id):
                            continue
                        fwd = cff.reach([m.id], avoid=[n.id])
                        between = [s for s in real if s.id in fwd and n.id in cff.reach([s.id], avoid=[m.id])]
                        if not between and not (m.suspends and pred(m)):
                            via = True
                r.check(direct or via, "%s#after-suspension:%s" % (f.qname, norm(c.func)),
                        "%s follows a suspension without a re-check of _closing" % norm(c.func), where(f, c),
                        "close() during that suspension: the loop goes on to dial the next host / write the request; the pending "
                        "operation is not failed", facts=["suspensions before=%d" % len(after)])

    # ---- R7 whatever an operation of the client waits on is ended by close()
    r = ctx.rule("R7", "every Deferred a client operation waits on is a request to a broker client (closed by close()), another client "
                       "operation, or one that close() cancels", 3, "A+C")
    # the containers close() cancels: `for d in <copy of self.X>: d.cancel()`
    cancelled_sets = set()
    for st in walk_body_shallow(close.body):
        if isinstance(st, ast.For) and isinstance(st.target, ast.Name):
            if any(isinstance(c, ast.Call) and call_name(c) == "cancel" and call_recv(c) == st.target.id for b in st.body for c in ast.walk(b)):
                got = {self_attr(x) for x in ast.walk(st.iter) if isinstance(x, ast.Attribute) and self_attr(x)}
                cancelled_sets |= got
                # cancelling runs the waiter, which takes its Deferred out of the container: iterate over a copy
                copied = isinstance(st.iter, ast.Call) and (call_name(st.iter) in ("list", "tuple", "sorted", "set", "frozenset", "copy"))
                r.check(copied or not got, "%s#cancels-over-a-copy" % close.qname, "close() cancels the tracked Deferreds while iterating over the "
                        "live container (%s)" % norm(st.iter), where(close, st), "the first cancellation removes its entry: RuntimeError (set "
                        "changed size during iteration) out of close(), the remaining operations are not failed")

    def tracked(f, cff, n, v, origin):
        # (i) handed to a pass-through wrapper that adds what it is given to a cancelled container
        x = v
        while True:
            w = f.module.wrapped.get(id(x))
            if w is not None:
                wf = prog.funcs.get("%s:%s" % (f.module.name, w))
                if wf is not None:
                    cw = ctx.cfg(wf)
                    rets = [m for m in cw.nodes if m.kind == "stmt" and isinstance(m.stmt, ast.Return)]
                    adds = [m.id for m in cw.nodes if any(call_name(c) in ("add", "append") and self_attr(c.func.value) in cancelled_sets and c.args and
                                                         isinstance(c.args[0], ast.Name) and c.args[0].id in wf.params for c in m.calls())]
                    if adds and rets and all(cw.dominates(adds, m.id) for m in rets):
                        return "via %s" % w
            if isinstance(x, ast.Call) and isinstance(x.func, ast.Attribute):
                x = x.func.value
            else:
                break
        # (ii) added to a cancelled container in place, on every path to the wait
        for m in cff.nodes:
            for c in m.calls():
                if call_name(c) in ("add", "append") and self_attr(c.func.value) in cancelled_sets and c.args:
                    og = deferred_origins(cff, m.id, c.args[0]) or []
                    if any(o is origin or (isinstance(o, ast.Call) and call_name(o) == "addTimeout" and o.func.value is origin) for o in og) \
                            and cff.dominates([m.id], n.id):
                        return "in place"
        return None

    def classify(f, cff, n, v, depth=0):
        # -> list of (verdict, text): verdict True (ended by close), False (not), None (not a Deferred the client creates)
        out = []
        ogs = deferred_origins(cff, n.id, v)
        if ogs is None:
            return [(None, norm(v))]
        for o in ogs:
            if not isinstance(o, ast.Call):
                out.append((None, norm(o)))
                continue
            while call_name(o) == "addTimeout" and isinstance(o.func, ast.Attribute) and isinstance(o.func.value, ast.Call):
                o = o.func.value  # a timeout on the wait does not end it at close()
            g = prog.resolve_call(f, o)
            nm = call_name(o)
            if g is not None and g.cls is ci:
                out.append((True, "%s (client operation)" % nm))
            elif nm == "makeRequest":
                out.append((True, "%s (broker client request)" % nm))
            elif nm in ("DeferredList", "gatherResults") and o.args and depth < 2:
                # the members of the aggregate, whatever container carries them (a list, a list of pairs, a comprehension)
                from ..seqsym import Seq
                sh = Seq(ctx, f).shape_of_expr(o.args[0])
                members = []

                def leaves(v_):
                    if v_[0] == "call":
                        members.append(v_[1])
                    elif v_[0] == "tuple":
                        for x_ in v_[1]:
                            leaves(x_)
                    elif v_[0] in ("dlres", "flag", "value"):
                        leaves(v_[1])
                if sh is not None:
                    leaves(sh[1])
                if not members:
                    out.append((None, norm(o)))
                for c_ in members:
                    out.extend(classify(f, cff, cff.containing(c_)[0], c_, depth + 1))
            elif nm in ("succeed", "fail", "maybeDeferred"):
                out.append((None, norm(o)))
            else:
                how = tracked(f, cff, n, v, o)
                out.append((how is not None, "%s%s" % (nm, " [%s]" % how if how else "")))
        return out

    n_wait = n_prim = 0
    for f in sorted([x for x in prog.funcs.values() if x.cls is ci and x.is_inline_callbacks], key=lambda x: x.qname):
        cff = ctx.cfg(f)
        for n in cff.nodes:
            for y in [x for x in n.walk() if isinstance(x, ast.Yield) and x.value is not None]:
                res = classify(f, cff, n, y.value)
                n_wait += 1
                bad = [t for v_, t in res if v_ is False]
                prim = [t for v_, t in res if v_ is True and "[" in t]
                n_prim += len(prim)
                if bad or prim:
                    r.check(not bad, "%s#wait:%s" % (f.qname, (bad or prim)[0].split(" [")[0]),
                            "the operation waits on %s, which close() neither owns (a broker client) nor cancels" % ", ".join(bad),
                            where(f, y), "close() while the operation is waiting there: it is not failed at close - it goes on until the "
                            "connection attempt, the reply, the request timeout or the back-off timer ends the wait, with the "
                            "bootstrap connection left open meanwhile", facts=prim)
    r.info("%d waits of client operations classified; %d on Deferreds that close() cancels (containers: %s)" % (
        n_wait, n_prim, sorted(cancelled_sets)))
    need(n_wait >= 8, "suspensions of client operations not found")

    # ---- R6 broker client: nothing is (re)scheduled once close() was called (shared with C10.R5/R6)
    r = ctx.rule("R6", "a closed broker client arms no reconnect timer, starts no attempt and accepts no request", 3, "B")
    conn = ctx.func("brokerclient:_KafkaBrokerClient._connect")
    for g in conn.nested.values():
        cg = ctx.cfg(g)
        fg = ctx.facts(g)
        for n in cg.nodes:
            if any(call_name(c) in ("deferLater", "callLater") for c in n.calls()):
                r.check(known_falsy(fg[n.id], "self._dDown"), "%s#timer-only-when-open" % g.qname,
                        "a reconnect timer can be armed after close()", where(g, n.stmt), "connection attempt after close(); close Deferred never fires")
            if any(call_name(c) == "_sendQueued" for c in n.calls()):
                r.check(known_falsy(fg[n.id], "self._dDown"), "%s#send-only-when-open" % g.qname,
                        "queued requests are written on a connection that completed after close()", where(g, n.stmt))
    lost = ctx.func("brokerclient:_KafkaBrokerClient._connectionLost")
    cl = ctx.cfg(lost)
    fl = ctx.facts(lost)
    for n in cl.nodes:
        if any(call_name(c) == "_connect" for c in n.calls()):
            r.check(known_falsy(fl[n.id], "self._dDown"), "%s#reconnect-only-when-open" % lost.qname, "reconnect after close()", where(lost, n.stmt))

    # ---- R8 shared lookups: the waiters' entry exists before a handler that removes it can run
    r = ctx.rule("R8", "a table of waiters is filled before the handler that pops it is registered on the request", 1, "B")
    lcg = ctx.func(KC + ".load_coordinator_for_group")
    clg = ctx.cfg(lcg)
    stores_ = [n for n in clg.nodes if n.kind == "stmt" and isinstance(n.stmt, ast.Assign) and any(
        isinstance(t_, ast.Subscript) and norm(t_.value) == "self._coordinator_fetches" for t_ in n.stmt.targets)]
    poppers = [g_ for g_ in lcg.nested.values() if any(call_name(c) == "pop" and call_recv(c) == "self._coordinator_fetches" for c in calls_in(g_)) or any(
        isinstance(x, ast.Subscript) and norm(x.value) == "self._coordinator_fetches" for x in ast.walk(g_.node))]
    regn = [n for n in clg.nodes if any(call_name(c) in ("addCallback", "addErrback", "addBoth", "addCallbacks") and any(
        prog.resolve_callable(lcg, a) in poppers for a in c.args) for c in n.calls())]
    r.check(bool(stores_) and bool(poppers) and bool(regn) and all(clg.dominates([s_.id for s_ in stores_], n.id) for n in regn),
            "%s#entry-before-handlers" % lcg.qname, "the handler that takes the waiters out of `_coordinator_fetches` is registered before the entry is stored",
            where(lcg, regn[0].stmt if regn else lcg.node), "the request fails at once (the client is closed): the handler runs during registration, finds "
            "no entry (KeyError), the entry stored afterwards is never removed - every later coordinator lookup for the group waits on it for ever")

    # ---- R5 metadata cleared
    r = ctx.rule("R5", "close() clears the cached metadata (all four routing maps)", 2, "A")
    ram = ctx.func(KC + ".reset_all_metadata")
    r.check(any(prog.resolve_call(close, c) is ram for c in calls_in(close)), "%s#calls-reset-all" % close.qname, "close() keeps the metadata cache",
            where(close, close.node))
    cleared = {call_recv(c).split(".", 1)[1] for c in calls_in(ram, "clear") if (call_recv(c) or "").startswith("self.")}
    # `for m in (self.a, self.b, ...): m.clear()` clears every element of the literal
    for lp in [x for x in walk_body_shallow(ram.body) if isinstance(x, ast.For) and isinstance(x.target, ast.Name) and not x.orelse]:
        it = expand(prog, ram, lp.iter, calls=True)
        direct = [st for st in lp.body if isinstance(st, ast.Expr) and isinstance(st.value, ast.Call) and call_name(st.value) == "clear" and
                  isinstance(st.value.func.value, ast.Name) and st.value.func.value.id == lp.target.id]
        if isinstance(it, (ast.Tuple, ast.List)) and direct and not any(isinstance(x, (ast.Break, ast.Continue, ast.Return)) for x in ast.walk(lp)):
            cleared |= {self_attr(e) for e in it.elts if self_attr(e)}
    # writer / clearer agreement: every cache the metadata merge (or the coordinator lookup) fills is emptied by reset_all_metadata
    filled = set()
    for wf in (ctx.func(KC + "._merge_topic_metadata"), ctx.func(KC + "._update_coordinator_for_group") if prog.has_func(KC + "._update_coordinator_for_group") else None):
        if wf is None:
            continue
        for a_, evs in prog.direct_writes(wf).items():
            if any(k_ == "mutate" and isinstance(n_, ast.Assign) for k_, n_ in evs):
                filled.add(a_)
    filled -= {"clients", "_brokers"}  # connections and addresses are handled by close() itself
    r.check(bool(filled) and filled <= cleared, "%s#clears-every-filled-cache" % ram.qname,
            "reset_all_metadata leaves %s, which the metadata merge fills" % sorted(filled - cleared), where(ram, ram.node),
            "after close() (or a full reset) the client still answers from cached per-partition data")
    r.check({"topics_to_brokers", "topic_partitions", "topic_errors", "_group_to_coordinator"} <= cleared, "%s#clears-routing-maps" % ram.qname,
            "reset_all_metadata leaves %s" % sorted({"topics_to_brokers", "topic_partitions", "topic_errors", "_group_to_coordinator"} - cleared),
            where(ram, ram.node), facts=sorted(cleared))


MUTANTS = [
    {"id": "close-does-not-cancel-waits", "file": "client.py",
     "old": "        for d in list(self._cancel_on_close):\n            d.cancel()\n", "new": "", "expect": "C20.R7", "note": "finding F26"},
    {"id": "bootstrap-connect-untracked", "file": "client.py",
     "old": "protocol = yield self._until_close(ep.connect(_bootstrapFactory))", "new": "protocol = yield ep.connect(_bootstrapFactory)",
     "expect": "C20.R7", "note": "finding F26"},
    {"id": "wrapper-forgets-to-track", "file": "client.py",
     "old": "        self._cancel_on_close.add(d)\n        return d.addBoth(_forget)", "new": "        return d.addBoth(_forget)", "expect": "C20.R7"},
    {"id": "cancel-over-live-set", "file": "client.py",
     "old": "        for d in list(self._cancel_on_close):", "new": "        for d in self._cancel_on_close:", "expect": "C20.R7"},

    {"id": "partition-meta-survives-reset", "file": "client.py", "old": "        self.partition_meta.clear()\n", "new": "", "expect": "C20.R5", "note": "finding F24"},
    {"id": "bootstrap-loop-no-recheck", "file": "client.py",
     "old": "            if self._closing:\n                raise CancelledError(message=\"{} was closed while bootstrapping\".format(self))\n            ep = ",
     "new": "            ep = ", "expect": "C20.R4"},
    {"id": "connected-after-close-still-writes", "file": "client.py",
     "old": "            if self._closing:\n                protocol.transport.loseConnection()\n                raise CancelledError(message=\"{} was closed while bootstrapping\".format(self))\n",
     "new": "", "expect": "C20.R4"},
    {"id": "fallback-no-recheck", "file": "client.py",
     "old": "        if self._closing:\n            raise CancelledError(message=\"{} was closed\".format(self))\n        returnValue(", "new": "        returnValue(",
     "expect": "C20.R4"},
    {"id": "aggregate-reset-unconditional", "file": "client.py",
     "old": "            if close_dlist == self.close_dlist:\n                self.close_dlist = None", "new": "            self.close_dlist = None",
     "expect": "C20.R2", "note": "seeded C20-1"},
    {"id": "client-map-kept", "file": "client.py", "old": "        brokerclients, self.clients = self.clients, None",
     "new": "        brokerclients = self.clients", "expect": "C20.R2"},
    {"id": "poison-last", "file": "client.py",
     "old": "        self._closing = True\n        # Close down any clients we have\n        brokerclients, self.clients = self.clients, None\n        self._close_brokerclients(brokerclients.values())\n",
     "new": "        # Close down any clients we have\n        brokerclients, self.clients = self.clients, None\n        self._close_brokerclients(brokerclients.values())\n        self._closing = True\n",
     "expect": "C20.R1"},
    {"id": "close-returns-early", "file": "client.py", "old": "        return self.close_dlist or defer.succeed(None)", "new": "        return defer.succeed(None)",
     "expect": "C20.R2"},
    {"id": "earlier-aggregate-dropped", "file": "client.py", "old": "            dList = [self.close_dlist]", "new": "            dList = []", "expect": "C20.R2"},
    {"id": "aggregate-skips-some", "file": "client.py", "old": "            dList.append(d)\n        self.close_dlist", "new": "            if brokerClient.connected():\n                dList.append(d)\n        self.close_dlist",
     "expect": "C20.R2"},
    {"id": "unaware-no-closing-test", "file": "client.py",
     "old": "        if self._closing:\n            raise ClientError(\"Cannot send request {}: {} has been closed\".format(_ReprRequest(request), self))\n", "new": "",
     "expect": "C20.R3"},
    {"id": "get-brokerclient-no-test", "file": "client.py",
     "old": "        if self._closing:\n            raise ClientError(\"Cannot get broker client for node_id={}: {} has been closed\".format(node_id, self))\n", "new": "",
     "expect": ["C20.R3", "C20.R4"]},
    {"id": "close-keeps-metadata", "file": "client.py", "old": "        # clean up other outstanding operations\n        self.reset_all_metadata()\n", "new": "", "expect": "C20.R5"},
    {"id": "reset-all-keeps-coordinators", "file": "client.py", "old": "        self.topic_errors.clear()\n        self._group_to_coordinator.clear()",
     "new": "        self.topic_errors.clear()", "expect": "C20.R5"},
    {"id": "ddown-fired-on-close-always", "file": "brokerclient.py", "old": "        if self.proto is not None:\n            self.proto.transport.loseConnection()\n        elif",
     "new": "        if self.proto is not None:\n            self.proto.transport.loseConnection()\n            self._dDown.callback(None)\n        elif", "expect": []},
]
TWINS = [
    {"id": "client-map-emptied-not-poisoned", "file": "client.py", "old": "        brokerclients, self.clients = self.clients, None",
     "new": "        brokerclients, self.clients = self.clients, {}", "note": "seeded C20-5, harmless since F26: no reply handler can run after close()"},

    {"id": "clear-metadata-before-closing-brokers", "file": "client.py",
     "old": "        brokerclients, self.clients = self.clients, None\n        self._close_brokerclients(brokerclients.values())\n        # clean up other outstanding operations\n        self.reset_all_metadata()",
     "new": "        self.reset_all_metadata()\n        brokerclients, self.clients = self.clients, None\n        self._close_brokerclients(brokerclients.values())"},
    {"id": "closing-check-inverted-form", "file": "client.py",
     "old": "        for host, port in hostports:\n            if self._closing:\n                raise CancelledError(message=\"{} was closed while bootstrapping\".format(self))\n            ep = ",
     "new": "        for host, port in hostports:\n            if not self._closing:\n                pass\n            else:\n                raise CancelledError(message=\"{} was closed while bootstrapping\".format(self))\n            ep = "},
]

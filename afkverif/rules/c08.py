"""C08 - cached cluster metadata mirrors the broker's answer and self-heals when stale.

Decided: the merge replaces per-topic state indexed by the reply's own topic
(reset before repopulation, leader -1 -> None, else the reply's broker entry,
sorted partition list, other topics untouched); broker clients are closed only
on a full refresh and existing ones get the entry of their own id; the
invalidation table (stale-routing error classes -> matching reset, before any
re-raise; failed sends reset everything; the group coordinator resets on
coordinator errors and time-outs); producer / leader-lookup refresh; the
endpoint address is read at connect time.
Not decided: "resume within the retry budget" (liveness over fault sequences).
"""
import ast

from ..model import self_attr, unparse, walk_body_shallow
from .util import *  # noqa: F401,F403
from .util import expand, case_reach, filtered_collects, isinstance_classes, at, call_name, call_recv, calls_in, kwarg, need, node_assign_value, norm, where

TECHNIQUE = "index-variable def-use in the merge, guard-fact dominance of removals, exhaustiveness of the invalidation table"
EXPLANATION = (
    "Rules over KafkaClient._merge_topic_metadata, _update_brokers, _handle_responses, the raise of FailedPayloadsError, "
    "Coordinator.rejoin_after_error, the producer's retry arm, _get_leader_for_partition and the connect closure of "
    "_KafkaBrokerClient: every cache write in the merge loop is subscripted by the loop's topic (or a "
    "TopicAndPartition built from it); closing of clients carries the must-hold fact `remove`; each except arm "
    "naming a stale-routing class contains the matching reset before its re-raise."
    " On a full refresh the coordinator cache is purged of brokers just forgotten (or the coordinator lookup validates against the known brokers)."
)
SHARED = [('C11', ['R1'], 'a send to an unreachable cached leader fails within the client timeout - the failure is what invalidates the routing'), ('C18', ['R6'], 'the partitioner is given the client\'s whole partition list: a partition without a cached leader is still chosen, sent to, and re-resolved'), ('C14', ['R2'], 'the consumer restores its retry budget after every successful fetch, so a later leader move is retried within it'), ('C10', ['R5'], 'after an outage the broker client reconnects, so producing resumes'),
          ('C07', ['R5'], 'a failed send is recorded as failed whatever the acks setting: that record is what invalidates the cached routing'),
          ('C09', ['R5', 'R6'], 'every batch starts with the whole retry budget and the initial interval: a batch that exhausted them during a slow leader move does not starve the next'),
          ('C14', ['R3', 'R4'], 'a not-leader / unknown-partition answer to a fetch is retried at the consumer\'s own offset: it is not taken for an out-of-range offset')]
ASSUMPTIONS = ["a metadata response lists every partition of each topic it covers"]
KC = "client:KafkaClient"
CACHES = ("topic_partitions", "topics_to_brokers", "topic_errors", "partition_meta")


def run(ctx):
    prog = ctx.prog
    mt = ctx.func(KC + "._merge_topic_metadata")
    cf = ctx.cfg(mt)
    facts = ctx.facts(mt)

    # ---- R1 replace, per topic
    r = ctx.rule("R1", "merge: per-topic reset then repopulation indexed by the reply's topic; leader -1 -> None", 5, "A+B")
    lp = [n for n in cf.nodes if n.kind == "for" and norm(n.stmt.iter) == "%s.items()" % mt.params[2]]
    need(len(lp) == 1, "topic loop not found in _merge_topic_metadata")
    tv = unparse(lp[0].stmt.target.elts[0])
    body = cf.reach([lp[0].id], avoid=[t for t, lab in cf.succ[lp[0].id] if lab == ("iter", False)])
    tp_names = set()
    for i in body:
        st = cf.nodes[i].stmt
        if isinstance(st, ast.Assign) and isinstance(st.value, ast.Call) and call_name(st.value) == "TopicAndPartition" and \
                st.value.args and norm(st.value.args[0]) == tv:
            tp_names.add(unparse(st.targets[0]))
    writes = []
    for i in sorted(body):
        n = cf.nodes[i]
        st = n.stmt
        if n.kind == "stmt" and isinstance(st, ast.Assign):
            for t in st.targets:
                if isinstance(t, ast.Subscript) and self_attr(t.value) in CACHES:
                    writes.append((n, self_attr(t.value), norm(t.slice), st.value))
        for c in n.calls():
            if call_name(c) in ("append", "sort") and isinstance(c.func.value, ast.Subscript) and self_attr(c.func.value.value) in CACHES:
                writes.append((n, self_attr(c.func.value.value), norm(c.func.value.slice), None))
    # a cache entry that holds a local list (`ids = []; self.topic_partitions[topic] = ids`): what is done to the local
    # is done to the entry
    held = {}
    for n, a, k, v in list(writes):
        if isinstance(v, ast.Name):
            held[v.id] = (a, k)
        # chained form `ids = self.topic_partitions[topic] = []`: the other targets name the entry as well
        if n.kind == "stmt" and isinstance(n.stmt, ast.Assign) and len(n.stmt.targets) > 1:
            for t_ in n.stmt.targets:
                if isinstance(t_, ast.Name):
                    held[t_.id] = (a, k)
    for i in sorted(body):
        n = cf.nodes[i]
        for c in n.calls():
            if call_name(c) in ("append", "sort") and isinstance(c.func.value, ast.Name) and c.func.value.id in held:
                writes.append((n, held[c.func.value.id][0], held[c.func.value.id][1], None))
    need(len(writes) >= 5, "cache writes in the merge loop not found")
    bad = [(a, k) for n, a, k, v in writes if k != tv and k not in tp_names]
    r.check(not bad, "%s#indexed-by-reply-topic" % mt.qname, "cache entries written under keys not derived from the reply's topic: %s" % bad,
            where(mt, lp[0].stmt), "a metadata reply for topic A rewrites the routing of topic B", facts=["writes=%d" % len(writes)])
    reset = [cf.nodes[i] for i in body if any(call_name(c) == "reset_topic_metadata" and c.args and norm(c.args[0]) == tv for c in cf.nodes[i].calls())]
    r.check(len(reset) == 1 and all(cf.dominates([reset[0].id], n.id) for n, a, k, v in writes), "%s#reset-before-repopulate" % mt.qname,
            "the topic's old entries are not dropped before the reply's are stored", where(mt, lp[0].stmt),
            "partitions that disappeared stay routable; old leader survives")
    lead = [(n, v) for n, a, k, v in writes if a == "topics_to_brokers" and v is not None]
    # every value stored as a partition's leader, traced to where it is computed (both arms of an if may feed one
    # store through a local): None exactly where the facts say "no usable leader" (id -1, or not in the reply's broker
    # list), the reply's own broker entry where they say the opposite
    B_ = mt.params[1]
    cases = []
    for n, v in lead:
        ogs = value_origins(cf, n.id, v, params=mt.params) if isinstance(v, ast.Name) else [(n.id, v)]
        for dn, e in (ogs or [(n.id, v)]):
            # a conditional expression contributes one case per arm, with what its test implies
            for f_, e_ in value_cases(ctx, mt, cf.nodes[dn], e):
                cases.append((dn, e_, f_))
    okl = len(cases) >= 2
    total = True
    n_none = n_entry = 0
    for dn, e, fcase in cases:
        e = at(ctx, mt, dn, e)
        if isinstance(e, ast.Constant) and e.value is None:
            n_none += 1
            ms = sorted({t.split(".leader")[0].split()[-1].lstrip("(") for t, pol in resolved_facts(fcase) if ".leader" in t})
            okl = okl and any(facts_imply(prog, mt, fcase, {"a": "%s.leader == -1" % m_, "b": "%s.leader in %s" % (m_, B_)},
                                          lambda env: env["a"] or not env["b"]) for m_ in ms)
            continue
        key_e = e.slice if isinstance(e, ast.Subscript) and norm(e.value) == B_ else (
            e.args[0] if isinstance(e, ast.Call) and call_name(e) == "get" and call_recv(e) == B_ and e.args else None)
        if key_e is None or not norm(key_e).endswith(".leader"):
            okl = False
            continue
        n_entry += 1
        m_ = norm(key_e)[:-len(".leader")]
        okl = okl and facts_imply(prog, mt, fcase, {"a": "%s.leader == -1" % m_}, lambda env: not env["a"])
        if isinstance(e, ast.Subscript):
            total = total and facts_imply(prog, mt, fcase, {"b": "%s.leader in %s" % (m_, B_)}, lambda env: env["b"])
    okl = okl and n_none >= 1 and n_entry >= 1
    r.check(total, "%s#leader-lookup-total" % mt.qname, "the leader id a partition names is looked up in the reply's broker list without a membership "
            "test (or .get)", where(mt, lp[0].stmt), "a reply that names a leader its own broker list does not contain (a broker that has just gone "
            "away): KeyError half-way through the merge - the topic is left half-filled and unsorted, every later topic of the reply is skipped")
    r.check(okl, "%s#leader-mapping" % mt.qname, "leader -1 is not mapped to None / a leader id is not mapped to the reply's own broker entry",
            where(mt, lp[0].stmt), "leaderless partition routed to broker -1 (KeyError) or to a stale broker object")
    srt = [n for n, a, k, v in writes if a == "topic_partitions" and any(call_name(c) == "sort" for c in n.calls())]
    r.check(bool(srt), "%s#partitions-sorted" % mt.qname, "the partition list is not sorted", where(mt, lp[0].stmt),
            "round-robin partitioner sees a changed list on every refresh and restarts its cycle")
    err = [(n, v) for n, a, k, v in writes if a == "topic_errors"]
    tm = unparse(lp[0].stmt.target.elts[1])
    r.check(len(err) == 1 and isinstance(err[0][1], ast.Name), "%s#topic-error-stored" % mt.qname, "the topic's error code from the reply is not stored",
            where(mt, lp[0].stmt))

    # writer / resetter agreement: the per-topic reset removes the topic's entries from every cache the merge fills
    rtm = ctx.func(KC + ".reset_topic_metadata")
    mtm = ctx.func(KC + "._merge_topic_metadata")
    filled_ = {a_ for a_, evs in prog.direct_writes(mtm).items() if any(k_ == "mutate" and isinstance(n_, ast.Assign) for k_, n_ in evs)}
    dropped_ = {a_ for a_, evs in prog.direct_writes(rtm).items() if any(k_ in ("mutate", "del") for k_, n_ in evs)}
    r.check(bool(filled_) and filled_ <= dropped_, "%s#drops-every-filled-cache" % rtm.qname,
            "the per-topic reset leaves the topic's entries in %s, which the merge fills" % sorted(filled_ - dropped_), where(rtm, rtm.node),
            "a partition that disappears from a topic keeps its cached metadata for ever: the view does not equal what the response said")

    # ---- R2 removal only on full refresh
    r = ctx.rule("R2", "clients are closed only on a full refresh with brokers; existing clients get the entry of their own id", 5, "B")
    ub = ctx.func(KC + "._update_brokers")
    cu = ctx.cfg(ub)
    fu = ctx.facts(ub)
    cls = [n for n in cu.nodes if any(call_name(c) == "_close_brokerclients" for c in n.calls())]
    pops = [n for n in cu.nodes if any(call_name(c) == "pop" and call_recv(c) == "self.clients" for x in n.walk() if isinstance(x, ast.Call) for c in [x])]
    ok = bool(cls) and all(("remove", True) in fu[n.id] for n in cls + pops)
    r.check(ok, "%s#close-only-when-remove" % ub.qname, "broker clients are closed/removed without the full-refresh flag", where(ub, ub.node),
            "a partial metadata reply closes connections to healthy brokers: in-flight requests fail")
    call = [c for c in calls_in(mt, "_update_brokers")]
    okr = len(call) == 1 and kwarg(call[0], "remove") is not None
    if okr:
        rv = norm(kwarg(call[0], "remove"))
        d = [x for x in walk_body_shallow(mt.body) if isinstance(x, ast.Assign) and unparse(x.targets[0]) == rv]
        okr = len(d) == 1 and norm(d[0].value) in ("%s and len(%s)" % (mt.params[3], mt.params[1]), "%s and %s" % (mt.params[3], mt.params[1]),
                                                    "%s and bool(%s)" % (mt.params[3], mt.params[1]))
    r.check(okr, "%s#remove-iff-full-refresh" % mt.qname, "removal flag is not `fetched_all_topics and brokers non-empty`", where(mt, mt.node),
            "partial refresh (one topic) prunes every other broker")
    um = [c for c in calls_in(ub, "updateMetadata")]
    deps = "?"
    okm = len(um) == 1
    via_get = None
    if okm:
        loops = [x for x in walk_body_shallow(ub.body) if isinstance(x, ast.For) and um[0] in list(ast.walk(x))]
        okm = len(loops) == 1 and isinstance(loops[0].target, ast.Tuple) and norm(um[0].args[0]) == unparse(loops[0].target.elts[1]) and \
            norm(loops[0].iter).endswith(".items()")
    if okm:
        # the client that is told: the one registered under the entry's own id - `self.clients[id]`, or what `.get(id)` gave
        kv = unparse(loops[0].target.elts[0])
        un = cu.containing(um[0])[0]
        recv_ = um[0].func.value
        ogr = value_origins(cu, un.id, recv_, params=ub.params) if isinstance(recv_, ast.Name) else [(un.id, recv_)]
        forms = {norm(e_) for _d, e_ in (ogr or [])}
        okm = bool(forms) and forms <= {"self.clients[%s]" % kv, "self.clients.get(%s)" % kv}
        via_get = norm(recv_) if forms == {"self.clients.get(%s)" % kv} and isinstance(recv_, ast.Name) else None
    if okm:
        deps = sorted(norm(t.stmt.test) for t, lab in cu.control_deps_transitive(un.id) if t.kind == "test")
        allowed_ = [["%s not in self.clients" % kv], ["%s in self.clients" % kv]]
        if via_get:
            allowed_ += [["%s is not None" % via_get], ["%s is None" % via_get], [via_get], ["not %s" % via_get]]
        okm = deps in allowed_
    r.check(okm, "%s#own-entry" % ub.qname, "an existing client is not updated with its own entry whenever that client exists "
            "(conditions: %s)" % (deps,), where(ub, ub.node),
            "broker re-addressed under the same id: the `unchanged` test compares with a cache that was updated two lines earlier, the "
            "client never learns the new address and reconnects to the old one for ever")
    # sibling tables: `clients` and `_brokers` are both keyed by node id; on a full refresh the ids missing from the reply
    # leave BOTH (broker-agnostic requests iterate `_brokers` and would re-create a client for a vanished broker)
    fu = ctx.facts(ub)
    rem_p = ub.params[2] if len(ub.params) > 2 else "remove"
    for table in ("clients", "_brokers"):
        okp = False
        for x in ast.walk(ub.node):
            gens = []
            if isinstance(x, ast.For) and isinstance(x.target, ast.Name):
                gens = [(x.target.id, x.iter, x)]
            elif isinstance(x, (ast.ListComp, ast.GeneratorExp, ast.SetComp)) and len(x.generators) == 1 and isinstance(x.generators[0].target, ast.Name):
                gens = [(x.generators[0].target.id, x.generators[0].iter, x)]
            for var, it, holder in gens:
                it = expand(prog, ub, it, calls=True)  # the difference may be named first
                it_t = norm(it)
                if not (isinstance(it, ast.BinOp) and isinstance(it.op, ast.Sub) and "self.%s" % table in norm(it.left) and "self." not in norm(it.right)):
                    continue
                removes = [y for y in ast.walk(holder) if (isinstance(y, ast.Call) and call_name(y) == "pop" and call_recv(y) == "self.%s" % table and
                                                            y.args and norm(y.args[0]) == var) or (
                    isinstance(y, ast.Delete) and any(norm(t) == "self.%s[%s]" % (table, var) for t in y.targets))]
                nodes_ = cu.containing(removes[0]) if removes else []
                if removes and nodes_ and (rem_p, True) in fu[nodes_[0].id]:
                    okp = True
        r.check(okp, "%s#full-refresh-prunes(%s)" % (ub.qname, table), "on a full refresh the node ids missing from the reply are not removed from `%s`" % table,
                where(ub, ub.node), "a decommissioned broker stays known: the next broker-agnostic request re-creates a client for it and dials its old address")
    lm = ctx.func(KC + ".load_metadata_for_topics")
    hresp = next((g for g in lm.nested.values() if calls_in(g, "_merge_topic_metadata")), None)
    okf = hresp is not None
    if okf:
        mc = calls_in(hresp, "_merge_topic_metadata")[0]
        flag = kwarg(mc, "fetched_all_topics", 2)
        assigned_inside = {n.id for x in ast.walk(hresp.node) for n in ([x] if isinstance(x, ast.Name) and isinstance(x.ctx, ast.Store) else [])}
        used = {n.id for n in ast.walk(flag) if isinstance(n, ast.Name)} if flag is not None else set()
        okf = flag is not None and not (used & assigned_inside)
        if okf and isinstance(flag, ast.Name):
            d = [x for x in walk_body_shallow(lm.body) if isinstance(x, ast.Assign) and unparse(x.targets[0]) == flag.id]
            va = lm.node.args.vararg.arg if lm.node.args.vararg else None
            # the caller's topic arguments, or a local holding one item per argument (their coerced forms): equally empty
            same_len = {va}
            for x in walk_body_shallow(lm.body):
                if isinstance(x, ast.Assign) and len(x.targets) == 1 and isinstance(x.targets[0], ast.Name):
                    v_ = x.value
                    if isinstance(v_, ast.Call) and call_name(v_) in ("tuple", "list") and len(v_.args) == 1:
                        v_ = v_.args[0]
                    if isinstance(v_, (ast.GeneratorExp, ast.ListComp)) and len(v_.generators) == 1 and not v_.generators[0].ifs and norm(
                            v_.generators[0].iter) in same_len:
                        if sum(1 for y in walk_body_shallow(lm.body) if isinstance(y, ast.Assign) and any(
                                isinstance(t_, ast.Name) and t_.id == x.targets[0].id for t_ in y.targets)) == 1:
                            same_len.add(x.targets[0].id)
            okf = len(d) == 1 and va is not None and any(norm(d[0].value) in (
                "not %s" % a_, "len(%s) == 0" % a_, "0 == len(%s)" % a_, "not len(%s)" % a_, "%s == ()" % a_, "len(%s) < 1" % a_) for a_ in same_len)
    if hresp is None:
        # the reply handler as a method of the class: what its closure form captured arrives through the registration's extra
        # arguments - the flag is the parameter bound to the expression given in load_metadata_for_topics
        for g_ in registrations(lm, prog):
            h_ = prog.resolve_callable(lm, g_["cb"]) if g_["cb"] is not None else None
            if h_ is None or h_.cls is not lm.cls or not calls_in(h_, "_merge_topic_metadata"):
                continue
            mc = calls_in(h_, "_merge_topic_metadata")[0]
            flag = kwarg(mc, "fetched_all_topics", 2)
            ps_ = [p_ for p_ in h_.params if p_ not in ("self", "cls")][1:]  # after the result parameter
            rebinds = {n.id for x in ast.walk(h_.node) for n in ([x] if isinstance(x, ast.Name) and isinstance(x.ctx, ast.Store) else [])}
            if isinstance(flag, ast.Name) and flag.id in ps_ and flag.id not in rebinds and ps_.index(flag.id) < len(g_["cb_args"]):
                given = g_["cb_args"][ps_.index(flag.id)]
                va = lm.node.args.vararg.arg if lm.node.args.vararg else None
                same_len = {va}
                for x in walk_body_shallow(lm.body):
                    if isinstance(x, ast.Assign) and len(x.targets) == 1 and isinstance(x.targets[0], ast.Name):
                        v_ = x.value
                        if isinstance(v_, ast.Call) and call_name(v_) in ("tuple", "list") and len(v_.args) == 1:
                            v_ = v_.args[0]
                        if isinstance(v_, (ast.GeneratorExp, ast.ListComp)) and len(v_.generators) == 1 and not v_.generators[0].ifs and norm(v_.generators[0].iter) in same_len:
                            if sum(1 for y in walk_body_shallow(lm.body) if isinstance(y, ast.Assign) and any(isinstance(t_, ast.Name) and t_.id == x.targets[0].id for t_ in y.targets)) == 1:
                                same_len.add(x.targets[0].id)
                gv = given
                if isinstance(gv, ast.Name):
                    dd = [x for x in walk_body_shallow(lm.body) if isinstance(x, ast.Assign) and unparse(x.targets[0]) == gv.id]
                    gv = dd[0].value if len(dd) == 1 else gv
                okf = va is not None and any(norm(gv) in ("not %s" % a_, "len(%s) == 0" % a_, "0 == len(%s)" % a_, "not len(%s)" % a_, "%s == ()" % a_, "len(%s) < 1" % a_)
                                             for a_ in same_len)
    r.check(okf, "%s#full-refresh-flag" % lm.qname, "the `all topics were fetched` flag is not computed from the caller's topic arguments "
            "(it reads a name re-bound inside the response handler)", where(lm, lm.node),
            "full refresh of a cluster with at least one topic: brokers missing from the reply are never closed")

    # ... and the third table that names brokers: a group whose cached coordinator is a broker just forgotten must look it up again
    # (the route would otherwise end in a KeyError on every request, and nothing else ever invalidates it) - either the
    # forgetting purges the coordinator cache, or the lookup validates what it finds against the known brokers
    GC = "_group_to_coordinator"
    purge = []
    for n in cu.nodes:
        hit = any(isinstance(y, ast.Delete) and any(isinstance(t, ast.Subscript) and norm(t.value) == "self." + GC for t in y.targets) for y in n.walk()) or any(
            (call_name(c) in ("pop", "clear") and call_recv(c) == "self." + GC) or (call_name(c) in ("reset_consumer_group_metadata", "reset_all_metadata") and call_recv(c) == "self")
            for c in n.calls()) or (n.kind == "stmt" and isinstance(n.stmt, ast.Assign) and any(norm(t) == "self." + GC for t in n.stmt.targets))
        if hit and (rem_p, True) in fu[n.id]:
            purge.append(n)
    gcf = ctx.func(KC + "._get_coordinator_for_group")
    validates = any(isinstance(y, ast.Compare) and any(isinstance(o, (ast.In, ast.NotIn)) for o in y.ops) and any(
        norm(c_) in ("self._brokers", "self.clients") for c_ in y.comparators) for y in ast.walk(gcf.node))
    r.check(bool(purge) or validates, "%s#full-refresh-prunes(%s)" % (ub.qname, GC), "on a full refresh a group whose cached coordinator is a broker "
            "missing from the reply keeps that route, and the coordinator lookup does not check it against the known brokers", where(ub, ub.node),
            "the coordinator's broker leaves the cluster: every later group request and offset commit fails with a bare KeyError, for ever")

    # ---- R3 invalidation table
    r = ctx.rule("R3", "stale-routing errors reset the matching cache before any re-raise; failed sends reset everything; "
                       "coordinator errors reset the group's coordinator", 5, "A")
    hr = ctx.func(KC + "._handle_responses")
    ch = ctx.cfg(hr)
    table = {("UnknownTopicOrPartitionError", "NotLeaderForPartitionError"): ("reset_topic_metadata", ".topic"),
             ("CoordinatorLoadInProgress", "NotCoordinator", "CoordinatorNotAvailable"): ("reset_consumer_group_metadata", "consumer_group")}
    from .c09 import exc_table
    anc_, _alias = exc_table(prog)
    tries = [x for x in walk_body_shallow(hr.body) if isinstance(x, ast.Try) and any(
        isinstance(c, ast.Call) and call_name(c) == "raise_for_errno" for b in x.body for c in ast.walk(b))]
    need(len(tries) == 1, "the try around raise_for_errno not found in _handle_responses")
    for classes, (meth, argend) in sorted(table.items()):
        for cls in classes:
            # the arm an error of this class takes: the handler that catches it, then - inside - the branches an
            # isinstance() dispatch on the caught exception selects for this class
            hn = handler_for(prog, ch, tries[0], cls, anc_)
            ok = hn is not None
            if ok:
                evar = hn.stmt.name

                def leaf(t, cls=cls, evar=evar):
                    cs_ = isinstance_classes(prog, hr, t, evar) if evar else None
                    if cs_ is None:
                        return None
                    return any(c in anc_.get(cls, {cls}) for c in cs_)

                def fe(test, p_, case_cls, anc, stopping, env=None):
                    return tri_eval(test, leaf, env)
                res = {n.id for n in ch.nodes if any(call_name(c) == meth and c.args and norm(c.args[0]).endswith(argend) for c in n.calls())}
                arm = ch.reach([hn.id])
                leave = {n.id for n in ch.nodes if n.id in arm and ((n.kind == "stmt" and isinstance(n.stmt, ast.Raise)) or any(
                    call_name(c) == "append" for c in n.calls()))} | {ch.exit.id}
                ok = bool(res) and not case_reach(ch, "", cls, anc_, False, leave, flag_eval=fe, start=[hn.id], avoid=res)
            r.check(ok, "%s#on(%s)->%s" % (hr.qname, cls, meth), "%s does not invalidate the cached routing (before re-raising)" % cls,
                    where(hr, hr.node), "the next request is routed to the same wrong broker, for ever")
    # ... and every response gets there: no way through the function that skips the classification of a response
    rp_ = hr.params[1] if len(hr.params) > 1 else "responses"
    lps = [n for n in ch.nodes if n.kind == "for" and norm(at(ctx, hr, n.id, n.stmt.iter)) == rp_]
    cls_nodes = [n.id for n in ch.nodes if any(call_name(c) == "raise_for_errno" for c in n.calls())]
    okc = len(lps) == 1 and bool(cls_nodes) and not ch.normal_exits_from(ch.entry.id, avoid=[lps[0].id])
    if okc:
        body0 = [t for t, lab in ch.succ[lps[0].id] if lab == ("iter", True)]
        okc = bool(body0) and body0[0] != lps[0].id and (body0[0] in cls_nodes or lps[0].id not in ch.reach(body0, avoid=cls_nodes, follow_exc=False))
    r.check(okc, "%s#every-response-classified" % hr.qname, "a path through the response handler returns without classifying every "
            "response by its error code", where(hr, hr.node), "a caller that neither wants errors raised nor results transformed (the "
            "producer) gets the responses back unexamined: a not-leader answer no longer invalidates the route, every later send goes "
            "to the old leader")
    sba = ctx.func(KC + "._send_broker_aware_request")
    cs = ctx.cfg(sba)
    rz = [n for n in cs.nodes if n.kind == "stmt" and isinstance(n.stmt, ast.Raise) and "FailedPayloadsError" in norm(n.stmt)]
    ra = [n.id for n in cs.nodes if any(call_name(c) == "reset_all_metadata" for c in n.calls())]
    r.check(len(rz) == 1 and bool(ra) and cs.dominates(ra, rz[0].id), "%s#failed-send-resets-all" % sba.qname,
            "a failed send does not invalidate the metadata cache", where(sba, sba.node), "requests keep going to a dead broker")
    rae = ctx.func("_group:Coordinator.rejoin_after_error")
    cr = ctx.cfg(rae)
    fr = ctx.facts(rae)
    p = rae.first_param()
    rs = [n for n in cr.nodes if any(call_name(c) == "reset_consumer_group_metadata" for c in n.calls())]
    cov = set()
    for n in rs:
        for t, pol in fr[n.id]:
            if pol and t.startswith("%s.check(" % p):
                cov |= {x.strip() for x in t[len(p) + 7:-1].split(",")}
    r.check({"CoordinatorNotAvailable", "NotCoordinatorForConsumerError", "RequestTimedOutError"} <= cov, "%s#coordinator-reset" % rae.qname,
            "group coordinator errors / time-outs do not reset the cached coordinator (covered: %s)" % sorted(cov), where(rae, rae.node),
            "member keeps talking to the old coordinator after it moved")

    # ---- R4 producer / leader-lookup refresh
    r = ctx.rule("R4", "producer resets topic metadata for stale-routing failures before retrying; leader lookup reloads when unknown", 2, "B")
    crp = producer_roles(ctx)["check_retry"]
    need(crp is not None, "the producer's retry decision not found")
    rt = [c for c in calls_in(crp, "reset_topic_metadata")]
    # the topics to invalidate: collected from the failed payloads whose error is one of the two stale-routing classes
    adds = []
    for nm_, elt, src_, tgt_, conds in filtered_collects(crp):
        if not (norm(elt).endswith(".topic") and isinstance(tgt_, ast.Tuple) and len(tgt_.elts) == 2 and len(conds) == 1):
            continue
        cl_ = isinstance_classes(prog, crp, conds[0], unparse(tgt_.elts[1]))
        if cl_ == {"NotLeaderForPartitionError", "UnknownTopicOrPartitionError"} and norm(elt) == "%s.topic" % unparse(tgt_.elts[0]):
            adds.append(nm_)
    ok = len(rt) == 1 and len(adds) == 1 and norm(rt[0].args[0]) == "*" + adds[0]
    r.check(ok, "%s#reset-before-retry" % crp.qname, "producer retry does not invalidate the topics whose partitions reported a stale leader",
            where(crp, crp.node), "every retry goes to the old leader until attempts run out")
    # a send that fails as a whole with any Kafka error (cluster still down after the reload, leader/partition unavailable,
    # time-out) goes to the retry path, not to the fail-everything arm: that is what lets producing resume within the budget
    from .c09 import exc_table
    anc_, _alias = exc_table(prog)
    hsr = ctx.func("producer:Producer._handle_send_response")
    chs = ctx.cfg(hsr)
    pr_ = hsr.first_param()
    ist = [n for n in chs.nodes if n.kind == "test" and norm(n.stmt.test) == "isinstance(%s, Failure)" % pr_]
    dlv_ = producer_roles(ctx)["deliver"]
    fail_all = {n.id for n in chs.nodes if any(dlv_ is not None and prog.resolve_call(hsr, c) is dlv_ and c.args and isinstance(c.args[0], ast.Call) and
                                                call_name(c.args[0]) == "values" for c in n.calls())}
    if ist and fail_all:
        start_ = [t for t, lab in chs.succ[ist[0].id] if lab and lab[0] == "cond" and lab[2]]
        for cls_ in ("KafkaUnavailableError", "LeaderUnavailableError", "PartitionUnavailableError", "RequestTimedOutError", "KafkaError"):
            if cls_ not in anc_:
                continue
            bad_ = case_reach(chs, pr_, cls_, anc_, False, fail_all, start=start_)
            r.check(not bad_, "%s#total-failure-retried[%s]" % (hsr.qname, cls_),
                    "a produce attempt failing as a whole with %s is failed outright instead of being retried" % cls_, where(hsr, ist[0].stmt),
                    "single-broker restart: the retry's metadata reload finds the cluster still down (KafkaUnavailableError): the message "
                    "fails after 2 of 10 attempts although the broker is back moments later")
    else:
        r.fail("%s#total-failure-retried" % hsr.qname, "total-failure classification not found in the response handler", where(hsr, hsr.node))
    glp = ctx.func(KC + "._get_leader_for_partition")
    cg = ctx.cfg(glp)
    fg = ctx.facts(glp, kill_on_suspend=False)
    ld = [n for n in cg.nodes if any(call_name(c) == "load_metadata_for_topics" for c in n.calls())]
    ok = len(ld) == 1 and any(t.startswith("self.topics_to_brokers.get(") and t.endswith(") is None") and pol for t, pol in fg[ld[0].id])
    r.check(ok, "%s#reload-when-unknown" % glp.qname, "leader lookup does not reload metadata when the cached leader is missing or None",
            where(glp, glp.node), "after an invalidation the partition stays unroutable")

    # ---- R5 next-connect address
    r = ctx.rule("R5", "the endpoint is built from host/port read at connect time; updateMetadata checks the node id first", 3, "A")
    conn = ctx.func("brokerclient:_KafkaBrokerClient._connect")
    # the function that builds the endpoint: it has to be one of the closures run per attempt (not _connect's own body,
    # which runs once while retries happen later)
    def _factory_calls(g):  # calls of the endpoint factory, also through a local bound to it
        return [c for c in calls_in(g) if norm(callee_expr(c)) == "self._endpointFactory"]
    cns = [g for g in conn.nested.values() if _factory_calls(g)]
    cn = cns[0] if len(cns) == 1 and not _factory_calls(conn) else None
    ef = [c for c in (_factory_calls(cn) if cn else [])]
    r.check(cn is not None and len(ef) == 1 and [norm(a) for a in ef[0].args[1:3]] == ["self.host", "self.port"], "%s#address-at-connect-time" % conn.qname,
            "the endpoint address is captured before the connect attempt (stale after updateMetadata)", where(conn, conn.node),
            "broker restarted on a new address is never reached")
    um = ctx.func("brokerclient:_KafkaBrokerClient.updateMetadata")
    cm = ctx.cfg(um)
    fm = ctx.facts(um)
    ws = [n for n in cm.nodes if node_assign_value(n, "host") is not None or node_assign_value(n, "port") is not None]
    p1 = um.params[1]
    tests = [n for n in cm.nodes if n.kind == "test" and norm(at(ctx, um, n.id, n.stmt.test)) in ("self.node_id != %s.node_id" % p1, "%s.node_id != self.node_id" % p1)]
    guarded = bool(tests) and all(cm.dominates([tests[0].id], n.id) for n in ws) and not any(
        n.id in cm.reach([t for t, lab in cm.succ[tests[0].id] if lab and lab[0] == "cond" and lab[2]]) for n in ws)
    r.check(len(ws) == 2 and guarded and
            {"%s<-%s" % (a, norm(at(ctx, um, n.id, node_assign_value(n, a)))) for n in ws for a in ("host", "port") if node_assign_value(n, a) is not None} == {
                "host<-%s.host" % p1, "port<-%s.port" % p1},
            "%s#checked-update" % um.qname, "host/port are not taken from the new entry after checking its node id", where(um, um.node))

    # every broker entry a response names is applied to the address book and to the broker client that exists for that
    # node, whatever the client knew before: where a routing table receives a broker entry taken from a response, the
    # same entry is handed to _update_brokers, and that hand-over depends on nothing but the response
    ci = prog.cls(KC)
    ub = ctx.func(KC + "._update_brokers")
    n_sites = 0
    for f in sorted([x for x in prog.funcs.values() if x.cls is ci], key=lambda x: x.qname):
        cf_ = ctx.cfg(f)
        for n in cf_.nodes:
            st = n.stmt
            if not (n.kind == "stmt" and isinstance(st, ast.Assign) and len(st.targets) == 1 and isinstance(st.targets[0], ast.Subscript)
                    and self_attr(st.targets[0].value) == "_group_to_coordinator"):
                continue
            if isinstance(st.value, ast.Constant) and st.value.value is None:
                continue
            n_sites += 1
            upd = [m for m in cf_.nodes if any(prog.resolve_call(f, c) is ub for c in m.calls())]
            always = bool(upd) and (cf_.dominates([m.id for m in upd], n.id) or not cf_.normal_exits_from(n.id, avoid=[m.id for m in upd]))
            foreign = []
            for m in upd:
                for t, lab in cf_.control_deps_transitive(m.id):
                    if t.kind == "test" and any(c_.startswith("self.") for c_ in chains_in(at(ctx, f, t.id, t.stmt.test))):
                        foreign.append(norm(t.stmt.test))
            r.check(always and not foreign, "%s#coordinator-address-applied" % f.qname,
                    "the coordinator a response names is recorded as the group's route, but its address is not handed to _update_brokers "
                    "on every path%s" % (" (only when %s)" % sorted(set(foreign)) if foreign else ""), where(f, st),
                    "the coordinator moved to a new address under a known node id: the route names the new address, the broker client "
                    "that is dialled keeps the old one - commits and group requests go to the wrong host")
    need(n_sites >= 1, "store of the group coordinator not found")


MUTANTS = [
    {"id": "coordinator-route-survives-its-broker", "file": "client.py",
     "old": "            for group, coordinator in list(self._group_to_coordinator.items()):\n                if coordinator is not None and coordinator.node_id not in self._brokers:\n                    del self._group_to_coordinator[group]\n",
     "new": "", "expect": "C08.R2", "note": "finding F47"},
    {"id": "coordinator-routes-pruned-on-any-reply", "file": "client.py",
     "edits": [("client.py", "            for group, coordinator in list(self._group_to_coordinator.items()):\n                if coordinator is not None and coordinator.node_id not in self._brokers:\n                    del self._group_to_coordinator[group]\n", ""),
               ("client.py", "        # Forget brokers which no longer exist, and remove their clients.\n        if remove:\n",
                "        if not remove:\n            self._group_to_coordinator.clear()\n        # Forget brokers which no longer exist, and remove their clients.\n        if remove:\n")],
     "expect": "C08.R2", "note": "purged on the partial refresh instead of the full one"},
    {"id": "leader-lookup-unguarded", "file": "client.py",
     "old": "                if meta.leader == -1 or meta.leader not in brokers:", "new": "                if meta.leader == -1:",
     "expect": "C08.R1", "note": "finding F37"},

    {"id": "partition-meta-survives-topic-reset", "file": "client.py", "old": "                    self.partition_meta.pop(TopicAndPartition(topic, partition), None)\n", "new": "",
     "expect": "C08.R1", "note": "finding F24"},
    {"id": "no-per-topic-reset", "file": "client.py", "old": "            self.reset_topic_metadata(topic)\n            self.topic_errors[topic] = topic_error",
     "new": "            self.topic_errors[topic] = topic_error", "expect": "C08.R1"},
    {"id": "reset-all-on-merge", "file": "client.py", "old": "            self.reset_topic_metadata(topic)\n            self.topic_errors[topic] = topic_error",
     "new": "            self.reset_all_metadata()\n            self.topic_errors[topic] = topic_error", "expect": "C08.R1"},
    {"id": "leaderless-keeps-broker", "file": "client.py", "old": "                    self.topics_to_brokers[topic_part] = None",
     "new": "                    self.topics_to_brokers[topic_part] = brokers.get(meta.leader)", "expect": "C08.R1"},
    {"id": "partitions-unsorted", "file": "client.py", "old": "            self.topic_partitions[topic].sort()\n", "new": "", "expect": "C08.R1"},
    {"id": "prune-on-partial", "file": "client.py", "old": "        if remove:\n            for node_id in set(self._brokers)", "new": "        if True:\n            for node_id in set(self._brokers)", "expect": "C08.R2"},
    {"id": "broker-table-only-grows", "file": "client.py", "old": "            for node_id in set(self._brokers) - set(brokers_by_id):\n                del self._brokers[node_id]\n", "new": "", "expect": "C08.R2", "note": "finding F20"},
    {"id": "remove-flag-always", "file": "client.py", "old": "ok_to_remove = fetched_all_topics and len(brokers)", "new": "ok_to_remove = len(brokers)",
     "expect": "C08.R2"},
    {"id": "update-skipped-when-cache-equal", "file": "client.py", "old": "            if node_id not in self.clients:\n                continue\n            self.clients[node_id].updateMetadata(broker_meta)",
     "new": "            if node_id not in self.clients or self._brokers[node_id] == broker_meta:\n                continue\n            self.clients[node_id].updateMetadata(broker_meta)",
     "expect": "C08.R2", "note": "seeded C07-3 / C08-5"},
    {"id": "full-refresh-flag-rebound", "file": "client.py",
     "old": "            self._merge_topic_metadata(brokers, topics, fetch_all_metadata)\n            return True",
     "new": "            self._merge_topic_metadata(brokers, topics, fetched_all_topics=not topics)\n            return True", "expect": "C08.R2", "note": "seeded C08-4"},
    {"id": "notleader-no-reset", "file": "client.py", "old": "                self.reset_topic_metadata(resp.topic)\n                if fail_on_error:",
     "new": "                if fail_on_error:", "expect": "C08.R3"},
    {"id": "notleader-reset-after-raise", "file": "client.py",
     "old": "                self.reset_topic_metadata(resp.topic)\n                if fail_on_error:\n                    raise\n",
     "new": "                if fail_on_error:\n                    raise\n                self.reset_topic_metadata(resp.topic)\n", "expect": "C08.R3"},
    {"id": "failed-send-no-reset", "file": "client.py", "old": "            self.reset_all_metadata()\n            raise FailedPayloadsError",
     "new": "            raise FailedPayloadsError", "expect": "C08.R3"},
    {"id": "coordinator-moved-no-reset", "file": "_group.py",
     "old": "            log.info(\"%s %s: group coordinator is invalid, rejoining\", self, label)\n            self.client.reset_consumer_group_metadata(self.group_id)\n",
     "new": "            log.info(\"%s %s: group coordinator is invalid, rejoining\", self, label)\n", "expect": "C08.R3"},
    {"id": "producer-no-reset", "file": "producer.py", "old": "            if reset_topics:\n                self.client.reset_topic_metadata(*reset_topics)\n", "new": "",
     "expect": "C08.R4"},
    {"id": "leader-none-not-reloaded", "file": "client.py", "old": "        if self.topics_to_brokers.get(key) is None:", "new": "        if key not in self.topics_to_brokers:",
     "expect": "C08.R4"},
    {"id": "address-captured-early", "file": "brokerclient.py",
     "old": "        def connect():\n            endpoint = self._endpointFactory(self._reactor, self.host, self.port)",
     "new": "        host, port = self.host, self.port\n\n        def connect():\n            endpoint = self._endpointFactory(self._reactor, host, port)", "expect": "C08.R5"},
]
TWINS = [
    {"id": "coordinator-routes-filtered", "file": "client.py",
     "old": "            for group, coordinator in list(self._group_to_coordinator.items()):\n                if coordinator is not None and coordinator.node_id not in self._brokers:\n                    del self._group_to_coordinator[group]\n",
     "new": "            self._group_to_coordinator = {\n                g: c for g, c in self._group_to_coordinator.items() if c is None or c.node_id in self._brokers\n            }\n",
     "note": "the cache rebuilt by a comprehension"},
    {"id": "merge-uses-local-list", "file": "client.py",
     "old": "            self.topic_partitions[topic] = []\n            for partition, meta in partitions.items():\n                self.topic_partitions[topic].append(partition)",
     "new": "            self.topic_partitions[topic] = []\n            for partition, meta in sorted(partitions.items()):\n                self.topic_partitions[topic].append(partition)"},
    {"id": "reset-both-stale-classes-separately", "file": "client.py",
     "old": "            except (UnknownTopicOrPartitionError, NotLeaderForPartitionError):\n                log.warning(\n                    \"Clearing cached metadata for topic %r due to error=%s in %r\",\n                    resp.topic,\n                    _pretty_errno(resp.error),\n                    resp,\n                )\n                self.reset_topic_metadata(resp.topic)\n                if fail_on_error:\n                    raise",
     "new": "            except UnknownTopicOrPartitionError:\n                self.reset_topic_metadata(resp.topic)\n                if fail_on_error:\n                    raise\n            except NotLeaderForPartitionError:\n                self.reset_topic_metadata(resp.topic)\n                if fail_on_error:\n                    raise"},
]

"""C09 - per-partition send order is preserved and retries are disciplined.

Decided: single batch in flight (typestate on _batch_send_d), order-preserving
containers from the queue to the message set, retry of exactly the failed
payloads, per-partition outcomes reaching the producer (no exception escaping
KafkaClient._handle_responses unless fail_on_error), attempts incremented with
every send and bounded before a retry is scheduled, geometric back-off reset
on completion.  Not decided: arrival order at the broker (C10).
"""
import ast

from ..cfg import cond_atoms, known_falsy, known_truthy
from ..model import self_attr, unparse, walk_body_shallow
from .util import *  # noqa: F401,F403
from .util import (names_in, call_name, call_recv, calls_in, kwarg, need, node_assign_value, node_writes_attr, norm,
                   registrations, where)

TECHNIQUE = "typestate on the batch handle, order-taint of containers, exception-escape vs fail_on_error, paired " \
            "attempt accounting, symbolic back-off kernel"
EXPLANATION = (
    "Rules over afkak/producer.py, afkak/client.py (_handle_responses) and afkak/kafkacodec.py (create_message_set): "
    "must-hold guard facts for the assignment of _batch_send_d, registration order of the completion stages, "
    "order-taint (no set/sorted/reversed/shuffle between queue and message set), exactly-one append per request, "
    "retry payload list = failed list, exception classes escaping _handle_responses compared with the handler cover "
    "computed from the class table of common.py, attempt increment paired with every produce send, limit test "
    "dominating the retry timer, multiplicative back-off with a constant > 1 and unconditional reset."
    ' Also: once the produce request was made the send stage returns its Deferred on every path (R1).'
    " The attempt counter only grows between two completions; every function that lets the interval grow waits the current interval first; every payload is marked failed only on a path a FailedPayloadsError cannot take (case analysis by failure class)."
)
SHARED = [('C01', ['R4'], 'with acknowledgements disabled exactly the payloads handed to their broker are reported done: a failed one is not reported and then re-sent'), ('C07', ['R3', 'R5'], 'failed payloads are attributed to the right request'), ('C06', ['R5'], 'a produce attempt that timed out is not written later alongside its retry')]
ASSUMPTIONS = [
    "Python list/dict(defaultdict)/zip preserve insertion order (language guarantee >= 3.7)",
    "Twisted fires chain stages in registration order",
]

PROD = "producer:Producer"
ORDER_BREAKERS = {"sorted", "reversed", "set", "frozenset", "shuffle", "sample"}


def exc_table(prog):
    """class name -> set of ancestor names (within common.py), aliases resolved."""
    m = prog.module("common")
    parents = {}
    for c in m.classes.values():
        parents[c.name] = [b.split(".")[-1] for b in c.base_names]
    alias = {k: v.id for k, v in m.constants.items() if isinstance(v, ast.Name) and v.id in parents}

    def ancestors(n):
        out, stack = set(), [n]
        while stack:
            x = stack.pop()
            x = alias.get(x, x)
            if x in out:
                continue
            out.add(x)
            stack.extend(parents.get(x, []))
        return out

    return {n: ancestors(n) for n in list(parents) + list(alias)}, alias


def run(ctx):
    prog = ctx.prog
    ci = prog.cls(PROD)
    sb = ctx.func(PROD + "._send_batch")
    sreq = ctx.func(PROD + "._send_requests")
    hsr = ctx.func(PROD + "._handle_send_response")
    cbs = ctx.func(PROD + "._complete_batch_send")
    chk = ctx.func(PROD + "._check_send_batch")

    # ---- R1 single batch in flight
    r = ctx.rule("R1", "a batch is started only when none is in flight and the queue is non-empty; the handle is "
                       "cleared by an on-both stage followed by a queue re-check", 5, "B+C")
    for f, kind, node in prog.attr_accesses(ci, "_batch_send_d", False):
        if kind != "write" or f.name == "__init__":
            continue
        cf = ctx.cfg(f)
        n = cf.node_of(node)
        v = node_assign_value(n, "_batch_send_d")
        if v is None or (isinstance(v, ast.Constant) and v.value is None):
            r.check(f.qname == cbs.qname, "%s#clear(_batch_send_d)" % f.qname,
                    "_batch_send_d cleared outside the completion stage", where(f, node),
                    "a second batch overtakes the unresolved one")
            continue
        facts = ctx.facts(f)[n.id]
        allf = ctx.facts(f)
        swaps = [m for m in cf.nodes if node_assign_value(m, "_batch_reqs") is not None and cf.dominates([m.id], n.id)]
        nonempty = known_truthy(facts, "self._batch_reqs") or any(
            known_truthy(allf[m.id], "self._batch_reqs") for m in swaps)
        ok = known_falsy(facts, "self._batch_send_d") and nonempty
        r.check(ok, "%s#start(_batch_send_d)" % f.qname,
                "a new batch is started without `_batch_send_d` falsy and a non-empty queue being established",
                where(f, node), "later batch dispatched while an earlier one is unresolved: per-partition order lost",
                facts=sorted(t for t, p in facts if "_batch" in t))
    regs = [g for g in registrations(sb, prog)]
    names = [(g["kind"], unparse(g["cb"]) if g["cb"] is not None else None) for g in regs]
    idx_send = [i for i, (k, nme) in enumerate(names) if nme == "self." + sreq.name]
    idx_done = [i for i, (k, nme) in enumerate(names) if nme == "self." + cbs.name]
    idx_chk = [i for i, (k, nme) in enumerate(names) if nme == "self." + chk.name]
    ok = (len(idx_send) == 1 and len(idx_done) == 1 and idx_done[0] > idx_send[0]
          and names[idx_done[0]][0] == "both" and regs[idx_done[0]]["root"] == regs[idx_send[0]]["root"])
    r.check(ok, "%s#completion-stage" % sb.qname,
            "the stage clearing _batch_send_d is not an on-both stage registered after the send stage: %s" % names,
            where(sb, regs[0]["call"] if regs else None), "a failed batch leaves the handle set for ever, or the "
            "handle is cleared before the batch resolved", facts=["%s:%s" % x for x in names])
    ok = bool(idx_chk) and bool(idx_done) and idx_chk[0] > idx_done[0] and names[idx_chk[0]][0] == "both"
    r.check(ok, "%s#recheck-stage" % sb.qname,
            "no on-both queue re-check registered after the completion stage", where(sb, sb.node),
            "sends queued during a batch wait for the next tick or for ever")
    # the completion stage clears the handle on every path
    cc = ctx.cfg(cbs)
    clr = [n.id for n in cc.nodes if node_writes_attr(n, "_batch_send_d")]
    r.check(bool(clr) and not cc.normal_exits_from(cc.entry.id, avoid=clr), "%s#clears-on-all-paths" % cbs.qname,
            "completion stage can return without clearing _batch_send_d", where(cbs, cbs.node))

    # the send stage hands the chain of the produce request on: the completion stage then runs when the request (and
    # its response handling, retries included) has resolved, not when the send stage returns
    cs_ = ctx.cfg(sreq)
    sends_ = [n for n in cs_.nodes if any(call_name(c) == "send_produce_request" for c in n.calls())]
    rets_ = [n for n in cs_.nodes if n.kind == "stmt" and isinstance(n.stmt, ast.Return) and sends_ and n.id in cs_.reach([x.id for x in sends_])]
    bad_ = []
    for n in rets_:
        og_ = deferred_origins(cs_, n.id, n.stmt.value) if n.stmt.value is not None else None
        if not og_ or not all(isinstance(e_, ast.Call) and call_name(e_) == "send_produce_request" for e_ in og_):
            bad_.append(n)
    r.check(bool(sends_) and bool(rets_) and not bad_, "%s#request-deferred-returned" % sreq.qname,
            "after the produce request was made the send stage returns something else than that request's Deferred (line %s)"
            % ", ".join(str(n.lineno) for n in bad_), where(sreq, bad_[0].stmt if bad_ else sreq.node),
            "the in-flight handle is cleared while the request is still pending or waiting to be retried: the next batch overtakes it")

    # ---- R2 order kept
    r = ctx.rule("R2", "queue order is kept from the queue to the message set; each request lands in one payload", 5,
                 "A")
    cms = ctx.func("kafkacodec:create_message_set")
    for f in (sb, sreq, cms):
        bad = [c for c in [x for x in walk_body_shallow(f.body) if isinstance(x, ast.Call)]
               if call_name(c) in ORDER_BREAKERS]
        r.check(not bad, "%s#order-breakers" % f.qname,
                "order-destroying operation applied between the queue and the message set: %s" % [norm(b) for b in bad],
                where(f, bad[0] if bad else f.node), "messages of one partition reach the broker out of order")
    # _send_batch: loop over the swapped-out list, which is the list handed to the send stage
    csb = ctx.cfg(sb)
    fsb = ctx.facts(sb)
    swap = [n for n in csb.nodes if node_assign_value(n, "_batch_reqs") is not None]
    need(swap, "no swap-out of _batch_reqs in _send_batch")
    st = swap[0].stmt
    local = None
    if isinstance(st.targets[0], ast.Tuple):
        for t, v in zip(st.targets[0].elts, st.value.elts):
            if unparse(v) == "self._batch_reqs" and isinstance(t, ast.Name):
                local = t.id
    else:
        # read into a local, then cleared: the definition fact of the local still holds on entry to the clearing node
        from ..cfg import def_facts
        for nm, e in def_facts(fsb[swap[0].id]).items():
            if unparse(e) == "self._batch_reqs":
                local = nm
    # ... or a copy of it under another name (`requests = taken`), both bound once
    locals_ = {local} if local else set()
    for _ in range(2):
        for x in walk_body_shallow(sb.body):
            if isinstance(x, ast.Assign) and len(x.targets) == 1 and isinstance(x.targets[0], ast.Name) and isinstance(x.value, ast.Name) and x.value.id in locals_:
                if sum(1 for y in walk_body_shallow(sb.body) if isinstance(y, ast.Name) and isinstance(y.ctx, ast.Store) and y.id in (x.targets[0].id, x.value.id)) == 2:
                    locals_.add(x.targets[0].id)
    # every partition lookup is made while iterating that local, in order: a `for` over it or a comprehension over it
    lookups = [c for c in ast.walk(sb.node) if isinstance(c, ast.Call) and call_name(c) == "_next_partition"]
    parents = {}
    for p_ in ast.walk(sb.node):
        for ch in ast.iter_child_nodes(p_):
            parents[ch] = p_
    loops = []
    for c in lookups:
        x = c
        holder = None
        while x in parents and holder is None:
            x = parents[x]
            if isinstance(x, ast.For) and unparse(x.iter) in locals_ and not any(isinstance(y, (ast.Break, ast.Continue)) for y in ast.walk(x)):
                holder = x
            elif isinstance(x, (ast.ListComp, ast.GeneratorExp)) and len(x.generators) == 1 and not x.generators[0].ifs and unparse(
                    x.generators[0].iter) in locals_:
                holder = x
        tv = holder.target if isinstance(holder, ast.For) else (holder.generators[0].target if holder is not None else None)
        if holder is not None and isinstance(tv, ast.Name) and [unparse(a) for a in c.args] == ["%s.topic" % tv.id, "%s.key" % tv.id]:
            loops.append(holder)
    if len(lookups) != 1:
        loops = []
    arg_ok = bool(idx_send) and len(regs[idx_send[0]]["call"].args) >= 2 and unparse(
        regs[idx_send[0]]["call"].args[1]) in locals_
    r.check(local is not None and len(loops) == 1 and arg_ok, "%s#lookup-order" % sb.qname,
            "partition lookups are not built by iterating the swapped-out queue that is handed to the send stage",
            where(sb, st), facts=["local=%s" % local])
    # _send_requests: zip of its two parameters, exactly one append per path through the body
    cf = ctx.cfg(sreq)
    zl = [n for n in cf.nodes if n.kind == "for" and isinstance(n.stmt.iter, ast.Call) and unparse(
        n.stmt.iter.func) == "zip" and [unparse(a) for a in n.stmt.iter.args] == sreq.params[1:3]]
    need(len(zl) == 1, "zip loop over (%s) not found in _send_requests" % sreq.params[1:3])
    zn = zl[0]
    body_entry = [s for s, lab in cf.succ[zn.id] if lab == ("iter", True)]
    app = [n for n in cf.nodes if any(call_name(c) == "append" and "reqsByTopicPart" in (call_recv(c) or "")
                                      for c in n.calls())]
    once = len(app) == 1 and zn.id not in cf.reach([app[0].id], avoid=[zn.id]) - {zn.id} and all(
        call_name(c) != "append" or "reqsByTopicPart" not in (call_recv(c) or "")
        for n in [cf.nodes[i] for i in cf.reach([app[0].id], avoid=[zn.id])] for c in n.calls())
    r.check(once, "%s#one-append-per-request" % sreq.qname,
            "a request can be appended to more than one payload (or none is found)", where(sreq, zn.stmt),
            "a message appears in two payloads of one attempt")
    # every message set is built from the request list of ITS topic/partition (the value of the grouping table's item),
    # in every arm that builds one
    cms_calls = [(lp, c) for lp in [x for x in ast.walk(sreq.node) if isinstance(x, ast.For) and isinstance(x.target, ast.Tuple) and len(x.target.elts) == 2
                                    and norm(x.iter).endswith(".items()")] for c in ast.walk(lp) if isinstance(c, ast.Call) and call_name(c) == "create_message_set"]
    all_cms = [c for c in ast.walk(sreq.node) if isinstance(c, ast.Call) and call_name(c) == "create_message_set"]
    r.check(bool(all_cms) and len(cms_calls) == len(all_cms) and all(c.args and norm(c.args[0]) == unparse(lp.target.elts[1]) for lp, c in cms_calls),
            "%s#message-set-of-own-partition" % sreq.qname, "a message set is built from something other than the requests grouped under its own "
            "topic/partition: %s" % [norm(c.args[0]) if c.args else "?" for c in all_cms], where(sreq, all_cms[0] if all_cms else sreq.node),
            "a batch spanning two partitions: every payload carries all messages of the batch, each message appears in several payloads")
    # create_message_set: iterate param 0, extend in order
    fors = [x for x in cms.body if isinstance(x, ast.For)]
    good = len(fors) == 1 and unparse(fors[0].iter) == cms.params[0] and isinstance(fors[0].target, ast.Name)
    exts = []
    if good:
        outer = fors[0]
        inner_iter = "%s.messages" % outer.target.id
        # the accumulator: the list every mutation inside the loop goes to
        muts = [c for c in ast.walk(outer) if isinstance(c, ast.Call) and isinstance(c.func, ast.Attribute) and isinstance(
            c.func.value, ast.Name) and c.func.attr in ("append", "extend", "insert", "sort", "reverse", "pop", "remove", "clear")]
        accs = {c.func.value.id for c in muts}
        good = len(accs) == 1
        parents = {}
        for p_ in ast.walk(outer):
            for ch in ast.iter_child_nodes(p_):
                parents[ch] = p_
        for c in muts:
            if c.func.attr == "extend":
                a = c.args[0]
                if not (isinstance(a, (ast.ListComp, ast.GeneratorExp)) and len(a.generators) == 1 and not a.generators[0].ifs and
                        unparse(a.generators[0].iter) == inner_iter and names_in(a.elt) & names_in(a.generators[0].target)):
                    good = False
                exts.append(c)
            elif c.func.attr == "append":
                # for v in <request>.messages: acc.append(f(v))  -- the inner loop directly holds the append
                st = parents.get(c)
                lp = parents.get(st) if isinstance(st, ast.Expr) else None
                if not (isinstance(lp, ast.For) and lp is not outer and unparse(lp.iter) == inner_iter and st in lp.body and not lp.orelse and
                        names_in(c.args[0]) & names_in(lp.target) and not any(isinstance(x, (ast.Break, ast.Continue)) for x in ast.walk(lp))):
                    good = False
                exts.append(c)
            else:
                good = False
    if not fors:
        # flattened form: acc = [f(m, r) for r in <requests> for m in r.messages] - request by request, message by message
        for x in cms.body:
            if isinstance(x, ast.Assign) and isinstance(x.value, ast.ListComp) and len(x.value.generators) == 2:
                g0, g1 = x.value.generators
                if not g0.ifs and not g1.ifs and unparse(g0.iter) == cms.params[0] and isinstance(g0.target, ast.Name) and \
                        unparse(g1.iter) == "%s.messages" % g0.target.id and names_in(x.value.elt) & names_in(g1.target):
                    good, exts = True, [x]
    r.check(good and exts, "%s#extend-in-order" % cms.qname,
            "message list is not built by extending, request by request, with each request's messages in order",
            where(cms, cms.node))

    # ---- R3 retry only what failed
    r = ctx.rule("R3", "the retry sender receives exactly the failed payloads", 2, "A+C")
    crp = producer_roles(ctx)["check_retry"]
    dor = producer_roles(ctx)["do_retry"]
    need(crp and dor, "nested retry helpers missing")
    sends = [c for c in calls_in(dor, "send_produce_request")]
    r.check(len(sends) == 1 and sends[0].args and unparse(sends[0].args[0]) == dor.first_param(),
            "%s#resend-arg" % dor.qname, "retry does not send exactly the payload list it was handed",
            where(dor, dor.node), "acknowledged payloads are re-sent (duplicates) or failed ones are dropped")
    # a retry that fails as a whole must be retried with the payloads of *that attempt*: the handler registered on
    # the retry's Deferred gets its payload table from the retried list, not the original batch's table
    total_arm = [x for x in ast.walk(hsr.node) if isinstance(x, ast.ListComp) and isinstance(x.generators[0].iter, ast.Call) and
                 call_name(x.generators[0].iter) == "values"]
    # the payload table is the handler's first extra parameter (the one the registration's first extra argument binds)
    tbl = hsr.params[2] if len(hsr.params) > 2 else (unparse(total_arm[0].generators[0].iter.func.value) if total_arm else None)
    rreg = [g for g in registrations(dor, prog) if g["cb"] is not None and unparse(g["cb"]) == "self." + hsr.name]
    okr = bool(rreg) and tbl is not None
    if okr:
        a = rreg[0]["cb_args"][0] if rreg[0]["cb_args"] else None
        same_eb = not rreg[0]["eb_args"] or unparse(rreg[0]["eb_args"][0]) == unparse(a) if a is not None else False
        p0 = dor.first_param()
        if a is not None and isinstance(a, ast.Name):
            # every way the table gets content mentions the retried list: a definition built from it, or entries stored
            # under a condition on it (an empty literal is just the start of such a loop)
            cdo = ctx.cfg(dor)
            srcs, stores = [], []
            for n_ in cdo.nodes:
                st_ = n_.stmt
                if n_.kind == "stmt" and isinstance(st_, ast.Assign):
                    for t in st_.targets:
                        if isinstance(t, ast.Name) and t.id == a.id:
                            srcs.append(st_.value)
                        elif isinstance(t, ast.Subscript) and isinstance(t.value, ast.Name) and t.value.id == a.id:
                            stores.append(n_)
            nonempty = [s_ for s_ in srcs if not (isinstance(s_, ast.Dict) and not s_.keys) and not (isinstance(s_, ast.Call) and call_name(s_) == "dict" and not s_.args)]
            okr = same_eb and bool(srcs) and all(p0 in names_in(s_) for s_ in nonempty) and all(
                any(t.kind == "test" and p0 in names_in(t.stmt.test) for t, lab in cdo.control_deps_transitive(n_.id)) for n_ in stores) and (
                bool(nonempty) or bool(stores))
        else:
            okr = a is not None and same_eb and p0 in names_in(a)
    r.check(okr, "%s#retry-table-of-this-attempt" % dor.qname,
            "the response handler of a retry is given the payload table of the original batch (`%s`): if the retry fails as a whole, "
            "every payload of the batch is retried, including those already acknowledged" % tbl, where(dor, dor.node),
            "attempt 1: partition A acknowledged, B fails; retry of B fails with a client-side KafkaError; attempt 3 re-sends A: duplicates")
    # "everything failed" is concluded only from a failure that carries no per-payload outcome: a FailedPayloadsError - with
    # however few responses (acks=0: none at all) - names the payloads that failed; the others were handed to their brokers
    ch3 = ctx.cfg(hsr)
    anc3, _al3 = exc_table(prog)
    pr3 = hsr.first_param()
    ist3 = [n for n in ch3.nodes if n.kind == "test" and norm(n.stmt.test) == "isinstance(%s, Failure)" % pr3]
    tn3 = {n.id for x in total_arm for n in ch3.containing(x)}
    if ist3 and tn3 and "FailedPayloadsError" in anc3:
        st3 = [t for t, lab in ch3.succ[ist3[0].id] if lab and lab[0] == "cond" and lab[2]]
        bad3 = case_reach(ch3, pr3, "FailedPayloadsError", anc3, False, tn3, start=st3)
        r.check(not bad3, "%s#all-failed-only-without-per-payload-outcome" % hsr.qname, "every payload of the attempt is marked failed on a path a "
                "FailedPayloadsError (which says which payloads failed) can take", where(hsr, total_arm[0]),
                "acks=0, two brokers, one fails: the payloads already handed to the healthy broker are not reported at once and are sent again")
    # callLater(..., d.callback, [p for p, f in <failed list>]) and d.addCallback(_do_retry)
    cl = [c for c in calls_in(crp, "callLater")]
    call_sites = [c for c in calls_in(hsr) if prog.resolve_call(hsr, c) is crp]
    passed = {unparse(c.args[0]) for c in call_sites if c.args}
    ok = False
    for c in cl:
        if len(c.args) >= 3 and isinstance(c.args[2], ast.ListComp):
            lc = c.args[2]
            src = unparse(lc.generators[0].iter)
            tgt = lc.generators[0].target
            if src in passed | {crp.first_param()} and isinstance(tgt, ast.Tuple) and unparse(
                    lc.elt) == unparse(tgt.elts[0]) and not lc.generators[0].ifs:
                ok = True
    chained = any(g["cb"] is not None and prog.resolve_callable(crp, g["cb"]) is dor for g in registrations(crp, prog))
    r.check(ok and chained, "%s#retry-list" % crp.qname,
            "the retry timer does not hand the failed payload list (and only it) to the retry sender",
            where(crp, cl[0] if cl else crp.node))

    # ---- R4 per-partition outcomes reach the producer (exception escape vs fail_on_error)
    r = ctx.rule("R4", "no broker error code escapes KafkaClient._handle_responses unless fail_on_error", 3,
                 "B")
    for f in (sreq, dor):
        for c in calls_in(f, "send_produce_request"):
            v = kwarg(c, "fail_on_error")
            r.check(isinstance(v, ast.Constant) and v.value is False, "%s#fail_on_error=False" % f.qname,
                    "producer does not ask the client for per-partition outcomes (fail_on_error=False)", where(f, c))
    hr = ctx.func("client:KafkaClient._handle_responses")
    ch = ctx.cfg(hr)
    fh = ctx.facts(hr)
    anc, alias = exc_table(prog)
    raised = {n for n, a in anc.items() if "BrokerResponseError" in a and n not in alias}
    rfe = [n for n in ch.nodes if any(call_name(c) == "raise_for_errno" for c in n.calls())]
    need(len(rfe) == 1, "raise_for_errno call not found once in _handle_responses")
    x = rfe[0]
    handlers = [ch.nodes[t] for t, lab in ch.succ[x.id] if lab == ("exc",) and ch.nodes[t].kind == "except"]
    escapes_outer = any(ch.nodes[t].kind == "raise" for t, lab in ch.succ[x.id] if lab == ("exc",))
    covered = set()
    for h in handlers:
        ts = h.stmt.type
        tnames = [unparse(e).split(".")[-1] for e in (ts.elts if isinstance(ts, ast.Tuple) else [ts])] if ts else [
            "BaseException"]
        for tn in tnames:
            tn = alias.get(tn, tn)
            if tn in ("Exception", "BaseException"):
                covered |= raised
            covered |= {c for c in raised if tn in anc.get(c, ())}
    uncovered = sorted(raised - covered)
    guarded_at_x = ("fail_on_error", True) in fh[x.id]
    r.check(not uncovered or guarded_at_x or not escapes_outer,
            "%s#escape(raise_for_errno)" % hr.qname,
            "%d error classes raised by raise_for_errno escape regardless of fail_on_error (handlers cover %d of %d), "
            "e.g. %s" % (len(uncovered), len(covered), len(raised), uncovered[:4]), where(hr, x.stmt),
            "reply with partition A acknowledged and partition B carrying such a code becomes a total failure: "
            "A's payload is re-sent although acknowledged", facts=["raised=%d covered=%d" % (len(raised), len(covered))])
    for h in handlers:
        arm = [ch.nodes[i] for i in ch.reach([h.id])]
        for n in arm:
            if n.kind == "stmt" and isinstance(n.stmt, ast.Raise) and h.id in [p for p in _doms(ch, n.id, [h.id])]:
                r.check(("fail_on_error", True) in fh[n.id], "%s#reraise in except %s" % (hr.qname, norm(
                    h.stmt.type) if h.stmt.type else ""), "handler re-raises without `fail_on_error` being true",
                    where(hr, n.stmt))

    # ---- R5 attempts bounded
    r = ctx.rule("R5", "every produce send increments the attempt counter; a retry is scheduled only below the "
                       "limit", 4, "B")
    for f in (sreq, dor):
        cf2 = ctx.cfg(f)
        for n in cf2.nodes:
            if any(call_name(c) == "send_produce_request" for c in n.calls()):
                inc = [m.id for m in cf2.nodes if m.kind == "stmt" and isinstance(m.stmt, ast.AugAssign) and self_attr(
                    m.stmt.target) == "_req_attempts" and isinstance(m.stmt.op, ast.Add)]
                regn = [cf2.containing(g["call"])[0].id for g in registrations(f, prog) if any(
                    h_ is not None and unparse(h_) == "self." + hsr.name for h_ in (g["cb"], g["eb"])) and cf2.containing(g["call"])]
                r.check(bool(inc) and bool(regn) and all(cf2.dominates(inc, x) for x in regn), "%s#attempt-counted-before-handler" % f.qname,
                        "the response handler is attached before the attempt is counted (it runs at once when the client's Deferred has "
                        "already failed and then reads a stale attempt count)", where(f, n.stmt),
                        "client fails the send synchronously (no leader / closed): one attempt more than max_req_attempts")
                r.check(bool(inc) and not cf2.normal_exits_from(n.id, avoid=inc), "%s#attempt-increment" % f.qname,
                        "a produce send is not followed by `_req_attempts += 1` on every path", where(f, n.stmt),
                        "more produce attempts than max_req_attempts")
    # the partition lookup waits for usable metadata under the same budget: every round that goes back to sleep is counted,
    # whatever the topic's error is (a topic stuck in LEADER_NOT_AVAILABLE must fail the send, not hold it for ever)
    npf = ctx.func(PROD + "._next_partition")
    cnp = ctx.cfg(npf)
    sleeps = [n for n in cnp.nodes if any(call_name(c) == "callLater" for c in n.calls())]
    incs_ = [m.id for m in cnp.nodes if m.kind == "stmt" and isinstance(m.stmt, ast.AugAssign) and self_attr(m.stmt.target) == "_req_attempts" and isinstance(m.stmt.op, ast.Add)]
    lim_t = [n for n in cnp.nodes if n.kind == "test" and "_req_attempts" in norm(at(ctx, npf, n.id, n.stmt.test)) and "_max_attempts" in norm(at(ctx, npf, n.id, n.stmt.test))]
    okn = bool(sleeps) and bool(incs_) and bool(lim_t)
    for sl_ in sleeps:
        # from the limit test of this round to the sleep, every path passes the increment
        okn = okn and all(sl_.id not in cnp.reach([t for t, lab in cnp.succ[lt_.id] if lab != ("exc",)], avoid=incs_, follow_exc=False) for lt_ in lim_t)
    r.check(okn, "%s#every-round-counted" % npf.qname, "a round of the metadata wait can go back to sleep without counting against the attempt limit",
            where(npf, sleeps[0].stmt if sleeps else npf.node), "a topic that stays in an error state: its sends - and everything queued behind them - never complete")
    # the counter only ever grows between two completions: nothing hands an attempt back
    shrinks = []
    for f_, k_, node_ in prog.attr_accesses(ci, "_req_attempts", False):
        if k_ not in ("write", "aug", "del"):
            continue
        st_ = [x for x in walk_body_shallow(f_.body) if isinstance(x, (ast.Assign, ast.AugAssign, ast.Delete)) and any(y is node_ for y in ast.walk(x))]
        for x in st_:
            if isinstance(x, ast.AugAssign):
                v_ = const_value(prog, f_, x.value)
                if not (isinstance(x.op, ast.Add) and isinstance(v_, int) and not isinstance(v_, bool) and v_ > 0):
                    shrinks.append("%s line %d: `%s`" % (f_.qname, x.lineno, norm(x, 50)))
            elif not (f_.name == "__init__" or f_ is cbs):
                shrinks.append("%s line %d: `%s`" % (f_.qname, x.lineno, norm(x, 50)))
    r.check(not shrinks, "%s#attempt-counter-only-grows" % PROD, "the attempt counter is lowered or re-assigned outside the completion stage: %s" % shrinks,
            where(cbs, cbs.node), "a class of failures (no leader) is not counted: unbounded produce attempts, the batch never resolves")
    cc2 = ctx.cfg(crp)
    fc = ctx.facts(crp)
    for n in cc2.nodes:
        if any(call_name(c) == "callLater" for c in n.calls()):
            r.check(("self._req_attempts >= self._max_attempts", False) in fc[n.id], "%s#retry-below-limit" % crp.qname,
                    "retry timer armed without `_req_attempts < _max_attempts` being established", where(crp, n.stmt),
                    "attempt count exceeds the configured maximum")

    # ---- R6 geometric back-off with reset
    r = ctx.rule("R6", "delay used = current interval, then multiplied by a constant > 1; completion (and nothing else) resets", 4, "E")
    for n in cc2.nodes:
        for c in n.calls():
            if call_name(c) == "callLater":
                used = c.args and unparse(c.args[0]) == "self._retry_interval"
                grow = [m for m in cc2.nodes if m.kind == "stmt" and isinstance(m.stmt, ast.AugAssign) and self_attr(
                    m.stmt.target) == "_retry_interval" and isinstance(m.stmt.op, ast.Mult)]
                fac = None
                if grow:
                    fv = grow[0].stmt.value
                    a = self_attr(fv)
                    if a and a in ci.class_attrs and isinstance(ci.class_attrs[a], ast.Constant):
                        fac = ci.class_attrs[a].value
                    elif isinstance(fv, ast.Constant):
                        fac = fv.value
                ok = used and len(grow) == 1 and isinstance(fac, (int, float)) and fac > 1 and not \
                    cc2.normal_exits_from(n.id, avoid=[grow[0].id]) if grow else False
                r.check(ok, "%s#backoff-kernel" % crp.qname,
                        "retry delay is not `current interval` followed by `interval *= constant > 1` (factor=%r)" % fac,
                        where(crp, c), "retries do not back off geometrically", facts=["factor=%r" % fac])
    # every other place that lets the interval grow (the wait for usable metadata) waits the current interval first
    for f_ in sorted([x for x in prog.funcs.values() if x.cls is ci and x is not crp], key=lambda x: x.qname):
        cf_ = ctx.cfg(f_)
        grow_ = [m for m in cf_.nodes if m.kind == "stmt" and isinstance(m.stmt, ast.AugAssign) and self_attr(m.stmt.target) == "_retry_interval"]
        for m in grow_:
            timers_ = [n for n in cf_.nodes for c in n.calls() if call_name(c) in ("callLater", "deferLater") and c.args and norm(
                at(ctx, f_, n.id, c.args[0 if call_name(c) == "callLater" else 1])) == "self._retry_interval" and len(c.args) > (0 if call_name(c) == "callLater" else 1)]
            fv_ = const_value(prog, f_, m.stmt.value)
            ok_ = isinstance(m.stmt.op, ast.Mult) and isinstance(fv_, (int, float)) and not isinstance(fv_, bool) and fv_ > 1 and bool(timers_) and \
                cf_.dominates([n.id for n in timers_], m.id)
            r.check(ok_, "%s#backoff-kernel" % f_.qname, "the interval grows here without the wait before it lasting the current interval "
                    "(factor=%r, timers on the current interval: %d)" % (fv_, len(timers_)), where(f_, m.stmt),
                    "the waits of a batch are not geometric from the configured interval (2.0, 2.0, 2.0, 3.47 instead of 2.0, 2.4, 2.89, 3.47)")
    # the interval goes back to its initial value only where the batch resolves (and in the constructor): a reset inside
    # the response handling restarts the back-off in the middle of a batch
    early = []
    for f_, k_, node_ in prog.attr_accesses(ci, "_retry_interval", False):
        if k_ != "write" or f_.name == "__init__" or f_ is cbs:
            continue
        hit_ = ctx.cfg(f_).containing(node_)
        v_ = node_assign_value(hit_[0], "_retry_interval") if hit_ else None
        if v_ is not None:
            early.append("%s line %d: `%s`" % (f_.qname, getattr(node_, "lineno", 0), norm(v_, 50)))
    r.check(not early, "%s#interval-reset-only-on-completion" % PROD, "the retry interval is re-assigned outside the completion stage: %s" % early,
            where(cbs, cbs.node), "a partially successful attempt resets the back-off: the failing partitions are retried at the initial interval again and again")
    resets = {"_retry_interval": None, "_req_attempts": None}
    for n in cc.nodes:
        for a in resets:
            v = node_assign_value(n, a)
            if v is not None:
                resets[a] = (n, v)
    ok_i = resets["_retry_interval"] and unparse(resets["_retry_interval"][1]) == "self._init_retry_interval" and not \
        cc.normal_exits_from(cc.entry.id, avoid=[resets["_retry_interval"][0].id])
    ok_a = resets["_req_attempts"] and isinstance(resets["_req_attempts"][1], ast.Constant) and resets[
        "_req_attempts"][1].value == 0 and not cc.normal_exits_from(cc.entry.id, avoid=[resets["_req_attempts"][0].id])
    r.check(bool(ok_i), "%s#reset-interval" % cbs.qname, "completion does not restore the initial retry interval on "
            "every path", where(cbs, cbs.node), "next batch starts with an inflated delay")
    r.check(bool(ok_a), "%s#reset-attempts" % cbs.qname, "completion does not zero the attempt counter on every path",
            where(cbs, cbs.node), "next batch has fewer attempts than configured")


def _doms(cfg, nid, cands):
    return [c for c in cands if cfg.dominates([c], nid)]


MUTANTS = [
    {"id": "start-while-in-flight", "file": "producer.py",
     "old": "if (not self._batch_reqs) or self._batch_send_d:", "new": "if not self._batch_reqs:", "expect": "C09.R1"},
    {"id": "complete-on-success-only", "file": "producer.py", "old": "d.addBoth(self._complete_batch_send)",
     "new": "d.addCallback(self._complete_batch_send)", "expect": "C09.R1"},
    {"id": "recheck-dropped", "file": "producer.py", "old": "        d.addBoth(self._check_send_batch)\n", "new": "",
     "expect": "C09.R1"},
    {"id": "sorted-requests", "file": "producer.py",
     "old": "for (success, part_or_failure), req in zip(parts_results, requests):",
     "new": "for (success, part_or_failure), req in sorted(zip(parts_results, requests), key=lambda x: x[1].topic):",
     "expect": "C09.R2"},
    {"id": "retry-everything", "file": "producer.py", "old": "d.callback, [p for p, f in failed_payloads])",
     "new": "d.callback, list(payloadsByTopicPart.values()))", "expect": "C09.R3"},
    {"id": "retry-handler-gets-batch-table", "file": "producer.py",
     "old": "            retried = {tp: p for tp, p in payloadsByTopicPart.items() if p in payloads}\n            d.addBoth(self._handle_send_response, retried, deferredsByTopicPart)",
     "new": "            d.addBoth(self._handle_send_response, payloadsByTopicPart, deferredsByTopicPart)", "expect": "C09.R3", "note": "finding F13"},
    {"id": "handle-responses-escape", "file": "client.py",
     "old": "            except BrokerResponseError:\n                if fail_on_error:\n                    raise\n",
     "new": "", "expect": "C09.R4"},
    {"id": "handle-responses-always-raise", "file": "client.py",
     "old": "                self.reset_topic_metadata(resp.topic)\n                if fail_on_error:\n                    raise",
     "new": "                self.reset_topic_metadata(resp.topic)\n                raise", "expect": "C09.R4"},
    {"id": "no-attempt-increment", "file": "producer.py",
     "old": "            self._req_attempts += 1\n            # add our handlers. Only the payloads of this attempt",
     "new": "            # add our handlers. Only the payloads of this attempt", "expect": "C09.R5"},
    {"id": "attempt-counted-after-handler", "file": "producer.py",
     "old": "            self._req_attempts += 1\n            # add our handlers. Only the payloads of this attempt can fail (or\n            # be retried) from here on: the others have been acknowledged.\n            retried = {tp: p for tp, p in payloadsByTopicPart.items() if p in payloads}\n            d.addBoth(self._handle_send_response, retried, deferredsByTopicPart)\n",
     "new": "            retried = {tp: p for tp, p in payloadsByTopicPart.items() if p in payloads}\n            d.addBoth(self._handle_send_response, retried, deferredsByTopicPart)\n            self._req_attempts += 1\n",
     "expect": "C09.R5", "note": "seeded C09-4"},
    {"id": "limit-off-by-one", "file": "producer.py", "old": "            if self.stopping or self._req_attempts >= self._max_attempts:\n                # No, no retries left",
     "new": "            if self.stopping or self._req_attempts > self._max_attempts:\n                # No, no retries left", "expect": "C09.R5"},
    {"id": "backoff-not-growing", "file": "producer.py",
     "old": "            self._retry_interval *= self.RETRY_INTERVAL_FACTOR\n            # Cancel the callLater", "new": "            # Cancel the callLater",
     "expect": "C09.R6"},
    {"id": "no-interval-reset", "file": "producer.py", "old": "        self._retry_interval = self._init_retry_interval\n        if isinstance",
     "new": "        if isinstance", "expect": "C09.R6"},
    {"id": "fail-on-error-true", "file": "producer.py",
     "old": "            payloads, acks=self.req_acks, timeout=self.ack_timeout, fail_on_error=False\n",
     "new": "            payloads, acks=self.req_acks, timeout=self.ack_timeout, fail_on_error=True\n", "expect": "C09.R4"},
]

TWINS = [
    {"id": "guard-split", "file": "producer.py", "old": "        if (not self._batch_reqs) or self._batch_send_d:\n            return\n",
     "new": "        if not self._batch_reqs:\n            return\n        if self._batch_send_d is not None:\n            return\n"},
    {"id": "addboth-as-addcallbacks", "file": "producer.py", "old": "d.addBoth(self._check_send_batch)",
     "new": "d.addBoth(self._check_send_batch)  # re-check"},
]

"""C17 - a started group member always progresses toward stable membership.

Decided: error-funnel completeness - for every Deferred chain of the join
protocol the terminal failure handler, evaluated per representative failure
class, ends in a sink (rejoin scheduled, stop(errback_result), start Deferred
fired) or propagates into the join routine whose own terminal handler is
checked the same way; every arm of the error handler schedules or stops;
lookup retries; heartbeat failure -> rejoin; exits of the join routine.
Not decided: "within bounded time".
"""
import ast

from ..model import self_attr, unparse, walk_body_shallow
from .c09 import exc_table
from .util import *  # noqa: F401,F403
from .util import callee_expr, aliases_of, chains_in, call_name, call_recv, calls_in, kwarg, need, node_assign_value, norm, registrations, where

TECHNIQUE = "error-funnel completeness over Deferred chains with per-failure-class path pruning; arm exhaustiveness"
EXPLANATION = (
    "Rules over afkak/_group.py. For each terminal on-failure handler of the join protocol's chains the CFG is "
    "pruned by evaluating `failure.check(...)` tests against a representative failure class (generic KafkaError "
    "such as a failed metadata load, a group error, a time-out, a non-Kafka exception; `_stopping` false) using the "
    "exception class table read from common.py; every remaining normal path must pass a sink or return the failure "
    "(which then reaches the join routine's own terminal handler, checked likewise). addCallbacks' same-level rule is "
    "respected: the lookup's errback does not see a failure of the metadata load started by its success arm."
    ' Also: a group request in flight is cancelled only after `_stopping` was raised (R7).'
    " Every partition consumer's start Deferred gets the group's error handler before the next consumer is started, and that handler hands every failure but a cancellation to the rejoin / stop decision."
)
SHARED = [('C11', ['R7'], 'the join request is given the time a rebalance may take: a slow rebalance is not mistaken for a silent broker (join, time out, back off, for ever)'), ('C16', ['R3'], 'eviction arms reset the member identity so that the rejoin can succeed'), ('C15', ['R6'], 'the leader can always complete the assignment (loads exactly the topics it was told are missing)')]
ASSUMPTIONS = [
    "Twisted: a failure returned by an errback (or raised) propagates; returning anything else absorbs it",
    "a failure propagating out of a Deferred that an inlineCallbacks generator yields is raised at the yield",
]
COORD = "_group:Coordinator"
GROUP = "_group:ConsumerGroup"
CASES = {
    "generic-KafkaError": "KafkaUnavailableError",
    "group-error": "IllegalGeneration",
    "rebalance": "RebalanceInProgress",
    "timeout": "RequestTimedOutError",
    "non-Kafka": "RuntimeError",
}


def _eval(test, p, case_cls, anc, alias):
    """three-valued evaluation of a handler test for a failure of class case_cls"""
    if isinstance(test, ast.UnaryOp) and isinstance(test.op, ast.Not):
        v = _eval(test.operand, p, case_cls, anc, alias)
        return None if v is None else (not v)
    if isinstance(test, ast.BoolOp):
        vals = [_eval(v, p, case_cls, anc, alias) for v in test.values]
        if isinstance(test.op, ast.And):
            if any(v is False for v in vals):
                return False
            return True if all(v is True for v in vals) else None
        if any(v is True for v in vals):
            return True
        return False if all(v is False for v in vals) else None
    if isinstance(test, ast.Call) and call_name(test) == "check" and call_recv(test) in (p if isinstance(p, (set, frozenset)) else {p}):
        up = anc.get(case_cls, {case_cls})
        for a in test.args:
            nm = unparse(a).split(".")[-1]
            nm = alias.get(nm, nm)
            if nm in up:
                return True
        return False
    if norm(test) == "self._stopping":
        return False
    return None


def _param_aliases(h, p):
    """the parameter and the locals that are only ever another name for it (`failure = result`)"""
    ps = {p}
    defs = {}
    for n in ast.walk(h.node):
        if isinstance(n, ast.Assign):
            for t in n.targets:
                for nm in ast.walk(t):
                    if isinstance(nm, ast.Name):
                        defs.setdefault(nm.id, []).append(n.value if isinstance(t, ast.Name) else None)
        elif isinstance(n, (ast.AugAssign, ast.AnnAssign, ast.For, ast.NamedExpr)):
            t = n.target
            for nm in ast.walk(t):
                if isinstance(nm, ast.Name):
                    defs.setdefault(nm.id, []).append(None)
    if p in defs:
        return frozenset(ps)
    changed = True
    while changed:
        changed = False
        for nm, vals in defs.items():
            if nm not in ps and all(isinstance(v, ast.Name) and v.id in ps for v in vals):
                ps.add(nm)
                changed = True
    return frozenset(ps)


def classify(ctx, h, case_cls, anc, alias, sink_pred):
    """'sink' if every normal path passes a sink; else 'propagate' if all the
    sink-free exits return the failure / raise; else 'absorb'."""
    cf = ctx.cfg(h)
    p = h.first_param()
    ps = _param_aliases(h, p)
    dead = set()
    for n in cf.nodes:
        if n.kind == "test":
            v = _eval(n.stmt.test, ps, case_cls, anc, alias)
            if v is not None:
                for t, lab in cf.succ[n.id]:
                    if lab and lab[0] == "cond" and lab[2] != v:
                        dead.add((n.id, t))
    # the gate `if not self._rejoin_wait_dc:` counts as a sink: its other outcome means a rejoin timer is pending
    sinks = {n.id for n in cf.nodes if any(sink_pred(c) for c in n.calls()) or (
        n.kind == "test" and chains_in(n.stmt.test) == {"self", "self._rejoin_wait_dc"})}
    # reach with pruned edges
    seen, stack = set(), [cf.entry.id]
    exits = []
    while stack:
        x = stack.pop()
        if x in seen:
            continue
        seen.add(x)
        if x in sinks:
            continue
        for t, lab in cf.succ[x]:
            if (x, t) in dead or lab == ("exc",):
                continue
            if t == cf.exit.id:
                exits.append(cf.nodes[x])
            stack.append(t)
    if not exits:
        return "sink", []
    prop = all(n.kind == "stmt" and isinstance(n.stmt, ast.Return) and isinstance(n.stmt.value, ast.Name)
               and n.stmt.value.id in ps for n in exits)
    return ("propagate" if prop else "absorb"), exits


def run(ctx):
    prog = ctx.prog
    anc, alias = exc_table(prog)
    anc.setdefault("RuntimeError", {"RuntimeError", "Exception"})
    anc.setdefault("CancelledError", {"CancelledError", "Exception"})
    rae = ctx.func(COORD + ".rejoin_after_error")
    jouter = ctx.func(COORD + ".join_and_sync")
    jas = ctx.func(COORD + "._join_and_sync")
    gcb = ctx.func(COORD + ".get_coordinator_broker")

    def sink_pred(c):
        nm, rc = call_name(c), call_recv(c) or ""
        ce_ = callee_expr(c)
        if ce_ is not c.func and isinstance(ce_, ast.Attribute):
            nm, rc = ce_.attr, unparse(ce_.value)
        if nm == "rejoin_after_error" and rc == "self":
            return True
        if nm == "stop" and rc == "self" and (kwarg(c, "errback_result") is not None or c.args):
            return True
        if nm == "errback" and rc == "self._start_d":
            return True
        if nm == "callLater" and any(norm(a) == "self.join_and_sync" for a in c.args):
            return True
        return False

    # ---- R1 funnel completeness
    r = ctx.rule("R1", "every terminal failure handler of the join protocol ends in a sink or propagates into the join "
                       "routine, per failure class", 15, "C")
    terminals = []  # (registrar, handler, returned_to_caller)
    for f in [x for x in prog.funcs.values() if x.cls is not None and x.cls.qual in (COORD, GROUP)]:
        regs = registrations(f, prog)
        by_root = {}
        for g in regs:
            by_root.setdefault(g["root"], []).append(g)
        for root, lst in by_root.items():
            ebs = [g for g in lst if g["eb"] is not None and g["kind"] != "both"]
            if not ebs:
                continue
            if root.endswith("_looper_d"):
                # LoopingCall's own Deferred fails only if _heartbeat() raises synchronously (a bug, not a
                # protocol failure): outside the property's quantifier
                continue
            last = ebs[-1]
            h = prog.resolve_callable(f, last["eb"])
            if h is None:
                continue
            def _chain_root_text(e):
                # `return d.addErrback(h)` returns d
                while isinstance(e, ast.Call) and isinstance(e.func, ast.Attribute) and e.func.attr in ("addCallback", "addErrback", "addBoth", "addCallbacks"):
                    e = e.func.value
                return norm(e)
            returned = any(isinstance(x, ast.Return) and x.value is not None and _chain_root_text(x.value) in aliases_of(f, root) for x in
                           walk_body_shallow(f.body))
            # the handler is named by its role (registrar + chain), not by the name of the closure
            al_ = sorted(a for a in aliases_of(f, root) if a.startswith("self."))
            terminals.append((f, h, returned, root, "%s@errback[%s]" % (f.qname, al_[0] if al_ else root)))
    need(len(terminals) >= 5, "expected at least five failure-handled chains in the group code, found %d" % len(terminals))
    seen = set()
    for f, h, returned, root, role in sorted(terminals, key=lambda t: (t[0].qname, t[1].qname)):
        if (h.qname, returned) in seen:
            continue
        seen.add((h.qname, returned))
        for cname, ccls in sorted(CASES.items()):
            kind, exits = classify(ctx, h, ccls, anc, alias, sink_pred)
            ok = kind == "sink" or (kind == "propagate" and returned)
            r.check(ok, "%s#on-failure[%s]" % (role, cname),
                    "terminal failure handler (chain on `%s` in %s) %ss a %s failure without rescheduling the join, "
                    "stopping with the error, or firing the start Deferred" % (root, f.name, kind, ccls),
                    where(h, exits[0].stmt if exits and exits[0].stmt is not None else h.node),
                    "that failure at that step leaves the member idle for ever: no timer, no heartbeat, start() "
                    "Deferred unfired", facts=["class=%s result=%s returned-to-caller=%s" % (ccls, kind, returned)])
    # the join routine's own Deferred: stages up to the terminal handler must propagate
    regs = registrations(jouter, prog)
    stage = [g for g in regs if g["kind"] == "both"]
    for g in stage:
        hb = prog.resolve_callable(jouter, g["cb"])
        if hb is not None:
            p = hb.first_param()
            rets = [x for x in walk_body_shallow(hb.body) if isinstance(x, ast.Return)]
            r.check(bool(rets) and all(isinstance(x.value, ast.Name) and x.value.id == p for x in rets) and
                    not ctx.cfg(hb).normal_exits_from(ctx.cfg(hb).entry.id, avoid=[ctx.cfg(hb).node_of(x).id for x in rets]),
                    "%s#bookkeeping-stage-propagates" % hb.qname, "on-both bookkeeping stage swallows the failure before the "
                    "terminal handler sees it", where(hb, hb.node))

    # ---- R2 handler exhaustiveness + back-off classification
    r = ctx.rule("R2", "every arm of rejoin_after_error schedules a rejoin or stops with the error; back-off per arm", 6,
                 "B")
    cf = ctx.cfg(rae)
    fr = ctx.facts(rae)
    p = rae.first_param()
    sched = [n for n in cf.nodes if any(call_name(c) == "callLater" for c in n.calls())]
    need(len(sched) == 1, "rejoin scheduling site not found once")
    from ..cfg import cond_atoms, known_falsy as _kf
    gate_l = cf.control_deps(sched[0].id)
    gate = [t for t, lab in gate_l]
    # the only thing the timer may depend on is `no timer pending`, in whichever form and polarity the test is written
    gate_ok = bool(gate_l) and all(t.kind == "test" and lab and lab[0] == "cond" and _kf(cond_atoms(lab[1], lab[2]), "self._rejoin_wait_dc")
                                   and chains_in(t.stmt.test) <= {"self", "self._rejoin_wait_dc"} for t, lab in gate_l)
    r.check(gate_ok, "%s#timer-gate" % rae.qname, "rejoin timer is armed under conditions other than `no timer pending`: %s"
            % [norm(t.stmt.test) for t in gate], where(rae, sched[0].stmt))
    sched_block = {t.id for t in gate} | {sched[0].id}
    stops = {n.id for n in cf.nodes if any(call_name(c) == "stop" and call_recv(c) == "self" and kwarg(c, "errback_result")
                                           is not None for c in n.calls())}
    cancel_arm = {n.id for n in cf.nodes if n.kind == "stmt" and isinstance(n.stmt, ast.Return) and any(
        pol and "self._stopping" in t and "CancelledError" in t for t, pol in fr[n.id])}
    r.check(not cf.normal_exits_from(cf.entry.id, avoid=sched_block | stops | cancel_arm), "%s#every-arm-acts" % rae.qname,
            "an arm of the error handler returns without scheduling a rejoin or stopping with the error", where(rae, rae.node),
            "that error class leaves the member idle")
    setn = [n for n in cf.nodes if node_assign_value(n, "_rejoin_needed") is not None]
    r.check(bool(setn) and cf.dominates([n.id for n in setn], sched[0].id) and all(
        getattr(node_assign_value(n, "_rejoin_needed"), "value", None) is True for n in setn), "%s#marks-rejoin-needed" % rae.qname,
        "rejoin is scheduled without `_rejoin_needed = True` (join_and_sync would return at once)", where(rae, rae.node))
    delay_var = None
    c = sched[0].calls()[0]
    fatal_nodes = [n for n in cf.nodes if n.kind == "stmt" and isinstance(n.stmt, ast.Assign) and norm(n.stmt.value) ==
                   "self.fatal_backoff_ms"]
    fatal_classes = set()
    for n in fatal_nodes:
        for t, pol in fr[n.id]:
            if pol and t.startswith("%s.check(" % p):
                fatal_classes |= {x.strip() for x in t[len(p) + 7:-1].split(",")}
    expected_fatal = {"InconsistentGroupProtocol", "RequestTimedOutError", "KafkaError"}
    r.check(fatal_classes == expected_fatal, "%s#fatal-backoff-classes" % rae.qname,
            "long back-off is selected for %s, documented: protocol rejection, time-out, unexpected Kafka errors" % sorted(fatal_classes),
            where(rae, rae.node), facts=sorted(fatal_classes))
    init = [n for n in cf.nodes if n.kind == "stmt" and isinstance(n.stmt, ast.Assign) and norm(n.stmt.value) ==
            "self.retry_backoff_ms"]
    r.check(len(init) == 1 and cf.dominates([init[0].id], sched[0].id), "%s#default-backoff" % rae.qname,
            "expected group errors do not default to retry_backoff_ms", where(rae, rae.node))
    dv = unparse(init[0].stmt.targets[0]) if init else None
    used = norm(c.args[0]) if c.args else ""
    defs = [x for x in walk_body_shallow(rae.body) if isinstance(x, ast.Assign) and unparse(x.targets[0]) == used]
    lo = leaf_origins(cf, sched[0].id, c.args[0], params=rae.params) if c.args else None
    backoffs = {"self.retry_backoff_ms", "self.fatal_backoff_ms"}
    def _numeric(x):  # a literal, or a module constant holding one (unit conversion)
        if x.replace(".", "", 1).isdigit():
            return True
        return x.isidentifier() and isinstance(const_value(prog, rae, ast.Name(id=x, ctx=ast.Load())), (int, float))
    okd = lo is not None and backoffs <= lo and all(x in backoffs or _numeric(x) for x in lo)
    r.check(okd, "%s#delay-used" % rae.qname,
            "the timer is not armed with the selected back-off (delay computed from %s)" % (sorted(lo) if lo is not None else "?"),
            where(rae, sched[0].stmt))

    # ---- R6 the gate handle is cleared on every path of the timer's callback; the in-progress marker on both outcomes
    r = ctx.rule("R6", "rejoin timer handle is cleared on every path of join_and_sync; _rejoin_d is cleared by an on-both stage", 2, "B+C")
    from ..cfg import known_falsy
    gate_attr = "_rejoin_wait_dc"
    stored = [n for n in cf.nodes if node_assign_value(n, gate_attr) is not None and any(call_name(c) == "callLater" for c in n.calls())]
    cb_ok = False
    if stored:
        c0 = [c for c in stored[0].calls() if call_name(c) == "callLater"][0]
        cbf = prog.resolve_callable(rae, c0.args[1]) if len(c0.args) > 1 else None
        if cbf is not None:
            ccb = ctx.cfg(cbf)
            fcb = ctx.facts(cbf)
            exits = [ccb.nodes[p] for p, lab in ccb.pred[ccb.exit.id]]
            starts = [n for n in ccb.nodes if any(prog.resolve_call(cbf, c) is jas for c in n.calls())]
            pts = exits + starts
            cb_ok = bool(pts) and all(known_falsy(fcb[n.id], "self." + gate_attr) or (
                node_assign_value(n, gate_attr) is not None) for n in pts)
    r.check(cb_ok, "%s#timer-handle-cleared-on-every-path" % jouter.qname,
            "the rejoin timer's callback can return with _rejoin_wait_dc still pointing at the fired timer; rejoin_after_error arms a "
            "new timer only when that handle is falsy", where(jouter, jouter.node),
            "timer fires while a join is outstanding (early return); the next retriable failure marks rejoin-needed but schedules "
            "nothing: the member is idle for ever")
    regs_j = registrations(jouter, prog)
    al = None
    al = aliases_of(jouter, "self._rejoin_d")
    clr = []
    for g in regs_j:
        if g["root"] in al and g["cb"] is not None:
            h = prog.resolve_callable(jouter, g["cb"])
            if h is not None and "_rejoin_d" in prog.direct_writes(h):
                clr.append(g)
    r.check(len(clr) == 1 and clr[0]["kind"] == "both", "%s#in-progress-marker-cleared-on-both" % jouter.qname,
            "_rejoin_d is not cleared by an on-both stage of the join's Deferred (found %s)" % [g["kind"] for g in clr], where(jouter, jouter.node),
            "an exception escaping the join routine leaves `rejoin in progress` set for ever: every later rejoin returns at once")

    # ---- R3 lookup retries
    r = ctx.rule("R3", "coordinator lookup: every Kafka-error arm and the no-coordinator arm schedule join_and_sync", 2, "B")
    # the success handler of the lookup: the callback of the addCallbacks pair registered on the lookup's Deferred
    pair = [g for g in registrations(gcb, prog) if g["kind"] == "cbs" and g["cb"] is not None and g["eb"] is not None]
    ok_h = prog.resolve_callable(gcb, pair[0]["cb"]) if len(pair) == 1 else None
    need(ok_h is not None, "lookup success handler missing")
    cs = ctx.cfg(ok_h)
    fs = ctx.facts(ok_h)
    pl = ok_h.first_param()
    arm = [n for n in cs.nodes if (pl, False) in fs[n.id]]
    r.check(any(any(sink_pred(c) for c in n.calls()) for n in arm) and bool(arm), "%s#no-coordinator-arm" % ok_h.qname,
            "no coordinator known: nothing is scheduled", where(ok_h, ok_h.node), "member idle until restarted")
    regs = registrations(gcb, prog)
    r.check(any(g["kind"] == "cbs" and prog.resolve_callable(gcb, g["cb"]) is ok_h for g in regs), "%s#handlers-same-level" % gcb.qname,
            "lookup handlers are not registered as one addCallbacks pair", where(gcb, gcb.node))

    # ---- R4 heartbeat failure -> rejoin; join completion restarts the looper
    r = ctx.rule("R4", "heartbeat failure stops the looper and funnels into the error handler; completion restarts it", 2, "C")
    hbf = ctx.func(COORD + "._handle_heartbeat_failure")
    ch = ctx.cfg(hbf)
    st = [n.id for n in ch.nodes if any(call_name(c) == "stop" and call_recv(c) == "self._heartbeat_looper" for c in n.calls())]
    clr = [n.id for n in ch.nodes if node_assign_value(n, "_heartbeat_request_d") is not None]
    r.check(bool(st) and bool(clr) and ch.dominates(st, ch.exit.id) and ch.dominates(clr, ch.exit.id), "%s#stops-looper-clears-handle" % hbf.qname,
            "heartbeat failure does not stop the looper and clear the in-flight handle on every path", where(hbf, hbf.node),
            "heartbeats with a rejected generation continue / no further heartbeat is ever sent")
    cj = ctx.cfg(jas)
    rh = [n.id for n in cj.nodes if any(call_name(c) == "reset_heartbeat_timer" for c in n.calls())]
    done = [n for n in cj.nodes if getattr(node_assign_value(n, "_rejoin_needed"), "value", 1) is False]
    r.check(bool(rh) and len(done) == 1 and cj.dominates(rh, done[0].id), "%s#heartbeat-restarted-on-completion" % jas.qname,
            "join completion marks the member stable without (re)starting the heartbeat timer", where(jas, jas.node),
            "stable member never heartbeats: evicted after the session timeout")

    # rejoin_after_error raises `_rejoin_needed` whether or not a timer is already pending: the pending timer may belong to an
    # exchange that has since succeeded, and its callback only joins when the flag is up
    crae = ctx.cfg(rae)
    gate_ = [n for n in crae.nodes if n.kind == "test" and chains_in(n.stmt.test) == {"self", "self._rejoin_wait_dc"}]
    raised_ = [n.id for n in crae.nodes if isinstance(node_assign_value(n, "_rejoin_needed"), ast.Constant) and node_assign_value(n, "_rejoin_needed").value is True]
    r2b = ctx.rule("R8", "the error handler marks the rejoin as needed on every path that reaches the timer gate", 1, "B")
    r2b.check(bool(gate_) and bool(raised_) and all(crae.dominates(raised_, g_.id) for g_ in gate_), "%s#flag-raised-before-the-gate" % rae.qname,
              "`_rejoin_needed` is raised only when no timer is pending", where(rae, gate_[0].stmt if gate_ else rae.node),
              "a timer armed during an exchange that then succeeded is still pending when the next REBALANCE_IN_PROGRESS arrives: the flag "
              "stays down, the heartbeats have stopped, the old timer finds nothing to do - the member never rejoins")

    # ---- R9 a partition consumer that fails is the group's business: its start Deferred carries the group's error handler, and
    # that handler takes every failure but a cancellation to the rejoin / stop decision
    r9 = ctx.rule("R9", "every partition consumer's start Deferred has the group's error handler, which funnels all but cancellations into the error decision", 2, "B+C")
    oce = ctx.func(GROUP + ".on_consumer_error")
    ojc = None
    for f_ in prog.functions(module="_group"):
        if any(isinstance(c.func, ast.Name) for c in calls_in(f_, "Consumer")):
            ojc = f_
    need(ojc is not None, "no Consumer(...) construction in _group.py")
    cjc = ctx.cfg(ojc)
    starts_ = [n for n in cjc.nodes if any(call_name(c) == "start" and c.args and norm(c.args[0]) == "OFFSET_COMMITTED" for c in n.calls())]
    regs_ = [cjc.containing(g["call"])[0].id for g in registrations(ojc, prog) if g["eb"] is not None and prog.resolve_callable(ojc, g["eb"]) is oce
             and cjc.containing(g["call"])]
    ok9 = bool(starts_) and bool(regs_)
    for s_ in starts_:
        if s_.id in regs_:
            continue  # consumer.start(...).addErrback(handler) in one statement
        loops9 = [t for t, lab in cjc.control_deps_transitive(s_.id) if t.kind == "for"]
        nxt = [t for t, lab in cjc.succ[s_.id] if lab != ("exc",) and t not in regs_]
        away = cjc.reach(nxt, avoid=regs_, follow_exc=False) | set(nxt)
        ok9 = ok9 and not any(l_.id in away for l_ in loops9) and (cjc.exit.id not in away)
    r9.check(ok9, "%s#every-consumer-start-watched" % ojc.qname, "a partition consumer is started and the next one is started (or the function ends) "
             "without the group's error handler on its start Deferred", where(ojc, starts_[0].stmt if starts_ else ojc.node),
             "two partitions of one topic: an error of the first consumer leads to no rejoin and does not surface on start(): that partition is never consumed again")
    co = ctx.cfg(oce)
    p9 = oce.first_param()
    al9 = {p9}
    for _ in range(2):
        for x in walk_body_shallow(oce.body):
            if isinstance(x, ast.Assign) and isinstance(x.value, ast.Name) and x.value.id in al9:
                al9 |= {t.id for t in x.targets if isinstance(t, ast.Name)}
    sink9 = [n.id for n in co.nodes if any(call_name(c) in ("rejoin_after_error", "stop") and call_recv(c) == "self" and any(
        isinstance(y, ast.Name) and y.id in al9 for a_ in list(c.args) + [k.value for k in c.keywords] for y in ast.walk(a_)) for c in n.calls())]
    from ..cfg import cond_atoms as _ca9
    cancelled9 = [t for n in co.nodes for t, lab in co.succ[n.id] if lab and lab[0] == "cond" and any(
        ("%s.check(CancelledError)" % a_, True) in _ca9(lab[1], lab[2]) for a_ in al9)]
    r9.check(bool(sink9) and not co.normal_exits_from(co.entry.id, avoid=sink9 + cancelled9), "%s#all-but-cancellations-decided" % oce.qname,
             "the group's consumer error handler can return without handing the failure to the error decision although it is not a cancellation",
             where(oce, oce.node), "a commit rejected with IllegalGeneration while a (longer) rejoin back-off is pending: the evicted generation's "
             "consumers keep processing and committing")

    # ---- R7 nobody but stop() cancels a group request in flight
    r = ctx.rule("R7", "a group request in flight (heartbeat, join exchange) is cancelled only after `_stopping` was raised", 1, "A+B")
    cci_ = prog.cls(COORD)
    req_attrs = set()
    for f_ in [x for x in prog.funcs.values() if x.cls is not None and cci_ in prog.mro(x.cls)]:
        for x in walk_body_shallow(f_.body):
            if isinstance(x, ast.Assign) and isinstance(x.value, ast.Call):
                g_ = prog.resolve_call(f_, x.value)
                if g_ is not None and g_.cls is not None and cci_ in prog.mro(g_.cls) and returns_deferred(prog, g_):
                    for t_ in x.targets:
                        if self_attr(t_):
                            req_attrs.add(self_attr(t_))
    r.info("request handles: %s" % sorted(req_attrs))
    n_sites = 0
    for f_ in sorted([x for x in prog.funcs.values() if x.cls is not None and cci_ in prog.mro(x.cls)], key=lambda x: x.qname):
        cff = ctx.cfg(f_)
        fff = ctx.facts(f_)
        for n in cff.nodes:
            for c in n.calls():
                if call_name(c) != "cancel" or not isinstance(c.func, ast.Attribute):
                    continue
                ogs = value_origins(cff, n.id, c.func.value, params=f_.params) or []
                attrs = {self_attr(e_) for _d, e_ in ogs if self_attr(e_)} | ({self_attr(c.func.value)} if self_attr(c.func.value) else set())
                hit = sorted(a for a in attrs if a in req_attrs)
                if not hit:
                    continue
                n_sites += 1
                raised = [m.id for m in cff.nodes if isinstance(node_assign_value(m, "_stopping"), ast.Constant) and node_assign_value(m, "_stopping").value is True]
                ok_ = ("self._stopping", True) in fff[n.id] or (bool(raised) and cff.dominates(raised, n.id))
                r.check(ok_, "%s#cancel(%s)-only-when-stopping" % (f_.qname, hit[0]),
                        "`%s` is cancelled without `_stopping` having been raised: the CancelledError it produces is not a Kafka error, the failure "
                        "handlers treat it as fatal unless the member is stopping" % hit[0], where(f_, c),
                        "a rejoin starts while a heartbeat is unanswered: the group member stops with CancelledError instead of rejoining")
    if n_sites == 0:
        r.ok("%s#no-cancel-of-request-handles" % COORD)

    # ---- R5 exits of the join routine
    r = ctx.rule("R5", "every early exit of the join routine is taken on a falsy step result or stopping", 4, "B+C")
    # results of protocol steps whose failure has already been funnelled (their chain ends in a terminal handler that
    # sinks and returns None): a falsy result means "a rejoin is scheduled"
    funnelled = {f.name for f, h, returned, root, role in terminals if returned}
    step_results = set()
    for x in walk_body_shallow(jas.body):
        if isinstance(x, ast.Assign) and isinstance(x.value, ast.Yield) and isinstance(x.value.value, ast.Call) and len(x.targets) == 1 and \
                isinstance(x.targets[0], ast.Name) and call_recv(x.value.value) == "self" and call_name(x.value.value) in funnelled:
            step_results.add(x.targets[0].id)

    def acceptable(test, pol):
        if isinstance(test, ast.UnaryOp) and isinstance(test.op, ast.Not):
            return acceptable(test.operand, not pol)
        if isinstance(test, ast.BoolOp):
            if (isinstance(test.op, ast.Or) and pol) or (isinstance(test.op, ast.And) and not pol):
                return all(acceptable(v, pol) for v in test.values)
            return any(acceptable(v, pol) for v in test.values)  # conjunction taken: one acceptable conjunct suffices
        if norm(test) == "self._stopping":
            return pol
        if isinstance(test, ast.Name) and test.id in step_results:
            return not pol
        if isinstance(test, ast.Compare) and len(test.ops) == 1 and isinstance(test.left, ast.Name) and test.left.id in step_results and \
                isinstance(test.comparators[0], ast.Constant) and test.comparators[0].value is None:
            return pol if isinstance(test.ops[0], (ast.Is, ast.Eq)) else (not pol)
        return False

    for n in cj.nodes:
        if n.kind == "stmt" and isinstance(n.stmt, ast.Return):
            deps = cj.control_deps(n.id)
            tests = [norm(t.stmt.test) for t, lab in deps if t.kind == "test"]
            ok = any(t.kind == "test" and lab and lab[0] == "cond" and acceptable(lab[1], lab[2]) for t, lab in deps)
            r.check(ok, "%s#early-exit[%s]" % (jas.qname, ";".join(tests)[:70]),
                    "join routine returns early under a condition that is neither a failed step (already funnelled) nor stopping",
                    where(jas, n.stmt), "member idle although started")
    comp = [n for n in cj.nodes if any(call_name(c) == "on_join_complete" for c in n.calls())]
    r.check(bool(comp) and bool(done) and comp[0].id in cj.reach([done[0].id]), "%s#completion-order" % jas.qname,
            "consumers are started before the member is marked stable", where(jas, jas.node))


MUTANTS = [
    {"id": "terminal-swallows-kafka", "file": "_group.py",
     "old": "            if result.check(KafkaError):\n                # e.g. the metadata load failed: retry like any other Kafka error\n                return self.rejoin_after_error(result, label=\"join_and_sync\")\n",
     "new": "", "expect": "C17.R1"},
    {"id": "heartbeat-failure-logged-only", "file": "_group.py",
     "old": "        return self.rejoin_after_error(failure, label=\"heartbeat\")", "new": "        log.error(\"heartbeat failed: %s\", failure)",
     "expect": "C17.R1"},
    {"id": "consumer-error-ignored", "file": "_group.py", "old": "        self.rejoin_after_error(result, label=\"consumer_error\")",
     "new": "        log.error(\"consumer error %s\", result)", "expect": "C17.R1"},
    {"id": "lookup-kafka-arm-no-retry", "file": "_group.py",
     "old": "            elif result.check(KafkaError):\n                log.warn(\"%s could not get coordinator broker: %s\", self, result.value)\n                retry_delay = self.fatal_backoff_ms\n",
     "new": "            elif result.check(KafkaError):\n                log.warn(\"%s could not get coordinator broker: %s\", self, result.value)\n                return\n",
     "expect": "C17.R1"},
    {"id": "rebalance-arm-returns", "file": "_group.py",
     "old": "            log.debug(\"%s %s: group rebalance needed, rejoining\", self, label)\n",
     "new": "            log.debug(\"%s %s: group rebalance needed, rejoining\", self, label)\n            return\n", "expect": ["C17.R2", "C17.R1"]},
    {"id": "rejoin-needed-not-set", "file": "_group.py", "old": "        self._state = \"[rejoin_needed]\"\n        self._rejoin_needed = True\n",
     "new": "        self._state = \"[rejoin_needed]\"\n", "expect": "C17.R2"},
    {"id": "timeout-short-backoff", "file": "_group.py",
     "old": "            self.client.reset_consumer_group_metadata(self.group_id)\n            rejoin_delay = self.fatal_backoff_ms\n",
     "new": "            self.client.reset_consumer_group_metadata(self.group_id)\n", "expect": "C17.R2"},
    {"id": "no-coordinator-no-retry", "file": "_group.py",
     "old": "            if not leader:\n                self.client.reactor.callLater(\n                    self.initial_backoff_ms / 1000.0,\n                    self.join_and_sync,\n                )\n                return",
     "new": "            if not leader:\n                return", "expect": "C17.R3"},
    {"id": "heartbeat-not-restarted", "file": "_group.py", "old": "        self.reset_heartbeat_timer()\n        self._rejoin_needed = False",
     "new": "        self._rejoin_needed = False", "expect": "C17.R4"},
    {"id": "cleanup-swallows", "file": "_group.py", "old": "            self._rejoin_d = None\n            return result\n",
     "new": "            self._rejoin_d = None\n", "expect": "C17.R1"},
    {"id": "timer-handle-reset-after-guards", "file": "_group.py",
     "edits": [("_group.py", "        if self._rejoin_wait_dc:\n            self._rejoin_wait_dc = None\n\n        if self._stopping:", "        if self._stopping:"),
               ("_group.py", "            log.debug(\"join_and_sync: rejoin in progress\")\n            return\n", "            log.debug(\"join_and_sync: rejoin in progress\")\n            return\n\n        self._rejoin_wait_dc = None\n")],
     "expect": "C17.R6", "note": "seeded C17-1"},
    {"id": "cleanup-on-success-only", "file": "_group.py", "old": "        d.addBoth(cleanup_rejoin_d).addErrback(rejoin_d_errback)",
     "new": "        d.addCallbacks(cleanup_rejoin_d, rejoin_d_errback)", "expect": "C17.R6", "note": "seeded C17-2"},
    {"id": "nonkafka-not-surfaced", "file": "_group.py",
     "old": "            self.on_group_leave()\n            self.stop(errback_result=result)\n            return\n",
     "new": "            self.on_group_leave()\n            return\n", "expect": ["C17.R1", "C17.R2"]},
]
TWINS = [
    {"id": "errback-added-separately", "file": "_group.py", "old": "        d.addBoth(cleanup_rejoin_d).addErrback(rejoin_d_errback)",
     "new": "        d.addBoth(cleanup_rejoin_d)\n        d.addErrback(rejoin_d_errback)"},
    {"id": "heartbeat-failure-order", "file": "_group.py",
     "old": "        self._heartbeat_request_d = None\n        self._heartbeat_looper.stop()\n        return self.rejoin_after_error(failure, label=\"heartbeat\")",
     "new": "        self._heartbeat_looper.stop()\n        self._heartbeat_request_d = None\n        return self.rejoin_after_error(failure, label=\"heartbeat\")"},
]

"""C03 - commits never run ahead of successfully processed messages.

Decided: the processed offset has one writer which runs only on processor
success with the offset of the block just processed; a failed block is
distinguishable on the way to the next invocation (so that progress cannot be
recorded past it); the commit request carries a snapshot that is also what is
recorded as committed; single commit in flight; the committed offset only
takes acknowledged or broker-reported values; resume = committed + 1; commits
carry generation and member id.  Not decided: crash points, broker's store.
"""
import ast

from ..cfg import known_falsy
from ..model import self_attr, unparse, walk_body_shallow
from .util import *  # noqa: F401,F403
from .util import (case_reach, at, result_stored, aliases_of, call_name, call_recv, calls_in, chains_in, handler_exits, kwarg, names_in, need,
                   node_assign_value, norm, registrations, where)

TECHNIQUE = "single-writer + success-only registration, failure distinguishability on CFG paths, snapshot def-use, " \
            "typestate on the commit handle"
EXPLANATION = (
    "Rules over afkak/consumer.py: writers of _last_processed_offset / _last_committed_offset and the registration "
    "kind (addCallback vs addBoth/addErrback) of the handlers that write them; def-use of the offset handed to the "
    "success handler (last element of the block passed to the processor); on every CFG path from the suspension on "
    "the processor's Deferred to the next invocation a test must mention something the failure outcome changes "
    "(the yielded value, or an attribute the failure handler fires/writes) unless the failure propagates to the "
    "yield; one read of the processed offset feeds both the commit request and the value later recorded; "
    "must-hold `_commit_req is None` at the send; resume position in the same arm as the committed value."
    ' Also: the on-success recorder stores the acknowledged offset on every path whatever was recorded before (R5).'
    " The feeder coroutine is also required to compare the start Deferred with the copy it took before the loop (the run it works for) on every path from an invocation to the wait for it and from that wait to the next invocation (a stop()+start() from inside the processor ends the run although `_start_d` is not None)."
)
SHARED = [('C05', ['R4'], 'a batch the client cannot decode (unknown compression) fails the fetch: it is not stepped over and committed past'),
          ('C13', ['R1'], 'stop() cancels a pending commit retry: a stopped consumer does not commit later'), ('C07', ['R5'], 'a commit reply that leaves the partition out is a failed commit, not an acknowledgement'), ('C14', ['R4'], 'the consumer leaves its position only for an out-of-range answer: no other error makes it jump, and later commit, past messages it never processed'), ('C09', ['R4'], 'a broker error on a commit surfaces as a failure (fail_on_error)'), ('C08', ['R3'], 'coordinator errors are handled, not swallowed'), ('C02', ['R6'], 'messages at or below the committed position are not redelivered after a restart'), ('C05', ['R5'], 'offsets of messages inside compressed wrappers are the log offsets: the committed offset is not ahead of what was processed')]
ASSUMPTIONS = [
    "Twisted: addCallback handlers run only on success; a failure absorbed by an errback resumes the generator normally",
    "the broker acknowledges a commit iff the response error code is 0 (client.send_offset_commit_request raises otherwise)",
]
CONS = "consumer:Consumer"


def run(ctx):
    prog = ctx.prog
    ci = prog.cls(CONS)

    # the feeder (shared with C02.R1)
    from .c02 import _feeder
    _, users = _feeder(ctx)
    inv = []
    for q, lst in users.items():
        for f, node in lst:
            for n in walk_body_shallow(f.body):
                if isinstance(n, ast.Call) and (n.func is node or any(a is node for a in n.args)):
                    inv.append((f, n))
    need(inv, "no processor invocation")
    inv.sort(key=lambda fc: (call_name(fc[1]) != "maybeDeferred", fc[0].qname))
    feeder, inv_call = inv[0]
    cf = ctx.cfg(feeder)
    inv_node = cf.containing(inv_call)[0]
    bound = set()
    if isinstance(inv_node.stmt, ast.Assign):
        bound = {unparse(t) for t in inv_node.stmt.targets}
    block_arg = inv_call.args[-1] if inv_call.args else None

    # ---- R1 processed offset: one writer, success only, offset of the block processed
    r = ctx.rule("R1", "processed offset: single writer, registered on-success only, with the block's last offset", 3,
                 "A+C")
    writers = sorted({f.qname for f, k, n in prog.attr_accesses(ci, "_last_processed_offset", False)
                      if k in ("write", "aug", "del") and f.name != "__init__"})
    r.check(len(writers) == 1, "%s#writers(_last_processed_offset)" % CONS,
            "_last_processed_offset has writers %s; exactly one success handler is required" % writers, facts=writers)
    need(writers, "no writer of _last_processed_offset")
    upo = prog.func(writers[0])
    regs_all = []
    for f in prog.functions(module="consumer", cls="Consumer"):
        for reg in registrations(f, prog):
            for side, h in (("cb", reg["cb"]), ("eb", reg["eb"])):
                if h is not None and prog.resolve_callable(f, h) is upo:
                    regs_all.append((f, reg, side))
    bad = [(f.qname, reg["kind"]) for f, reg, side in regs_all if side == "eb"]
    good_regs = [(f, reg) for f, reg, side in regs_all if side == "cb" and reg["kind"] in ("cb", "cbs")]
    def _on_invocation(reg):
        # the chain the handler is registered on is the Deferred of the processor invocation (named by any local or
        # attribute that holds it)
        if reg["root"] in bound:
            return True
        ns_ = cf.containing(reg["call"])
        og_ = deferred_origins(cf, ns_[0].id, reg["root_node"]) if ns_ else None
        return bool(og_) and all(o is inv_call for o in og_)
    r.check(not bad and len(good_regs) == 1 and good_regs[0][0] is feeder and _on_invocation(good_regs[0][1]),
            "%s#registration" % upo.qname,
            "the writer of the processed offset is not registered exactly once, on-success only, on the Deferred of "
            "the processor invocation (found %s)" % [(f.qname, reg["kind"], side) for f, reg, side in regs_all],
            where(feeder, inv_call), "a failed block advances the processed offset; the next commit skips it")
    if good_regs:
        call = good_regs[0][1]["call"]
        extra = call.args[1] if len(call.args) > 1 else None
        ok = False
        if isinstance(extra, ast.Name) and block_arg is not None:
            defs = [x for x in walk_body_shallow(feeder.body) if isinstance(x, ast.Assign) and any(
                unparse(t) == extra.id for t in x.targets)]
            ok = len(defs) == 1 and norm(defs[0].value) == "%s[-1].offset" % unparse(block_arg)
        elif extra is not None and block_arg is not None:
            ok = norm(extra) == "%s[-1].offset" % unparse(block_arg)
        r.check(ok, "%s#offset-argument" % feeder.qname,
                "the offset recorded on success is not the offset of the last message of the block handed to the "
                "processor", where(feeder, call), "progress recorded beyond what was processed")
        # the writer stores its argument
        wnodes = [n for f, k, n in prog.attr_accesses(ci, "_last_processed_offset", False) if f is upo and k == "write"]
        r.check(all(isinstance(n, ast.Assign) and isinstance(n.value, ast.Name) and n.value.id in upo.params
                    for n in wnodes), "%s#stores-argument" % upo.qname,
                "the success handler does not store the offset it was given", where(upo, upo.node))

    # ---- R2 a failed block is distinguishable before the next invocation
    r = ctx.rule("R2", "no path from a failed block's suspension to the next invocation without testing the failure "
                       "outcome", 1, "B+C")
    regs = [g for g in registrations(feeder, prog) if g["root"] in bound]
    # final failure handler of the chain
    absorbs = False
    established = set()
    last_eb = None
    for g in regs:
        if g["eb"] is not None:
            last_eb = g
    if last_eb is not None:
        h = prog.resolve_callable(feeder, last_eb["eb"])
        if h is not None and last_eb["kind"] in ("eb", "cbs"):
            ex = handler_exits(h)
            p = h.first_param()
            raises = any(isinstance(x, ast.Raise) for x in walk_body_shallow(h.body))
            absorbs = not raises and all(k != "input" for k, _ in ex)
            for x in walk_body_shallow(h.body):
                if isinstance(x, ast.Call) and call_name(x) in ("errback", "callback") and (call_recv(x) or "").startswith("self."):
                    established.add(call_recv(x) + ".called")
            for a in prog.direct_writes(h):
                established.add("self." + a)
    susp = [n for n in cf.nodes if n.suspends and any(isinstance(x, ast.Yield) and x.value is not None and unparse(
        x.value) in bound for x in n.walk())]
    need(susp, "no suspension on the processor Deferred in %s" % feeder.qname)
    s = susp[0]
    yield_vars = set()
    if isinstance(s.stmt, ast.Assign):
        yield_vars = {unparse(t) for t in s.stmt.targets}
    # nodes on some path s -> inv_node
    fwd = cf.reach([s.id], avoid=[inv_node.id])  # between the suspension and the next invocation
    distinguishing = []
    for n in cf.nodes:
        if n.kind == "test" and n.id in fwd:
            ch = set(chains_in(n.stmt.test))
            # through locals: a copy of an attribute taken earlier (`start_d = self._start_d` ... `start_d.called`) and a
            # boolean computed for this test (`same_run = self._start_d is start_d`)
            for y in [y for y in ast.walk(n.stmt.test) if isinstance(y, ast.Name)]:
                dy_ = reaching_defs(cf, n.id, y.id)
                vals_ = [cf.nodes[d_].stmt.value for d_ in (dy_ or []) if isinstance(cf.nodes[d_].stmt, ast.Assign) and len(cf.nodes[d_].stmt.targets) == 1]
                if dy_ and len(vals_) == len(dy_):
                    for v_ in vals_:
                        if isinstance(v_, ast.Attribute):
                            ch |= {c_.replace(y.id, norm(v_), 1) for c_ in ch if c_ == y.id or c_.startswith(y.id + ".")}
                        elif isinstance(v_, (ast.Compare, ast.BoolOp, ast.UnaryOp)):
                            ch |= set(chains_in(v_))
            if ch & (established | yield_vars):
                # one outcome of the test must leave the loop (not reach the invocation again)
                outs = [t for t, lab in cf.succ[n.id] if lab and lab[0] == "cond"]
                if any(inv_node.id not in (cf.reach([t], follow_exc=False) | {t}) for t in outs):
                    distinguishing.append(n.id)
    reaches_unchecked = inv_node.id in cf.reach([s.id], avoid=distinguishing, follow_exc=False)
    # the loop-leaving outcome must not release the block (else the next fetch reply is fed to the processor)
    releases = []
    for tid in distinguishing:
        for t, lab in cf.succ[tid]:
            if lab and lab[0] == "cond" and inv_node.id not in (cf.reach([t], follow_exc=False) | {t}):
                for i in cf.reach([t], follow_exc=False) | {t}:
                    m = cf.nodes[i]
                    if m.stmt is not None and (node_assign_value(m, "_msg_block_d") is not None or any(
                            call_name(c) == "callback" and "_msg_block_d" in (call_recv(c) or "") for c in m.calls())):
                        releases.append(m)
    ok = (not absorbs) or not reaches_unchecked
    r.check(ok, "%s#after-yield->next-invocation" % feeder.qname,
            "the chain's failure handler absorbs the failure (yield resumes normally) and a path leads back to the "
            "next processor invocation without testing anything the failure changes (%s)" % sorted(established),
            where(feeder, s.stmt),
            "block k fails, block k+1 succeeds: processed offset and the count-triggered commit pass block k",
            facts=["failure handler absorbs=%s" % absorbs, "established=%s" % sorted(established),
                   "distinguishing tests=%d" % len(distinguishing)])

    # stop() cancels the pending block and thereby *resumes* the feeder (its failure handler swallows the stop-induced
    # CancelledError) before stop() has cleared anything but the flag: with `_stopping` set, no path may lead from the
    # suspension back to a processor invocation
    after = [t for t, lab in cf.succ[s.id] if lab != ("exc",)]
    again = case_reach(cf, None, "CancelledError", {"CancelledError": {"CancelledError", "Exception"}}, True, {inv_node.id}, start=after)
    r.check(not again, "%s#no-invocation-once-stopping" % feeder.qname,
            "stop() cancels the block in progress; the feeder resumes and, because nothing between the suspension and the next "
            "invocation looks at `_stopping`, hands the next block to the processor from inside stop()", where(feeder, s.stmt),
            "auto_commit_every_n=2, batch 0..5, block [0,1] pending: stop() makes the processor run on [2,3]; if it completes "
            "synchronously the processed offset becomes 3 and the next commit covers the cancelled block")

    # stop() may be followed by start() before the feeder looks again (the processor, or a callback on the start Deferred,
    # restarts the consumer): "stopped" is therefore recognised by comparing the start Deferred with the one the feeder
    # began under - between an invocation and the wait for it, and between that wait and the next invocation
    def _is_run_copy(at_id_, loc_):
        defs_ = reaching_defs(cf, at_id_, loc_.id)
        return bool(defs_) and all(isinstance(cf.nodes[d_].stmt, ast.Assign) and norm(cf.nodes[d_].stmt.value) == "self._start_d"
                                   and d_ not in cf.reach([inv_node.id], follow_exc=False) for d_ in defs_)

    def _compares_run(at_id_, e_, is_copy):
        for x in ast.walk(e_):
            if isinstance(x, ast.Compare) and len(x.ops) == 1 and isinstance(x.ops[0], (ast.Is, ast.IsNot, ast.Eq, ast.NotEq)):
                a_, b_ = x.left, x.comparators[0]
                for cur_, loc_ in ((a_, b_), (b_, a_)):
                    if norm(cur_) == "self._start_d" and isinstance(loc_, ast.Name) and is_copy(at_id_, loc_):
                        return True
            # a predicate method given the run's Deferred: `self._run_over(start_d)` comparing its parameter with the attribute
            if isinstance(x, ast.Call):
                g_ = prog.resolve_call(feeder, x)
                if g_ is not None and g_.cls is feeder.cls:
                    ps_ = [p_ for p_ in g_.params if p_ not in ("self", "cls")]
                    for i_, a_ in enumerate(x.args):
                        if isinstance(a_, ast.Name) and i_ < len(ps_) and is_copy(at_id_, a_):
                            if not any(isinstance(w_, (ast.Assign, ast.AugAssign)) and ps_[i_] in names_in(w_.targets[0] if isinstance(w_, ast.Assign) else w_.target)
                                       for w_ in walk_body_shallow(g_.body)) and _compares_run(None, g_.node, lambda _i, l_, p_=ps_[i_]: l_.id == p_):
                                return True
        return False

    def _run_tests():
        out_ = []
        for n in cf.nodes:
            if n.kind != "test":
                continue
            # the test itself, and a boolean local it reads that was computed for it since the invocation (`same_run = ... is ...`;
            # constants on the other arms: the flag form of an inlined predicate)
            if _compares_run(n.id, n.stmt.test, _is_run_copy):
                out_.append(n.id)
                continue
            for y in ast.walk(n.stmt.test):
                if isinstance(y, ast.Name):
                    dy_ = reaching_defs(cf, n.id, y.id)
                    if not dy_ or not all(isinstance(cf.nodes[d_].stmt, ast.Assign) and d_ in cf.reach([s.id] + [inv_node.id], follow_exc=False) for d_ in dy_):
                        continue
                    vals_ = [(d_, cf.nodes[d_].stmt.value) for d_ in dy_]
                    if all(isinstance(v_, ast.Constant) or _compares_run(d_, v_, _is_run_copy) for d_, v_ in vals_) and any(not isinstance(v_, ast.Constant) for d_, v_ in vals_):
                        out_.append(n.id)
                        break
        return out_
    rt_ = _run_tests()
    after_inv = [t for t, lab in cf.succ[inv_node.id] if lab != ("exc",)]
    src1_ = [t for t in after_inv if t not in rt_]
    src2_ = [t for t in after if t not in rt_]
    ok_run = bool(rt_) and s.id not in (cf.reach(src1_, avoid=rt_, follow_exc=False) | set(src1_)) and \
        inv_node.id not in (cf.reach(src2_, avoid=rt_, follow_exc=False) | set(src2_))
    r.check(ok_run, "%s#run-identity-checked" % feeder.qname, "the feeder does not compare the start Deferred with the one it began under (before "
            "the loop) on every path from an invocation to the wait for it and from that wait to the next invocation", where(feeder, s.stmt),
            "the processor stops the consumer and starts it again at once: the remaining blocks of the old reply are handed to the processor "
            "after the restart, and the new run's first reply while that invocation is still pending")
    r.check(absorbs is False or not releases, "%s#failure-exit-keeps-block" % feeder.qname,
            "after a failed block the feeder still signals block completion (%s): the next fetch reply is fed to the "
            "processor and progress passes the failed block" % [m.text(50) for m in releases[:2]], where(feeder, s.stmt),
            "block k fails; parked or next reply delivers k+1..; commit passes k")

    if last_eb is not None and prog.resolve_callable(feeder, last_eb["eb"]) is not None:
        from .util import reports_unless_stop_induced
        reports_unless_stop_induced(ctx, r, prog.resolve_callable(feeder, last_eb["eb"]),
                                    lambda c: call_name(c) == "errback" and call_recv(c) == "self._start_d", "processor failure handler")

    # ---- R3 commit value snapshot
    r = ctx.rule("R3", "one read of the processed offset feeds the commit request and the recorded committed value", 2,
                 "A")
    scr = None
    for f in prog.functions(module="consumer", cls="Consumer"):
        if calls_in(f, "send_offset_commit_request"):
            need(scr is None, "commit sender called from more than one function")
            scr = f
    need(scr is not None, "no call of send_offset_commit_request")
    ctx.functions_consulted.add(scr.qname)
    ocr = [c for c in calls_in(scr, "OffsetCommitRequest")]
    need(len(ocr) == 1, "OffsetCommitRequest construction not found once")
    offarg = kwarg(ocr[0], "offset", 2)
    snap_ok = False
    V = None
    if isinstance(offarg, ast.Name):
        V = offarg.id
        # every value the offset can have when the request is built is a read of _last_processed_offset made in this very
        # call (not something handed in by the caller - a retry must commit what is processed *now*)
        cscr = ctx.cfg(scr)
        og_ = value_origins(cscr, cscr.containing(ocr[0])[0].id, offarg, params=scr.params)
        reads_ = [n_ for n_, e_ in (og_ or []) if norm(e_) == "self._last_processed_offset"]
        snap_ok = bool(og_) and len(reads_) == len(og_) and len(set(reads_)) == 1
    r.check(snap_ok, "%s#snapshot" % scr.qname, "commit request offset is not a single snapshot of _last_processed_offset",
            where(scr, ocr[0]), "value sent and value recorded can differ")
    sends = calls_in(scr, "send_offset_commit_request")
    def _carries_request(n_id, a, depth=0):
        # the argument is (a list holding) the constructed request, through locals
        if ocr[0] in ast.walk(a):
            return True
        if depth > 3:
            return False
        if isinstance(a, (ast.List, ast.Tuple)):
            return any(_carries_request(n_id, e, depth + 1) for e in a.elts)
        if isinstance(a, ast.Name):
            return any(e is not a and _carries_request(dn, e, depth + 1) for dn, e in (value_origins(ctx.cfg(scr), n_id, a, params=scr.params) or []))
        return False
    r.check(any(_carries_request(ctx.cfg(scr).containing(c)[0].id, a) for c in sends for a in c.args), "%s#request-sent" % scr.qname,
            "the constructed OffsetCommitRequest is not what is sent", where(scr, sends[0]))

    # ---- R4 single commit in flight
    r = ctx.rule("R4", "commit send guarded by `_commit_req is None`; handle cleared by an on-both stage", 2, "B")
    cs = ctx.cfg(scr)
    fsr = ctx.facts(scr)
    for n in cs.nodes:
        if any(call_name(c) == "send_offset_commit_request" for c in n.calls()):
            v = result_stored(cs, n, [c for c in n.calls() if call_name(c) == "send_offset_commit_request"][0], "_commit_req") or None
            r.check(v is not None and known_falsy(fsr[n.id], "self._commit_req"), "%s#send-guard" % scr.qname,
                    "commit sent without `_commit_req` being None (or not stored in it)", where(scr, n.stmt),
                    "two commit requests in flight; the older acknowledgement can overwrite the newer value")
    al = aliases_of(scr, "self._commit_req")
    regs = [g for g in registrations(scr, prog) if g["root"] in al]
    clr = [g for g in regs if g["cb"] is not None and prog.resolve_callable(scr, g["cb"]) is not None and
           "_commit_req" in prog.direct_writes(prog.resolve_callable(scr, g["cb"]))]
    r.check(len(clr) == 1 and clr[0]["kind"] == "both", "%s#clear-on-both" % scr.qname,
            "_commit_req is not cleared by an on-both stage of the request", where(scr, scr.node),
            "a failed commit wedges all later commits")

    # ---- R5 committed offset takes acknowledged / reported values only
    r = ctx.rule("R5", "writers of the committed offset: on-success handler of the commit (snapshot) and the "
                       "offset-fetch reply arm", 4, "A+C")
    wr = [(f, n) for f, k, n in prog.attr_accesses(ci, "_last_committed_offset", False) if k in ("write", "aug", "del")
          and f.name != "__init__"]
    wfuncs = sorted({f.qname for f, n in wr})
    uco = None
    for f, n in wr:
        if f.qname != CONS + "._handle_offset_response":
            uco = f
    need(uco is not None, "no commit-success writer of _last_committed_offset")
    r.check(set(wfuncs) <= {uco.qname, CONS + "._handle_offset_response"} and len(wfuncs) == 2,
            "%s#writers(_last_committed_offset)" % CONS, "_last_committed_offset written in %s" % wfuncs, facts=wfuncs)
    ok = False
    for g in regs:
        if g["cb"] is not None and prog.resolve_callable(scr, g["cb"]) is uco:
            args = kwarg(g["call"], "callbackArgs")
            extra = [unparse(e) for e in args.elts] if isinstance(args, (ast.Tuple, ast.List)) else [
                unparse(a) for a in g["call"].args[1:]] if g["kind"] == "cb" else []
            eb_is_other = g["eb"] is None or prog.resolve_callable(scr, g["eb"]) is not uco
            ok = g["kind"] in ("cb", "cbs") and extra[:1] == [V] and eb_is_other
    also_eb = any(g["eb"] is not None and prog.resolve_callable(scr, g["eb"]) is uco for g in regs)
    r.check(ok and not also_eb, "%s#registration" % uco.qname,
            "the recorder of the committed offset is not an on-success handler of the commit request carrying the "
            "snapshot %r" % V, where(scr, scr.node), "a failed or unacknowledged commit is recorded as committed")
    # the recorder stores the acknowledged value on every path, whatever was recorded before (a consumer that is rewound -
    # stopped and started at an earlier offset - commits a smaller offset than the one recorded)
    cu = ctx.cfg(uco)
    offp = uco.params[2] if len(uco.params) > 2 else None
    wn = [n for n in cu.nodes if node_assign_value(n, "_last_committed_offset") is not None]
    okw = bool(wn) and offp is not None
    whyw = "no store of the acknowledged offset"
    if okw:
        for n in wn:
            og_ = value_origins(cu, n.id, node_assign_value(n, "_last_committed_offset"), params=uco.params) or []
            if not og_ or not all(isinstance(e_, ast.Name) and e_.id == offp and d_ == cu.entry.id for d_, e_ in og_):
                okw, whyw = False, "the value stored is `%s`, not the acknowledged offset `%s`" % (norm(node_assign_value(n, "_last_committed_offset")), offp)
        if okw and cu.normal_exits_from(cu.entry.id, avoid=[n.id for n in wn]):
            deps_ = sorted({norm(t.stmt.test) for n in wn for t, lab in cu.control_deps_transitive(n.id) if t.kind == "test"})
            okw, whyw = False, "the acknowledged offset is recorded only under %s" % deps_
    r.check(okw, "%s#records-acknowledged-value" % uco.qname, whyw, where(uco, wn[0].stmt if wn else uco.node),
            "rewind and commit a smaller offset: the recorded value stays ahead of what the broker holds; later commits are "
            "skipped as up to date and a successor resumes from the wrong place")
    hor = ctx.func(CONS + "._handle_offset_response")
    ch = ctx.cfg(hor)
    fh = ctx.facts(hor)
    for n in ch.nodes:
        v = node_assign_value(n, "_last_committed_offset")
        if v is not None:
            v = at(ctx, hor, n.id, v)  # a local that names `<reply>.offset` is resolved flow-sensitively
            resp = unparse(v.value) if isinstance(v, ast.Attribute) and v.attr == "offset" else None
            ok = resp is not None and ("%s.offset == OFFSET_NOT_COMMITTED" % resp, False) in fh[n.id]
            deps = sorted({norm(at(ctx, hor, t.id, t.stmt.test)) for t, lab in ch.control_deps_transitive(n.id) if t.kind == "test"})
            allowed = {"%s.offset == OFFSET_NOT_COMMITTED" % resp, "%s.offset != OFFSET_NOT_COMMITTED" % resp,
                       "OFFSET_NOT_COMMITTED == %s.offset" % resp, "OFFSET_NOT_COMMITTED != %s.offset" % resp}
            extra = [d for d in deps if d not in allowed and not (d[4:] if d.startswith("not ") else d).startswith("hasattr(")]
            ok = ok and not extra
            r.check(ok, "%s#reported-value" % hor.qname,
                    "committed offset is not recorded for exactly the replies whose offset is not the not-committed marker "
                    "(extra conditions: %s)" % (extra if resp else "?"), where(hor, n.stmt),
                    "a committed offset of 0 is treated as `nothing committed`: the consumer restarts from the earliest (message 0 "
                    "redelivered) or latest (messages skipped) position")
            # ---- R6 in the same arm
            r6 = ctx.rule("R6", "resume position = reported committed offset + 1", 1, "A")
            sib = [m for m in ch.nodes if node_assign_value(m, "_fetch_offset") is not None and (
                any(s == n.id and lab is None for s, lab in ch.succ[m.id]) or any(
                    s == m.id and lab is None for s, lab in ch.succ[n.id]))]
            r6.check(len(sib) == 1 and set(provenance_texts(ctx, hor, sib[0], node_assign_value(sib[0], "_fetch_offset"))) <= {
                "%s.offset + 1" % resp, "1 + %s.offset" % resp}, "%s#resume" % hor.qname,
                "fetch position after an offset-fetch reply is not committed + 1", where(hor, n.stmt),
                "committed message redelivered (+0) or one message skipped (+2)")

    # ---- R7 commit carries generation / member
    r = ctx.rule("R7", "commit request carries the consumer's group, generation id and member id", 1, "A")
    c = sends[0]
    cs7 = ctx.cfg(scr)
    n7 = cs7.containing(c)

    def _a7(e):
        # through locals copied from the attribute just before (`group = self.consumer_group`)
        return norm(at(ctx, scr, n7[0].id, e)) if (n7 and e is not None) else norm(e or ast.Constant(value=None))
    g0 = c.args[0] if c.args else kwarg(c, "group")
    ok = (g0 is not None and _a7(g0) == "self.consumer_group"
          and _a7(kwarg(c, "group_generation_id")) == "self.commit_generation_id"
          and _a7(kwarg(c, "consumer_id")) == "self.commit_consumer_id")
    r.check(ok, "%s#generation-member" % scr.qname, "commit does not carry group / generation id / member id of this consumer",
            where(scr, c), "a member of a stale generation overwrites the group's offsets unfenced")


MUTANTS = [
    {"id": "feeder-takes-a-new-run-for-its-own", "file": "consumer.py",
     "edits": [("consumer.py", "            if self._stopping or start_d is None or self._start_d is not start_d:\n", "            if self._stopping or self._start_d is None:\n"),
               ("consumer.py", "                if self._stopping or self._start_d is not start_d or start_d.called:\n", "                if self._stopping or self._start_d is None or self._start_d.called:\n")],
     "expect": "C03.R2", "note": "finding F46"},
    {"id": "feeder-run-checked-only-after-the-wait", "file": "consumer.py",
     "old": "            if self._stopping or start_d is None or self._start_d is not start_d:\n", "new": "            if self._stopping or self._start_d is None:\n",
     "expect": "C03.R2", "note": "finding F46: the processor restarts the consumer and returns a pending Deferred"},
    {"id": "feeder-run-captured-inside-the-loop", "file": "consumer.py",
     "edits": [("consumer.py", "        start_d = self._start_d\n\n        while proc_block_begin", "        while proc_block_begin"),
               ("consumer.py", "            msgs_to_proc = messages[proc_block_begin:proc_block_end]\n", "            msgs_to_proc = messages[proc_block_begin:proc_block_end]\n            start_d = self._start_d\n")],
     "expect": "C03.R2", "note": "finding F46: captured per block, the restart made while the previous block was awaited is the run compared with"},
    {"id": "feeder-ignores-stopping", "file": "consumer.py", "old": "                if self._stopping or self._start_d is not start_d or start_d.called:",
     "new": "                if self._start_d is not start_d or start_d.called:", "expect": "C03.R2", "note": "finding F16"},
    {"id": "update-on-both", "file": "consumer.py", "old": "d.addCallback(self._update_processed_offset, last_offset)",
     "new": "d.addBoth(self._update_processed_offset, last_offset)", "expect": "C03.R1"},
    {"id": "offset-of-whole-fetch", "file": "consumer.py", "old": "last_offset = msgs_to_proc[-1].offset",
     "new": "last_offset = messages[-1].offset", "expect": "C03.R1"},
    {"id": "no-failure-check-after-yield", "file": "consumer.py",
     "old": "                if self._stopping or self._start_d is not start_d or start_d.called:\n", "new": "                if False:\n",
     "expect": "C03.R2"},
    {"id": "commit-rereads-offset", "file": "consumer.py", "old": "            callbackArgs=(commit_offset,),",
     "new": "            callbackArgs=(self._last_processed_offset,),", "expect": "C03.R5"},
    {"id": "commit-unguarded", "file": "consumer.py",
     "old": "        if self._commit_req is not None:\n            raise OperationInProgress(self._commit_req)\n", "new": "",
     "expect": "C03.R4"},
    {"id": "clear-on-success-only", "file": "consumer.py", "old": "d.addBoth(self._clear_commit_req)",
     "new": "d.addCallback(self._clear_commit_req)", "expect": "C03.R4"},
    {"id": "committed-on-error-too", "file": "consumer.py",
     "old": "            errback=self._handle_commit_error,\n            errbackArgs=(commit_offset, retry_delay, attempt),",
     "new": "            errback=self._update_committed_offset,\n            errbackArgs=(commit_offset,),", "expect": "C03.R5"},
    {"id": "resume-at-committed", "file": "consumer.py", "old": "self._fetch_offset = response.offset + 1",
     "new": "self._fetch_offset = response.offset", "expect": "C03.R6"},
    {"id": "committed-zero-is-falsy", "file": "consumer.py",
     "old": "            if response.offset == OFFSET_NOT_COMMITTED:\n                if self.auto_offset_reset == OFFSET_LATEST:\n                    self._fetch_offset = OFFSET_LATEST\n                else:\n                    self._fetch_offset = OFFSET_EARLIEST\n            else:\n                self._fetch_offset = response.offset + 1\n                self._last_committed_offset = response.offset",
     "new": "            if response.offset and response.offset != OFFSET_NOT_COMMITTED:\n                self._fetch_offset = response.offset + 1\n                self._last_committed_offset = response.offset\n            elif self.auto_offset_reset == OFFSET_LATEST:\n                self._fetch_offset = OFFSET_LATEST\n            else:\n                self._fetch_offset = OFFSET_EARLIEST",
     "expect": "C03.R5", "note": "seeded C03-2"},
    {"id": "processor-cancel-swallowed-when-running", "file": "consumer.py",
     "old": "        if not (self._stopping and failure.check(CancelledError)):\n",
     "new": "        if not (self._stopping or failure.check(CancelledError)):\n", "expect": "C03.R2", "note": "seeded C03-3"},
    {"id": "no-generation", "file": "consumer.py", "old": "            group_generation_id=self.commit_generation_id,\n", "new": "",
     "expect": "C03.R7"},
    {"id": "second-writer", "file": "consumer.py", "old": "        self._processor_d = None  # It has fired, we can clear it\n",
     "new": "        self._processor_d = None  # It has fired, we can clear it\n        self._last_processed_offset = self._fetch_offset - 1\n",
     "expect": "C03.R1"},
]
MUTANTS.append({"id": "failure-exit-breaks", "file": "consumer.py",
                "old": "                    # commit progress past an unprocessed block.\n                    return\n",
                "new": "                    # commit progress past an unprocessed block.\n                    break\n",
                "expect": "C03.R2"})
TWINS = [
    {"id": "feeder-run-compared-with-equality", "file": "consumer.py",
     "edits": [("consumer.py", "            if self._stopping or start_d is None or self._start_d is not start_d:\n", "            if self._stopping or start_d is None or start_d != self._start_d:\n"),
               ("consumer.py", "                if self._stopping or self._start_d is not start_d or start_d.called:\n", "                same_run = self._start_d is start_d\n                if self._stopping or not same_run or start_d.called:\n")],
     "note": "the comparison written the other way round / through a local"},
    {"id": "check-yield-result-form", "file": "consumer.py",
     "old": "                if self._stopping or self._start_d is not start_d or start_d.called:\n",
     "new": "                if self._stopping or start_d is not self._start_d or start_d.called:\n"},
]

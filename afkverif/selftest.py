"""Two-sided self-test of a property's rules on scratch copies of the analysed
tree (thorough tier).  Mutants are single realistic breaks that still compile;
each must make the named rule report.  Twins are behaviour-preserving rewrites
that must stay silent.  The result is recorded in evidence; it never turns a
clean tree into exit 1.  Scratch copies live under $TMPDIR and are removed.
"""
import ast
import os
import shutil
import tempfile
from concurrent.futures import ProcessPoolExecutor

from . import report
from .model import AnalysisError, Program


def _copy_tree(root, dst):
    os.makedirs(os.path.join(dst, "afkak"))
    src = os.path.join(root, "afkak")
    for f in os.listdir(src):
        if f.endswith(".py"):
            shutil.copy(os.path.join(src, f), os.path.join(dst, "afkak", f))


def _apply(dst, spec):
    """Apply one or more (file, old, new) edits; return None if inapplicable."""
    edits = spec.get("edits") or [(spec["file"], spec["old"], spec["new"])]
    for f, old, new in edits:
        p = os.path.join(dst, "afkak", f)
        with open(p) as fh:
            s = fh.read()
        if s.count(old) != 1:
            return "inapplicable: %s matches %d times in %s" % (repr(old[:40]), s.count(old), f)
        s = s.replace(old, new)
        try:
            ast.parse(s)
        except SyntaxError as e:
            return "inapplicable: edit does not parse (%s)" % e
        with open(p, "w") as fh:
            fh.write(s)
    return None


def _one(args):
    prop_id, root, spec, base_keys = args
    from .check import run_rules

    d = tempfile.mkdtemp(prefix="afkverif-", dir=os.environ.get("TMPDIR") or None)
    try:
        _copy_tree(root, d)
        err = _apply(d, spec)
        if err:
            return {"id": spec["id"], "status": err}
        try:
            ctx, _ = run_rules(prop_id, Program(d), "quick")
        except AnalysisError as e:
            return {"id": spec["id"], "status": "analysis-error", "reports": ["ANALYSIS-ERROR %s" % e]}
        new = [(i.rule, i.construct) for i in ctx.failures() if (i.rule, i.construct) not in base_keys]
        under = [r.rid for r in ctx.undercounted()]
        return {"id": spec["id"], "status": "ran", "reports": ["%s %s" % k for k in new],
                "rules": sorted({k[0] for k in new}), "undercounted": under}
    finally:
        shutil.rmtree(d, ignore_errors=True)


def _benign_one(args):
    prop_id, root, kind, base_keys = args
    from .benign import transform
    from .check import run_rules

    d = tempfile.mkdtemp(prefix="afkverif-", dir=os.environ.get("TMPDIR") or None)
    try:
        os.makedirs(os.path.join(d, "afkak"))
        src = os.path.join(root, "afkak")
        for f in os.listdir(src):
            if f.endswith(".py"):
                with open(os.path.join(src, f)) as fh:
                    text = fh.read()
                with open(os.path.join(d, "afkak", f), "w") as fh:
                    fh.write(transform(text, kind))
        try:
            ctx, _ = run_rules(prop_id, Program(d), "quick")
        except AnalysisError as e:
            return {"kind": kind, "silent": False, "reports": ["ANALYSIS-ERROR %s" % e]}
        new = ["%s %s" % (i.rule, i.construct) for i in ctx.failures() if (i.rule, i.construct) not in base_keys]
        under = [r.rid for r in ctx.undercounted()]
        return {"kind": kind, "silent": not new and not under, "reports": new + under}
    except SyntaxError as e:  # the tree itself does not parse: nothing to compare
        return {"kind": kind, "silent": True, "reports": ["skipped: %s" % e]}
    finally:
        shutil.rmtree(d, ignore_errors=True)


VERIF = os.path.dirname(os.path.dirname(os.path.abspath(__file__)))


def _patch_one(args):
    """apply a unified diff (a filed sub-agent refactoring or seeded change) to a scratch copy and run the rules"""
    prop_id, root, pid, patch, base_keys = args
    import subprocess

    from .check import run_rules

    d = tempfile.mkdtemp(prefix="afkverif-", dir=os.environ.get("TMPDIR") or None)
    try:
        _copy_tree(root, d)
        p = subprocess.run(["patch", "-s", "-p1", "-d", d, "-i", patch], capture_output=True, text=True)
        if p.returncode != 0:
            return {"id": pid, "status": "inapplicable"}
        try:
            ctx, _ = run_rules(prop_id, Program(d), "quick")
        except AnalysisError as e:
            return {"id": pid, "status": "analysis-error", "reports": ["ANALYSIS-ERROR %s" % e]}
        new = ["%s %s" % (i.rule, i.construct) for i in ctx.failures() if (i.rule, i.construct) not in base_keys]
        under = [r.rid for r in ctx.undercounted()]
        return {"id": pid, "status": "ran", "reports": new + under}
    finally:
        shutil.rmtree(d, ignore_errors=True)


def _corpora(prop_id):
    import json

    ref, seeds = [], []
    bdir = os.path.join(VERIF, "benign")
    if os.path.isdir(bdir):
        for x in sorted(os.listdir(bdir)):
            pth = os.path.join(bdir, x, "patch.diff")
            if os.path.isfile(pth):
                ref.append((x, pth))
    sdir = os.path.join(VERIF, "seeded")
    if os.path.isdir(sdir):
        for x in sorted(os.listdir(sdir)):
            mp = os.path.join(sdir, x, "meta.json")
            if not os.path.isfile(mp):
                continue
            try:
                meta = json.load(open(mp))
            except ValueError:
                continue
            sb = meta.get("still_breaks", True)
            if isinstance(sb, dict):
                sb = sb.get("status") != "neutralised"
            if meta.get("breaks_property") == prop_id and sb:
                seeds.append((x, os.path.join(sdir, x, "patch.diff")))
    return ref, seeds


def run(prop_id, mod, prog, ctx, jobs=16):
    mutants = list(getattr(mod, "MUTANTS", []))
    twins = list(getattr(mod, "TWINS", []))
    base_keys = {(i.rule, i.construct) for i in ctx.failures()}
    tasks = [(prop_id, prog.root, s, base_keys) for s in mutants + twins]
    results = []
    if tasks:
        with ProcessPoolExecutor(max_workers=min(jobs, len(tasks))) as ex:
            results = list(ex.map(_one, tasks))
    from .benign import KINDS
    with ProcessPoolExecutor(max_workers=len(KINDS)) as ex:
        benign = list(ex.map(_benign_one, [(prop_id, prog.root, k, base_keys) for k in KINDS]))
    base_keys0 = base_keys
    ref, seeds = _corpora(prop_id)
    with ProcessPoolExecutor(max_workers=jobs) as ex:
        pres = list(ex.map(_patch_one, [(prop_id, prog.root, pid, pth, base_keys0) for pid, pth in ref + seeds]))
    pmap = {r["id"]: r for r in pres}
    ref_res = [pmap[pid] for pid, _ in ref if pmap[pid]["status"] != "inapplicable"]
    seed_res = [pmap[pid] for pid, _ in seeds if pmap[pid]["status"] != "inapplicable"]
    res = {r["id"]: r for r in results}
    out = {"refactorings_applied": len(ref_res), "refactorings_silent": sum(1 for r in ref_res if r["status"] == "ran" and not r["reports"]),
           "noisy_refactorings": [{"id": r["id"], "reports": r.get("reports", [])[:4]} for r in ref_res if not (r["status"] == "ran" and not r["reports"])],
           "seeded_applied": len(seed_res), "seeded_reported": sum(1 for r in seed_res if r["status"] != "ran" or r["reports"]),
           "seeded_missed": [r["id"] for r in seed_res if r["status"] == "ran" and not r["reports"]],
           "mutants_applied": 0, "mutants_killed": 0, "mutants_inapplicable": 0, "twins_applied": 0,
           "twins_silent": 0, "missed": [], "noisy_twins": [], "detail": [],
           "benign_rewrites": {b["kind"]: ("silent" if b["silent"] else b["reports"][:4]) for b in benign},
           "benign_rewrites_silent": sum(1 for b in benign if b["silent"]), "benign_rewrites_applied": len(benign)}
    for s in mutants:
        r = res[s["id"]]
        if r["status"].startswith("inapplicable"):
            out["mutants_inapplicable"] += 1
            out["detail"].append({"id": s["id"], "status": r["status"]})
            continue
        out["mutants_applied"] += 1
        expect = s.get("expect")
        exp = [expect] if isinstance(expect, str) else list(expect or [])
        hit = (r["status"] == "analysis-error" or any(x.endswith(".SHAPE") for x in r.get("rules", []))) and s.get("accept_analysis_error") or any(
            e in r.get("rules", []) for e in exp) or (not exp and r.get("rules"))
        if hit:
            out["mutants_killed"] += 1
        else:
            out["missed"].append({"id": s["id"], "expect": expect, "reports": r.get("reports", [])})
        out["detail"].append({"id": s["id"], "status": "killed" if hit else "MISSED", "expect": expect,
                              "reports": r.get("reports", [])[:4], "note": s.get("note", "")})
    for s in twins:
        r = res[s["id"]]
        if r["status"].startswith("inapplicable"):
            out["detail"].append({"id": s["id"], "status": r["status"]})
            continue
        out["twins_applied"] += 1
        if r["status"] == "ran" and not r["reports"] and not r.get("undercounted"):
            out["twins_silent"] += 1
        else:
            out["noisy_twins"].append({"id": s["id"], "reports": r.get("reports", []) + r.get("undercounted", [])})
        out["detail"].append({"id": s["id"], "status": "twin", "reports": r.get("reports", [])[:4]})
    return out

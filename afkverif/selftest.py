"""Two-sided self-test of a property's rules on scratch copies of the analysed
tree (thorough tier).  Mutants are single realistic breaks that still compile;
each must make the named rule report.  Twins are behaviour-preserving rewrites
that must stay silent.  The result is recorded in evidence; it never turns a
clean tree into exit 1.  Scratch copies live under $TMPDIR and are removed.
"""
import ast
import os
import shutil
import tempfile
from concurrent.futures import ProcessPoolExecutor

from . import report
from .model import AnalysisError, Program


def _copy_tree(root, dst):
    os.makedirs(os.path.join(dst, "afkak"))
    src = os.path.join(root, "afkak")
    for f in os.listdir(src):
        if f.endswith(".py"):
            shutil.copy(os.path.join(src, f), os.path.join(dst, "afkak", f))


def _apply(dst, spec):
    """Apply one or more (file, old, new) edits; return None if inapplicable."""
    edits = spec.get("edits") or [(spec["file"], spec["old"], spec["new"])]
    for f, old, new in edits:
        p = os.path.join(dst, "afkak", f)
        with open(p) as fh:
            s = fh.read()
        if s.count(old) != 1:
            return "inapplicable: %s matches %d times in %s" % (repr(old[:40]), s.count(old), f)
        s = s.replace(old, new)
        try:
            ast.parse(s)
        except SyntaxError as e:
            return "inapplicable: edit does not parse (%s)" % e
        with open(p, "w") as fh:
            fh.write(s)
    return None


def _one(args):
    prop_id, root, spec, base_keys = args
    from .check import run_rules

    d = tempfile.mkdtemp(prefix="afkverif-", dir=os.environ.get("TMPDIR") or None)
    try:
        _copy_tree(root, d)
        err = _apply(d, spec)
        if err:
            return {"id": spec["id"], "status": err}
        try:
            ctx, _ = run_rules(prop_id, Program(d), "quick")
        except AnalysisError as e:
            return {"id": spec["id"], "status": "analysis-error", "reports": ["ANALYSIS-ERROR %s" % e]}
        new = [(i.rule, i.construct) for i in ctx.failures() if (i.rule, i.construct) not in base_keys]
        under = [r.rid for r in ctx.undercounted()]
        return {"id": spec["id"], "status": "ran", "reports": ["%s %s" % k for k in new],
                "rules": sorted({k[0] for k in new}), "undercounted": under}
    finally:
        shutil.rmtree(d, ignore_errors=True)


def _benign_one(args):
    prop_id, root, kind, base_keys = args
    from .benign import transform
    from .check import run_rules

    d = tempfile.mkdtemp(prefix="afkverif-", dir=os.environ.get("TMPDIR") or None)
    try:
        os.makedirs(os.path.join(d, "afkak"))
        src = os.path.join(root, "afkak")
        for f in os.listdir(src):
            if f.endswith(".py"):
                with open(os.path.join(src, f)) as fh:
                    text = fh.read()
                with open(os.path.join(d, "afkak", f), "w") as fh:
                    fh.write(transform(text, kind))
        try:
            ctx, _ = run_rules(prop_id, Program(d), "quick")
        except AnalysisError as e:
            return {"kind": kind, "silent": False, "reports": ["ANALYSIS-ERROR %s" % e]}
        new = ["%s %s" % (i.rule, i.construct) for i in ctx.failures() if (i.rule, i.construct) not in base_keys]
        under = [r.rid for r in ctx.undercounted()]
        return {"kind": kind, "silent": not new and not under, "reports": new + under}
    except SyntaxError as e:  # the tree itself does not parse: nothing to compare
        return {"kind": kind, "silent": True, "reports": ["skipped: %s" % e]}
    finally:
        shutil.rmtree(d, ignore_errors=True)


def run(prop_id, mod, prog, ctx, jobs=16):
    mutants = list(getattr(mod, "MUTANTS", []))
    twins = list(getattr(mod, "TWINS", []))
    base_keys = {(i.rule, i.construct) for i in ctx.failures()}
    tasks = [(prop_id, prog.root, s, base_keys) for s in mutants + twins]
    results = []
    if tasks:
        with ProcessPoolExecutor(max_workers=min(jobs, len(tasks))) as ex:
            results = list(ex.map(_one, tasks))
    from .benign import KINDS
    with ProcessPoolExecutor(max_workers=len(KINDS)) as ex:
        benign = list(ex.map(_benign_one, [(prop_id, prog.root, k, base_keys) for k in KINDS]))
    res = {r["id"]: r for r in results}
    out = {"mutants_applied": 0, "mutants_killed": 0, "mutants_inapplicable": 0, "twins_applied": 0,
           "twins_silent": 0, "missed": [], "noisy_twins": [], "detail": [],
           "benign_rewrites": {b["kind"]: ("silent" if b["silent"] else b["reports"][:4]) for b in benign},
           "benign_rewrites_silent": sum(1 for b in benign if b["silent"]), "benign_rewrites_applied": len(benign)}
    for s in mutants:
        r = res[s["id"]]
        if r["status"].startswith("inapplicable"):
            out["mutants_inapplicable"] += 1
            out["detail"].append({"id": s["id"], "status": r["status"]})
            continue
        out["mutants_applied"] += 1
        expect = s.get("expect")
        exp = [expect] if isinstance(expect, str) else list(expect or [])
        hit = (r["status"] == "analysis-error" or any(x.endswith(".SHAPE") for x in r.get("rules", []))) and s.get("accept_analysis_error") or any(
            e in r.get("rules", []) for e in exp) or (not exp and r.get("rules"))
        if hit:
            out["mutants_killed"] += 1
        else:
            out["missed"].append({"id": s["id"], "expect": expect, "reports": r.get("reports", [])})
        out["detail"].append({"id": s["id"], "status": "killed" if hit else "MISSED", "expect": expect,
                              "reports": r.get("reports", [])[:4], "note": s.get("note", "")})
    for s in twins:
        r = res[s["id"]]
        if r["status"].startswith("inapplicable"):
            out["detail"].append({"id": s["id"], "status": r["status"]})
            continue
        out["twins_applied"] += 1
        if r["status"] == "ran" and not r["reports"] and not r.get("undercounted"):
            out["twins_silent"] += 1
        else:
            out["noisy_twins"].append({"id": s["id"], "reports": r.get("reports", []) + r.get("undercounted", [])})
        out["detail"].append({"id": s["id"], "status": "twin", "reports": r.get("reports", [])[:4]})
    return out

"""Debug helper: python3-vt -m afkverif.dump <qname> : print CFG + must-facts."""
import sys
from .model import Program
from .cfg import CFG

def main():
    p = Program()
    if len(sys.argv) < 2:
        for q in sorted(p.funcs):
            print(q)
        return
    f = p.func(sys.argv[1])
    c = CFG(f)
    facts, unreach = c.must_facts(p)
    for n in c.nodes:
        fs = sorted("%s%s" % ("" if pol else "!", t) for t, pol in facts[n.id] if len(t) < 60)
        print("%3d %-6s L%-4d %-70s -> %s %s" % (n.id, n.kind, n.lineno, n.text(70),
              [(t, (l[0] if l else None) if not (l and l[0]=='cond') else ('T' if l[2] else 'F')) for t, l in c.succ[n.id]], 'S' if n.suspends else ''))
        if '-f' in sys.argv:
            print("       facts:", fs)
main()

"""Positional association of sequences (symbolic, syntax-directed).

Several rules need to know that "the i-th result belongs to the i-th request": code keeps that association in
parallel lists appended in lock-step, in one list of pairs, through comprehensions over such lists, through
`DeferredList(...)` (whose i-th result is that of its i-th member) and through `zip`.  This module gives every
list built inside ONE loop a *shape*: (loop node id, symbolic element), the element being what the list holds for the
iteration that added it:

    ("iter", loop id, name)      the loop variable `name` of that iteration
    ("call", ast.Call)           the value a call made in that iteration returned (e.g. the request's Deferred)
    ("tuple", [elements])        a tuple of such values
    ("dlres", element)           the (flag, value) pair DeferredList reports for the Deferred `element`
    ("flag", e) / ("value", e)   the two halves of a dlres pair
    ("opaque", text)             anything else

A list has a shape only when exactly one element is added per iteration, unconditionally, and nothing else mutates it;
everything else is reported as shapeless (None) and the caller's rule then fails closed.
"""
import ast

from .model import unparse, walk_body_shallow


def _loop_body_ids(cfg, loop):
    return cfg.reach([loop.id], avoid=[t for t, lab in cfg.succ[loop.id] if lab == ("iter", False)])


class Seq(object):
    def __init__(self, ctx, func):
        self.ctx = ctx
        self.func = func
        self.cfg = ctx.cfg(func)
        self.loops = [n for n in self.cfg.nodes if n.kind == "for"]
        self._shape = {}

    # ---------------------------------------------------------------- symbolic values inside one loop iteration
    def sym(self, e, loop, env=None, _depth=0):
        env = env or {}
        if isinstance(e, ast.Name):
            if e.id in env:
                return env[e.id]
            tnames = {x.id for x in ast.walk(loop.stmt.target) if isinstance(x, ast.Name)}
            if e.id in tnames:
                return ("iter", loop.id, e.id)
            body = _loop_body_ids(self.cfg, loop)
            defs = [self.cfg.nodes[i] for i in body if self.cfg.nodes[i].kind == "stmt" and isinstance(self.cfg.nodes[i].stmt, ast.Assign) and any(
                isinstance(t, ast.Name) and t.id == e.id for t in self.cfg.nodes[i].stmt.targets)]
            if len(defs) == 1 and _depth < 4:
                v = defs[0].stmt.value
                if isinstance(v, ast.Yield) and v.value is not None:
                    v = v.value
                if isinstance(v, ast.Call):
                    return ("call", v)
                return self.sym(v, loop, env, _depth + 1)
            return ("opaque", e.id)
        if isinstance(e, ast.Tuple):
            return ("tuple", [self.sym(x, loop, env, _depth) for x in e.elts])
        if isinstance(e, ast.Call):
            return ("call", e)
        return ("opaque", unparse(e))

    @staticmethod
    def bind(pattern, value, env):
        """Destructure `value` by an assignment target; returns False when the shapes do not fit."""
        if isinstance(pattern, ast.Name):
            env[pattern.id] = value
            return True
        if isinstance(pattern, (ast.Tuple, ast.List)):
            if value[0] == "tuple" and len(value[1]) == len(pattern.elts):
                return all(Seq.bind(p, v, env) for p, v in zip(pattern.elts, value[1]))
            if value[0] == "dlres" and len(pattern.elts) == 2:
                return Seq.bind(pattern.elts[0], ("flag", value[1]), env) and Seq.bind(pattern.elts[1], ("value", value[1]), env)
        return False

    # ---------------------------------------------------------------- shapes
    def shape_of_name(self, name):
        if name in self._shape:
            return self._shape[name]
        self._shape[name] = None
        self._shape[name] = self._compute(name)
        return self._shape[name]

    def _compute(self, name):
        cfg = self.cfg
        inits, muts = [], []
        for n in cfg.nodes:
            st = n.stmt
            if n.kind == "stmt" and isinstance(st, ast.Assign) and any(isinstance(t, ast.Name) and t.id == name for t in st.targets):
                inits.append(n)
            elif n.kind == "stmt" and isinstance(st, (ast.AugAssign, ast.AnnAssign)) and isinstance(st.target, ast.Name) and st.target.id == name:
                return None
            for c in n.calls():
                if isinstance(c.func, ast.Attribute) and isinstance(c.func.value, ast.Name) and c.func.value.id == name and c.func.attr in (
                        "append", "extend", "insert", "pop", "remove", "clear", "sort", "reverse", "__setitem__"):
                    muts.append((n, c))
            if n.kind == "stmt" and isinstance(st, (ast.Delete,)) and any(name in unparse(t) for t in st.targets):
                return None
            if n.kind == "stmt" and isinstance(st, ast.Assign) and any(isinstance(t, ast.Subscript) and isinstance(t.value, ast.Name) and t.value.id == name
                                                                      for t in st.targets):
                return None
        if len(inits) != 1:
            return None
        v = inits[0].stmt.value
        if isinstance(v, ast.Yield) and v.value is not None:
            v = v.value
        sh = self.shape_of_expr(v)
        if sh is not None:
            return sh if not muts else None
        empty = (isinstance(v, ast.List) and not v.elts) or (isinstance(v, ast.Call) and unparse(v.func) == "list" and not v.args)
        if not empty or len(muts) != 1 or muts[0][1].func.attr != "append" or len(muts[0][1].args) != 1:
            return None
        an, ac = muts[0]
        holder = [lp for lp in self.loops if an.id in _loop_body_ids(cfg, lp)]
        if not holder:
            return None
        # innermost loop that contains the append
        loop = min(holder, key=lambda lp: len(_loop_body_ids(cfg, lp)))
        body_start = [t for t, lab in cfg.succ[loop.id] if lab == ("iter", True)]
        if loop.id in cfg.reach(body_start, avoid=[an.id], follow_exc=False) or an.id == loop.id:
            return None  # some iteration can complete without adding
        if not cfg.dominates([inits[0].id], loop.id) or inits[0].id in _loop_body_ids(cfg, loop):
            return None
        # `continue`/`break` before the add would skip it: covered by the reach test above for continue; break leaves the
        # loop with fewer elements in *every* list built after it only if they sit before the break - keep it simple:
        if any(isinstance(x, ast.Break) for x in ast.walk(loop.stmt)):
            return None
        return (loop.id, self.sym(ac.args[0], loop))

    def shape_of_expr(self, e):
        """Shape of a list-valued expression: a name, `[elt for pat in <shaped>]`, `list(<shaped>)`,
        `DeferredList(<shaped>, ...)`."""
        if isinstance(e, ast.Name):
            return self.shape_of_name(e.id)
        if isinstance(e, ast.Call) and unparse(e.func).split(".")[-1] in ("list", "tuple") and len(e.args) == 1:
            return self.shape_of_expr(e.args[0])
        if isinstance(e, ast.Call) and unparse(e.func).split(".")[-1] == "DeferredList" and e.args:
            sh = self.shape_of_expr(e.args[0])
            if sh is None:
                return None
            return (sh[0], ("dlres", sh[1]))
        if isinstance(e, ast.Call) and isinstance(e.func, ast.Attribute) and e.func.attr in ("values", "keys", "items") and not e.args and isinstance(
                e.func.value, ast.Name):
            # the views of a mapping that ONE loop of this function walks with `.items()`: the i-th value / key belongs to
            # the i-th iteration of that loop, provided the mapping is not changed from that loop on
            d = e.func.value.id
            walkers = [lp for lp in self.loops if unparse(lp.stmt.iter) == "%s.items()" % d and isinstance(lp.stmt.target, ast.Tuple) and len(
                lp.stmt.target.elts) == 2 and all(isinstance(x, ast.Name) for x in lp.stmt.target.elts)]
            if len(walkers) != 1:
                return None
            lp = walkers[0]
            after = self.cfg.reach([lp.id], include_src=True)
            for i in after:
                n = self.cfg.nodes[i]
                st = n.stmt
                if n.kind == "stmt" and isinstance(st, (ast.Assign, ast.AugAssign, ast.Delete)):
                    tg = st.targets if isinstance(st, (ast.Assign, ast.Delete)) else [st.target]
                    if any((isinstance(t, ast.Subscript) and unparse(t.value) == d) or (isinstance(t, ast.Name) and t.id == d) for t in tg):
                        return None
                for c in n.calls():
                    if isinstance(c.func, ast.Attribute) and unparse(c.func.value) == d and c.func.attr in ("pop", "popitem", "clear", "update", "setdefault", "__setitem__"):
                        return None
            k, v = [x.id for x in lp.stmt.target.elts]
            elem = {"values": ("iter", lp.id, v), "keys": ("iter", lp.id, k), "items": ("tuple", [("iter", lp.id, k), ("iter", lp.id, v)])}[e.func.attr]
            return (lp.id, elem)
        if isinstance(e, (ast.ListComp, ast.GeneratorExp)) and len(e.generators) == 1 and not e.generators[0].ifs:
            g = e.generators[0]
            sh = self.shape_of_expr(g.iter)
            if sh is None:
                return None
            env = {}
            if not self.bind(g.target, sh[1], env):
                return None
            loop = self.cfg.nodes[sh[0]]
            return (sh[0], self.sym(e.elt, loop, env))
        return None

    def zip_env(self, loop_node):
        """For `for <targets> in zip(A, B, ...)` (or a loop over one shaped list): the symbolic value of every name the
        targets bind, provided all operands are built over the same loop.  None when they are not aligned."""
        it = loop_node.stmt.iter
        ops = None
        if isinstance(it, ast.Call) and unparse(it.func) == "zip":
            ops = list(it.args)
            tg = loop_node.stmt.target
            if not (isinstance(tg, (ast.Tuple, ast.List)) and len(tg.elts) == len(ops)):
                return None
            pats = list(tg.elts)
        else:
            ops, pats = [it], [loop_node.stmt.target]
        shapes = [self.shape_of_expr(o) for o in ops]
        if any(s is None for s in shapes) or len({s[0] for s in shapes}) != 1:
            return None
        env = {}
        for p, s in zip(pats, shapes):
            if not self.bind(p, s[1], env):
                return None
        env["#loop"] = shapes[0][0]
        return env

"""Program model: parsed units, class table with in-package MRO, function table
(nested defs and lambdas included), callee resolution, attribute access index.

Nothing here imports afkak.  A missing anchor raises AnalysisError, which the
CLI turns into exit status 2 (never a silent pass, never a VIOLATION).
"""
import ast
import os

UNITS = (
    "__init__",
    "_group",
    "_protocol",
    "_util",
    "brokerclient",
    "client",
    "codec",
    "common",
    "consumer",
    "kafkacodec",
    "partitioner",
    "producer",
)

# Receiver types `ast` cannot see.  One reason each (DESIGN.md section 3.A).
RECEIVER_TYPES = {
    # constructor parameter documented as KafkaClient
    ("producer:Producer", "self.client"): "client:KafkaClient",
    ("consumer:Consumer", "self.client"): "client:KafkaClient",
    ("_group:Coordinator", "self.client"): "client:KafkaClient",
    ("_group:ConsumerGroup", "self.client"): "client:KafkaClient",
    # self.protocol = _ConsumerProtocol() in Coordinator.__init__
    ("_group:Coordinator", "self.protocol"): "_group:_ConsumerProtocol",
    ("_group:ConsumerGroup", "self.protocol"): "_group:_ConsumerProtocol",
    # only constructor call site of _KafkaBrokerClient is _get_brokerclient
    ("client:KafkaClient", "broker"): "brokerclient:_KafkaBrokerClient",
    ("client:KafkaClient", "brokerClient"): "brokerclient:_KafkaBrokerClient",
    ("client:KafkaClient", "self.clients[node_id]"): "brokerclient:_KafkaBrokerClient",
    # protocol = KafkaProtocol class attribute of the factory
    ("brokerclient:_KafkaBrokerClient", "self.proto"): "_protocol:KafkaProtocol",
    ("_protocol:KafkaProtocol", "self.factory"): "brokerclient:_KafkaBrokerClient",
    # ConsumerGroup.consumers[.][.] : only append site constructs a Consumer
    ("_group:ConsumerGroup", "consumer"): "consumer:Consumer",
}

MUTATORS = {
    "append", "extend", "insert", "pop", "popitem", "remove", "clear",
    "update", "setdefault", "add", "discard", "sort", "reverse",
}


class AnalysisError(Exception):
    """The analysis itself cannot proceed (vanished anchor, parse error...)."""


class ShapeError(AnalysisError):
    """An anchored function exists but the mechanism a rule looks for inside it is
    gone or unrecognisable.  Reported as a violation of the property's SHAPE rule
    (the mechanism the property relies on was removed), not as an analysis error."""


def walk_shallow(node, include_root=True):
    """ast.walk that does not descend into nested function/class scopes."""
    stack = [node]
    first = True
    while stack:
        n = stack.pop()
        if not first and isinstance(n, (ast.FunctionDef, ast.AsyncFunctionDef, ast.Lambda, ast.ClassDef)):
            yield n  # the def itself is visible, its body is not
            continue
        if include_root or not first:
            yield n
        first = False
        stack.extend(reversed(list(ast.iter_child_nodes(n))))


def walk_body_shallow(stmts):
    for s in stmts:
        for n in walk_shallow(s, include_root=True) if not isinstance(
            s, (ast.FunctionDef, ast.AsyncFunctionDef, ast.ClassDef)
        ) else [s]:
            yield n


def unparse(node):
    try:
        return ast.unparse(node)
    except Exception:  # pragma: no cover
        return "<?>"


def attr_chain(node):
    """'self.a.b' for Attribute/Name chains, else None."""
    parts = []
    while isinstance(node, ast.Attribute):
        parts.append(node.attr)
        node = node.value
    if isinstance(node, ast.Name):
        parts.append(node.id)
        return ".".join(reversed(parts))
    return None


def self_attr(node):
    """Return X for an expression `self.X`, else None."""
    if isinstance(node, ast.Attribute) and isinstance(node.value, ast.Name) and node.value.id == "self":
        return node.attr
    return None


class Func(object):
    def __init__(self, qname, name, node, module, cls, parent):
        self.qname = qname
        self.name = name
        self.node = node
        self.module = module
        self.cls = cls  # ClassInfo or None (enclosing class, also for nested defs)
        self.parent = parent  # enclosing Func or None
        self.nested = {}  # name -> Func
        self.lambdas = []  # Funcs for lambdas, in source order

    @property
    def is_lambda(self):
        return isinstance(self.node, ast.Lambda)

    @property
    def body(self):
        if self.is_lambda:
            r = ast.Return(value=self.node.body)
            ast.copy_location(r, self.node.body)
            return [r]
        return self.node.body

    @property
    def params(self):
        a = self.node.args
        return [x.arg for x in list(a.posonlyargs) + list(a.args)] + (
            [a.vararg.arg] if a.vararg else []
        ) + [x.arg for x in a.kwonlyargs] + ([a.kwarg.arg] if a.kwarg else [])

    @property
    def decorators(self):
        if self.is_lambda:
            return []
        return [unparse(d) for d in self.node.decorator_list]

    @property
    def is_inline_callbacks(self):
        return any(d.split(".")[-1] == "inlineCallbacks" for d in self.decorators)

    @property
    def is_generator(self):
        return any(isinstance(n, (ast.Yield, ast.YieldFrom)) for n in walk_body_shallow(self.body))

    @property
    def lineno(self):
        return getattr(self.node, "lineno", 0)

    def first_param(self):
        """First non-self/cls parameter (the result/failure of a handler)."""
        ps = self.params
        if ps and ps[0] in ("self", "cls") and self.parent is None:
            ps = ps[1:]
        return ps[0] if ps else None

    def loc(self):
        return "afkak/%s.py:%d" % (self.module.name, self.lineno)

    def __repr__(self):
        return "<Func %s>" % self.qname


class ClassInfo(object):
    def __init__(self, name, module, node):
        self.name = name
        self.module = module
        self.node = node
        self.base_names = [unparse(b) for b in node.bases]
        self.methods = {}  # name -> Func (own methods, last definition wins)
        self.all_defs = {}  # name -> [Func] (conditional duplicate definitions)
        self.class_attrs = {}  # name -> value expr

    @property
    def qual(self):
        return "%s:%s" % (self.module.name, self.name)


class Module(object):
    def __init__(self, name, path, src):
        self.name = name
        self.path = path
        self.src = src
        try:
            self.tree = ast.parse(src, filename=path)
        except SyntaxError as e:
            raise AnalysisError("unit %s does not parse: %s" % (path, e))
        # behaviour-preserving normalisation (helpers that are not part of the reference tree are inlined)
        from . import normalize
        self.normalize_log = normalize.inline_new_constants(self.tree, name)
        self.normalize_log += normalize.unroll_table_dispatch(self.tree)
        self.normalize_log += normalize.drain_loops_to_for(self.tree)
        self.normalize_log += normalize.inline_callable_aliases(self.tree)
        self.normalize_log += normalize.inline_new_helpers(self.tree, name)
        self.normalize_log += normalize.inline_callable_aliases(self.tree)
        self.normalize_log += normalize.scalarize_tuple_locals(self.tree)
        self.normalize_log += normalize.split_tuple_assignments(self.tree)
        self.normalize_log += normalize.eta_reduce_callbacks(self.tree)
        self.normalize_log += normalize.desugar_struct_objects(self.tree)
        self.normalize_log += normalize.unroll_reflective_loops(self.tree)
        self.normalize_log += normalize.fold_single_use_conditions(self.tree)
        self.normalize_log += normalize.thread_flags(self.tree)
        self.normalize_log += normalize.strip_passthrough_wrappers(self.tree, name)
        self.wrapped = getattr(self.tree, "_wrapped", {})  # id(expr node) -> pass-through wrapper it was handed to
        self.funcs = {}
        self.classes = {}
        self.imports = {}  # local name -> (module short name or None, original name)
        self.constants = {}  # NAME -> value expr (module level simple assigns)
        self.lines = src.splitlines()


class Program(object):
    def __init__(self, root=None):
        self.root = root or os.environ.get("VERIF_REPO", "/repo")
        self.pkg = os.path.join(self.root, "afkak")
        if not os.path.isdir(self.pkg):
            raise AnalysisError("package directory %s not found" % self.pkg)
        self.modules = {}
        self.funcs = {}
        self.classes = {}
        present = sorted(f[:-3] for f in os.listdir(self.pkg) if f.endswith(".py"))
        for name in present:
            path = os.path.join(self.pkg, name + ".py")
            with open(path, encoding="utf-8") as fh:
                src = fh.read()
            m = Module(name, path, src)
            self.modules[name] = m
            self._index_module(m)
        missing = [u for u in UNITS if u not in self.modules]
        if missing:
            raise AnalysisError("expected unit(s) missing from afkak/: %s" % ", ".join(missing))
        self._writes_memo = {}
        self.n_nodes = sum(sum(1 for _ in ast.walk(m.tree)) for m in self.modules.values())

    # ------------------------------------------------------------------ index
    def _index_module(self, m):
        for st in m.tree.body:
            self._index_stmt(m, st)

    def _index_stmt(self, m, st):
        if isinstance(st, (ast.Import, ast.ImportFrom)):
            self._index_import(m, st)
        elif isinstance(st, (ast.FunctionDef, ast.AsyncFunctionDef)):
            f = self._make_func(m, None, None, st, "%s:%s" % (m.name, st.name))
            m.funcs[st.name] = f
        elif isinstance(st, ast.ClassDef):
            ci = ClassInfo(st.name, m, st)
            m.classes[st.name] = ci
            self.classes[ci.qual] = ci
            self._index_class_body(m, ci, st.body)
        elif isinstance(st, ast.Assign) and len(st.targets) == 1 and isinstance(st.targets[0], ast.Name):
            m.constants[st.targets[0].id] = st.value
        elif isinstance(st, (ast.If, ast.Try)):
            for sub in ast.iter_child_nodes(st):
                if isinstance(sub, ast.stmt):
                    self._index_stmt(m, sub)
                elif isinstance(sub, ast.ExceptHandler):
                    for s2 in sub.body:
                        self._index_stmt(m, s2)

    def _index_class_body(self, m, ci, body):
        for st in body:
            if isinstance(st, (ast.FunctionDef, ast.AsyncFunctionDef)):
                f = self._make_func(m, ci, None, st, "%s:%s.%s" % (m.name, ci.name, st.name))
                if st.name in ci.methods:
                    # conditional duplicate (e.g. HashedPartitioner._hash): keep both
                    k = len(ci.all_defs[st.name]) + 1
                    f.qname = "%s#%d" % (f.qname, k)
                    self.funcs[f.qname] = f
                ci.all_defs.setdefault(st.name, []).append(f)
                ci.methods[st.name] = f
            elif isinstance(st, ast.Assign) and len(st.targets) == 1 and isinstance(st.targets[0], ast.Name):
                ci.class_attrs[st.targets[0].id] = st.value
            elif isinstance(st, ast.AnnAssign) and isinstance(st.target, ast.Name) and st.value is not None:
                ci.class_attrs[st.target.id] = st.value
            elif isinstance(st, ast.If):
                self._index_class_body(m, ci, st.body)
                self._index_class_body(m, ci, st.orelse)

    def _index_import(self, m, st):
        if isinstance(st, ast.ImportFrom):
            mod = st.module or ""
            short = None
            if st.level >= 1:
                short = mod.split(".")[-1] if mod else None
            elif mod.startswith("afkak."):
                short = mod.split(".")[-1]
            elif mod == "afkak":
                short = "__init__"
            for a in st.names:
                m.imports[a.asname or a.name] = (short, a.name, mod)
        else:
            for a in st.names:
                m.imports[a.asname or a.name.split(".")[0]] = (None, a.name, a.name)

    def _make_func(self, m, ci, parent, node, qname):
        name = getattr(node, "name", "<lambda>")
        f = Func(qname, name, node, m, ci, parent)
        self.funcs[qname] = f
        # nested defs and lambdas (shallow walk of this function's own scope)
        body = node.body if isinstance(node.body, list) else [node.body]
        k = 0
        for st in body:
            for n in walk_shallow(st) if not isinstance(st, (ast.FunctionDef, ast.AsyncFunctionDef)) else [st]:
                if isinstance(n, (ast.FunctionDef, ast.AsyncFunctionDef)):
                    g = self._make_func(m, ci, f, n, "%s.%s" % (qname, n.name))
                    f.nested[n.name] = g
                elif isinstance(n, ast.Lambda):
                    k += 1
                    g = self._make_func(m, ci, f, n, "%s.<lambda#%d>" % (qname, k))
                    f.lambdas.append(g)
        # lambdas in default args / decorators are ignored on purpose
        return f

    # ---------------------------------------------------------------- lookup
    def module(self, name):
        try:
            return self.modules[name]
        except KeyError:
            raise AnalysisError("unit afkak/%s.py not found" % name)

    def func(self, qname):
        try:
            return self.funcs[qname]
        except KeyError:
            raise AnalysisError("anchor function %s not found" % qname)

    def has_func(self, qname):
        return qname in self.funcs

    def cls(self, qual):
        try:
            return self.classes[qual]
        except KeyError:
            raise AnalysisError("anchor class %s not found" % qual)

    def mro(self, ci):
        out = [ci]
        for b in ci.base_names:
            bci = self._class_by_name(ci.module, b)
            if bci is not None:
                for x in self.mro(bci):
                    if x not in out:
                        out.append(x)
        return out

    def _class_by_name(self, module, name):
        name = name.split(".")[-1]
        if name in module.classes:
            return module.classes[name]
        imp = module.imports.get(name)
        if imp and imp[0] and imp[0] in self.modules:
            return self.modules[imp[0]].classes.get(imp[1])
        return None

    def method(self, ci, name, skip_own=False):
        for c in self.mro(ci)[1 if skip_own else 0:]:
            if name in c.methods:
                return c.methods[name]
        return None

    def subclasses(self, ci):
        return [c for c in self.classes.values() if c is not ci and ci in self.mro(c)]

    def functions(self, module=None, cls=None):
        for f in self.funcs.values():
            if module and f.module.name != module:
                continue
            if cls and (f.cls is None or f.cls.name != cls):
                continue
            yield f

    # ------------------------------------------------------------ resolution
    def resolve_callable(self, func, expr):
        """Resolve an expression denoting a callable to a Func (or None)."""
        if isinstance(expr, ast.Lambda):
            for holder in self._scope_chain(func):
                for lf in holder.lambdas:
                    if lf.node is expr:
                        return lf
            return None
        if isinstance(expr, ast.Call):
            fn = unparse(expr.func)
            if fn.split(".")[-1] == "partial" and expr.args:
                return self.resolve_callable(func, expr.args[0])
            return None
        if isinstance(expr, ast.Name):
            for holder in self._scope_chain(func):
                if expr.id in holder.nested:
                    return holder.nested[expr.id]
            m = func.module
            if expr.id in m.funcs:
                return m.funcs[expr.id]
            imp = m.imports.get(expr.id)
            if imp and imp[0] in self.modules:
                tm = self.modules[imp[0]]
                if imp[1] in tm.funcs:
                    return tm.funcs[imp[1]]
                if imp[1] in tm.classes:
                    return self.method(tm.classes[imp[1]], "__init__")
            if expr.id in m.classes:
                return self.method(m.classes[expr.id], "__init__")
            return None
        if isinstance(expr, ast.Attribute):
            recv = expr.value
            rtxt = unparse(recv)
            if isinstance(recv, ast.Name) and recv.id in ("self", "cls") and func.cls is not None:
                return self.method(func.cls, expr.attr)
            if isinstance(recv, ast.Call) and unparse(recv.func) == "super" and func.cls is not None:
                return self.method(func.cls, expr.attr, skip_own=True)
            if isinstance(recv, ast.Name):
                ci = self._class_by_name(func.module, recv.id)
                if ci is not None:
                    return self.method(ci, expr.attr)
            if func.cls is not None:
                for c in self.mro(func.cls):
                    t = RECEIVER_TYPES.get((c.qual, rtxt))
                    if t and t in self.classes:
                        return self.method(self.classes[t], expr.attr)
            return None
        return None

    def resolve_call(self, func, call):
        return self.resolve_callable(func, call.func)

    def _scope_chain(self, func):
        f = func
        while f is not None:
            yield f
            f = f.parent

    def class_of(self, func):
        return func.cls

    # ------------------------------------------------------------ attr index
    def direct_writes(self, func):
        """self.<attr> names written/mutated directly in func's own scope.
        Returns dict attr -> list of (kind, node)."""
        out = {}
        for n in walk_body_shallow(func.body):
            for kind, attr, node in _writes_of_node(n):
                out.setdefault(attr, []).append((kind, node))
        return out

    def writes(self, func, _stack=None):
        """Transitive write summary: attrs of self written by func or by the
        self-methods / nested functions it *calls* (not merely registers)."""
        if func.qname in self._writes_memo:
            return self._writes_memo[func.qname]
        _stack = _stack or set()
        if func.qname in _stack:
            return set()
        _stack = _stack | {func.qname}
        out = set(self.direct_writes(func))
        for n in walk_body_shallow(func.body):
            if isinstance(n, ast.Call):
                callee = self.resolve_call(func, n)
                if callee is not None and callee.cls is not None and func.cls is not None and (
                    callee.cls in self.mro(func.cls) or func.cls in self.mro(callee.cls)
                ):
                    out |= self.writes(callee, _stack)
        if len(_stack) == 1:
            self._writes_memo[func.qname] = out
        return out

    def attr_accesses(self, ci, attr, include_subclasses=True):
        """All (func, kind, node) touching self.<attr> in the class (and
        subclasses/superclasses in package).  kind in read/write/aug/del/mutate."""
        classes = set(self.mro(ci))
        if include_subclasses:
            classes |= set(self.subclasses(ci))
        out = []
        for f in self.funcs.values():
            if f.cls not in classes:
                continue
            for n in walk_body_shallow(f.body):
                for kind, a, node in _writes_of_node(n):
                    if a == attr:
                        out.append((f, kind, node))
                if isinstance(n, ast.Attribute) and isinstance(n.ctx, ast.Load) and self_attr(n) == attr:
                    out.append((f, "read", n))
        return out

    def calls_to(self, target_pred, within=None):
        """All (func, call) whose resolved callee or call text satisfies pred."""
        out = []
        for f in self.funcs.values():
            if within and not within(f):
                continue
            for n in walk_body_shallow(f.body):
                if isinstance(n, ast.Call) and target_pred(f, n):
                    out.append((f, n))
        return out


def _targets(t):
    if isinstance(t, (ast.Tuple, ast.List)):
        for e in t.elts:
            for x in _targets(e):
                yield x
    elif isinstance(t, ast.Starred):
        for x in _targets(t.value):
            yield x
    else:
        yield t


def _writes_of_node(n):
    """Yield (kind, attr, node) for writes to self.<attr> performed by node n
    itself (not its children)."""
    if isinstance(n, ast.Assign):
        for t0 in n.targets:
            for t in _targets(t0):
                a = self_attr(t)
                if a:
                    yield ("write", a, n)
                elif isinstance(t, ast.Subscript) and self_attr(t.value):
                    yield ("mutate", self_attr(t.value), n)
    elif isinstance(n, ast.AugAssign):
        a = self_attr(n.target)
        if a:
            yield ("aug", a, n)
        elif isinstance(n.target, ast.Subscript) and self_attr(n.target.value):
            yield ("mutate", self_attr(n.target.value), n)
    elif isinstance(n, ast.AnnAssign) and n.value is not None:
        a = self_attr(n.target)
        if a:
            yield ("write", a, n)
    elif isinstance(n, ast.Delete):
        for t in n.targets:
            a = self_attr(t)
            if a:
                yield ("del", a, n)
            elif isinstance(t, ast.Subscript) and self_attr(t.value):
                yield ("mutate", self_attr(t.value), n)
    elif isinstance(n, ast.Call) and isinstance(n.func, ast.Attribute) and n.func.attr in MUTATORS:
        a = self_attr(n.func.value)
        if a:
            yield ("mutate", a, n)
        elif isinstance(n.func.value, ast.Subscript) and self_attr(n.func.value.value):
            yield ("mutate", self_attr(n.func.value.value), n)
    elif isinstance(n, (ast.For, ast.comprehension)):
        for t in _targets(n.target):
            a = self_attr(t)
            if a:
                yield ("write", a, n)


def local_writes_of_stmt(st):
    """Names (locals) and self attrs assigned by statement st itself
    (shallow: does not look into nested statements' bodies)."""
    names = set()
    nodes = [st]
    for n in nodes:
        if isinstance(n, ast.Assign):
            for t0 in n.targets:
                for t in _targets(t0):
                    c = attr_chain(t)
                    if c:
                        names.add(c)
                    elif isinstance(t, ast.Subscript):
                        c = attr_chain(t.value)
                        if c:
                            names.add(c)
        elif isinstance(n, (ast.AugAssign, ast.AnnAssign)):
            c = attr_chain(n.target)
            if c:
                names.add(c)
        elif isinstance(n, ast.Delete):
            for t in n.targets:
                c = attr_chain(t if not isinstance(t, ast.Subscript) else t.value)
                if c:
                    names.add(c)
        elif isinstance(n, (ast.For,)):
            for t in _targets(n.target):
                c = attr_chain(t)
                if c:
                    names.add(c)
        elif isinstance(n, ast.With):
            for it in n.items:
                if it.optional_vars is not None:
                    for t in _targets(it.optional_vars):
                        c = attr_chain(t)
                        if c:
                            names.add(c)
    return names

"""CLI: python3-vt -m afkverif.check <Cnn|all> [--tier quick|thorough] [--replay path]

exit 0  every rule instance holds (known findings printed as KNOWN-FINDING)
exit 1  + 'VIOLATION property=<id> replay=<path>' for a failing instance not in known_findings.json
exit 2  + 'ANALYSIS-ERROR ...' when an anchor vanished, a unit does not parse, a rule matched fewer
        instances than confirmed by hand, or the checker itself raised
"""
import argparse
import importlib
import json
import os
import sys
import time
import traceback

from . import report
from .model import AnalysisError, Program, ShapeError

PROPS = ["C%02d" % i for i in range(1, 21)]


def load_rules(prop_id):
    return importlib.import_module("afkverif.rules.%s" % prop_id.lower())


def run_rules(prop_id, prog, tier, quiet=True):
    mod = load_rules(prop_id)
    ctx = report.Ctx(prop_id, prog, tier, quiet=quiet)
    try:
        mod.run(ctx)
        _run_shared(prop_id, mod, prog, tier, ctx)
    except ShapeError as e:
        # the anchored function is there but the mechanism inside it is not: a violation, not an analysis problem
        r = ctx.rule("SHAPE", "the mechanism each rule is anchored on is present in its anchored function", 0, "A")
        r.fail("mechanism-missing: %s" % e, "expected mechanism not found: %s" % e, "",
               "the construct that makes the property hold was removed or rewritten beyond recognition")
        ctx.aborted = str(e)
    except AnalysisError as e:
        # a rule already reported a failing instance and a later rule then lost
        # its anchor (typical for a broken tree): the failure stands.
        if not ctx.failures():
            raise
        ctx.aborted = str(e)
    return ctx, mod


_SHARED_CACHE = {}


def _run_shared(prop_id, mod, prog, tier, ctx):
    """Rules of neighbouring properties that this property also depends on (SHARED = [("C09", ["R2"], why)]): the
    neighbour's module is run on the same program and the selected rules' instances are adopted under this
    property's id (rule `<this>.<other>.<rid>`), so that each property's own check reports a broken shared mechanism."""
    for other, rids, why in getattr(mod, "SHARED", []):
        key = (id(prog), other)
        octx = _SHARED_CACHE.get(key)
        if octx is None:
            omod = load_rules(other)
            octx = report.Ctx(other, prog, tier, quiet=True)
            try:
                omod.run(octx)
            except ShapeError as e:
                r0 = octx.rule("SHAPE", "mechanism present", 0, "A")
                r0.fail("mechanism-missing: %s" % e, "expected mechanism not found: %s" % e)
            _SHARED_CACHE.clear()
            _SHARED_CACHE[key] = octx
        for orule in octx.rules:
            short = orule.rid.split(".", 1)[1]
            if short in rids or (short == "SHAPE" and orule.instances):
                nr = ctx.rule("%s.%s" % (other, short), "[shared with %s: %s] %s" % (other, why, orule.title), 0, orule.engine)
                for inst in orule.instances:
                    nr.instances.append(report.Instance(nr.rid, inst.construct, inst.where, inst.verdict, inst.facts, inst.what, inst.witness))
        ctx.functions_consulted |= octx.functions_consulted


def run_property(prop_id, tier, root=None, out=sys.stdout):
    t0 = time.time()
    known = report.load_known()
    try:
        prog = Program(root)
        ctx, mod = run_rules(prop_id, prog, tier, quiet=False)
        under = [] if ctx.aborted else ctx.undercounted()
        if under and report.split_known(prop_id, ctx.failures(), known)[1]:
            # a rule already reports a failing instance that is not a known finding: the violation stands, the
            # reduced instance count is a consequence of the changed construct
            ctx.aborted = "instance count of %s below the confirmed minimum" % ", ".join(r.rid for r in under)
            under = []
        if under:
            for r in under:
                print("ANALYSIS-ERROR property=%s rule %s matched %d instance(s), expected at least %d (%s)" % (
                    prop_id, r.rid, r.n, r.min_instances, r.title), file=out)
            return 2
        extra = {}
        if tier == "thorough":
            from . import selftest

            extra["selftest"] = selftest.run(prop_id, mod, prog, ctx)
            # independent cross-check of the guard-fact engine on every function this property consulted
            tot = {"functions": 0, "paths": 0, "node_visits": 0, "mismatches": [], "truncated": []}
            for q in sorted(ctx.functions_consulted):
                if q not in prog.funcs:
                    continue
                n_p, n_c, mm, tr = ctx.cfg(prog.funcs[q]).replay_paths(prog)
                tot["functions"] += 1
                tot["paths"] += n_p
                tot["node_visits"] += n_c
                tot["mismatches"] += [list(m) for m in mm]
                if tr:
                    tot["truncated"].append(q)
            extra["path_replay"] = tot
            if tot["mismatches"]:
                print("ANALYSIS-ERROR property=%s guard facts disagree with explicit path replay: %s" % (prop_id, tot["mismatches"][:3]), file=out)
                return 2
            deep = getattr(mod, "thorough", None)
            if deep is not None:
                deep(ctx)
                under = ctx.undercounted()
                if under:
                    for r in under:
                        print("ANALYSIS-ERROR property=%s rule %s matched %d instance(s), expected >= %d" % (
                            prop_id, r.rid, r.n, r.min_instances), file=out)
                    return 2
    except AnalysisError as e:
        print("ANALYSIS-ERROR property=%s %s" % (prop_id, e), file=out)
        return 2
    except Exception:
        tb = traceback.format_exc()
        print("ANALYSIS-ERROR property=%s checker raised:\n%s" % (prop_id, tb), file=out)
        return 2

    failures = ctx.failures()
    known_hits, new_fail = report.split_known(prop_id, failures, known)
    n_inst = len(ctx.all_instances())
    print("property %s tier=%s root=%s units=%d functions=%d cfg_nodes=%d rules=%d instances=%d" % (
        prop_id, tier, prog.root, len(prog.modules), len(prog.funcs), ctx.cfg_nodes, len(ctx.rules), n_inst),
        file=out)
    for r in ctx.rules:
        nf = len([i for i in r.instances if i.verdict == "FAIL"])
        print("  %-9s %-3s instances=%-3d failed=%d  %s" % (r.rid, r.engine, r.n, nf, r.title), file=out)
        for t in r.infos:
            print("      info: %s" % t, file=out)
    if ctx.aborted:
        print("  analysis stopped early after a failing instance: %s" % ctx.aborted, file=out)
    for i in known_hits:
        print("KNOWN-FINDING: property=%s %s %s -- %s [%s]" % (prop_id, i.rule, i.construct, i.what, i.where),
              file=out)
    wall = time.time() - t0
    report.write_evidence(
        prop_id, tier, ctx, wall, known_hits, new_fail,
        explanation=getattr(mod, "EXPLANATION", ""),
        assumptions=getattr(mod, "ASSUMPTIONS", []),
        extra=extra,
    )
    if "selftest" in extra:
        st = extra["selftest"]
        print("  self-test: mutants applied=%d killed=%d inapplicable=%d; twins applied=%d silent=%d" % (
            st["mutants_applied"], st["mutants_killed"], st["mutants_inapplicable"], st["twins_applied"],
            st["twins_silent"]), file=out)
        print("  self-test: whole-package benign rewrites silent=%d/%d %s" % (st["benign_rewrites_silent"], st["benign_rewrites_applied"],
              {k: v for k, v in st["benign_rewrites"].items() if v != "silent"} or ""), file=out)
        print("  self-test: sub-agent refactorings silent=%d/%d; seeded changes of this property reported=%d/%d %s" % (
            st.get("refactorings_silent", 0), st.get("refactorings_applied", 0), st.get("seeded_reported", 0), st.get("seeded_applied", 0),
            (st.get("noisy_refactorings") or "") if st.get("noisy_refactorings") else ("missed: %s" % st["seeded_missed"] if st.get("seeded_missed") else "")),
            file=out)
        pr = extra.get("path_replay", {})
        print("  path replay: %d functions, %d explicit paths, %d node visits, %d mismatches" % (
            pr.get("functions", 0), pr.get("paths", 0), pr.get("node_visits", 0), len(pr.get("mismatches", []))), file=out)
        for m in st["missed"]:
            print("  self-test MISSED mutant %s (expected %s)" % (m["id"], m["expect"]), file=out)
        for m in st["noisy_twins"]:
            print("  self-test NOISY twin %s -> %s" % (m["id"], m["reports"]), file=out)
    if new_fail:
        path = report.write_violations(prop_id, new_fail, prog.root)
        for i in new_fail:
            print("  FAIL %s %s [%s]\n       %s%s" % (i.rule, i.construct, i.where, i.what,
                                                       ("\n       witness: " + i.witness) if i.witness else ""),
                  file=out)
        print("VIOLATION property=%s replay=%s" % (prop_id, path), file=out)
        return 1
    stale = os.path.join(report.EVIDENCE_DIR, "%s.violations.json" % prop_id)
    if os.path.exists(stale):
        os.remove(stale)
    print("OK property=%s (%d obligations, %d known finding(s)) %.2fs" % (prop_id, n_inst, len(known_hits), wall),
          file=out)
    return 0


def replay(path):
    with open(path) as fh:
        data = json.load(fh)
    root = data.get("analysed_root", "/repo")
    for v in data["violations"]:
        print("%s %s [%s]\n    %s" % (v["rule"], v["construct"], v.get("where", ""), v.get("what", "")))
        if v.get("witness"):
            print("    witness: " + v["witness"])
        w = v.get("where", "")
        if ":" in w:
            f, _, ln = w.partition(":")
            try:
                ln = int(ln)
                with open(os.path.join(root, f)) as fh:
                    lines = fh.read().splitlines()
                for k in range(max(0, ln - 3), min(len(lines), ln + 3)):
                    print("    %5d| %s" % (k + 1, lines[k]))
            except (ValueError, OSError):
                pass
    return 0


def main(argv=None):
    ap = argparse.ArgumentParser(prog="afkverif.check")
    ap.add_argument("prop", nargs="?", default="all")
    ap.add_argument("--tier", default=os.environ.get("VERIF_TIER", "quick"), choices=["quick", "thorough"])
    ap.add_argument("--root", default=None, help="analysed repository root (default $VERIF_REPO or /repo)")
    ap.add_argument("--replay", default=None)
    a = ap.parse_args(argv)
    if a.replay:
        return replay(a.replay)
    props = PROPS if a.prop == "all" else [a.prop.upper()]
    rc = 0
    for p in props:
        try:
            r = run_property(p, a.tier, a.root)
        except ModuleNotFoundError as e:
            print("ANALYSIS-ERROR property=%s no rule module (%s)" % (p, e))
            r = 2
        rc = max(rc, r) if rc != 1 else 1
        if r == 1:
            rc = 1
    return rc


if __name__ == "__main__":
    try:
        code = main()
    except SystemExit:
        raise
    except BaseException:
        print("ANALYSIS-ERROR checker raised:\n" + traceback.format_exc())
        code = 2
    sys.stdout.flush()
    sys.exit(code)

"""The wire-format oracle: request and response layouts of the APIs and versions
afkak implements, transcribed by hand from the Kafka protocol guide
(https://kafka.apache.org/protocol) *independently of kafkacodec.py*; see
DESIGN.md appendix A.  Same term language as afkverif.wireshape.

Encoder leaves carry the canonical source they must be bound to; decoder leaves
the struct attribute they must reach ("-" = decoded and discarded, None = not
checked).
"""

I8, I16, I32, I64, U32 = "INT8", "INT16", "INT32", "INT64", "UINT32"


def P(t, b):
    return ("P", t, b)


def S(b, kind=None):
    """STRING leaf; kind = required text encoding of the reader/writer ("text" = UTF-8) or None = not checked"""
    return ("STR", b, kind)


def T(b):
    return S(b, "text")


def B(b):
    return ("BYTES", b)


def A(over, *elems):
    return ("ARRAY", over, list(elems))


API_KEYS = {"Produce": 0, "Fetch": 1, "ListOffsets": 2, "Metadata": 3, "OffsetCommit": 8, "OffsetFetch": 9,
            "FindCoordinator": 10, "JoinGroup": 11, "Heartbeat": 12, "LeaveGroup": 13, "SyncGroup": 14, "ApiVersions": 18}

GROUPED = "<grouped payloads>"
BYTOPIC = "<bytopic payloads>"

# encoder function -> (api name, header version spec, body terms)
# version spec: int = constant in the header; "negotiated" = the clamped negotiated version (0 or 2)
REQUESTS = {
    "encode_produce_request": ("Produce", "negotiated", [
        P(I16, "acks"), P(I32, "timeout"),
        A(GROUPED, S("<topic>"), A(BYTOPIC, P(I32, "<partition>"), ("SIZED", ("MSGSET", "<payload>.messages"))))]),
    "encode_fetch_request": ("Fetch", "negotiated", [
        P(I32, "-1"), P(I32, "max_wait_time"), P(I32, "min_bytes"),
        A(GROUPED, S("<topic>"), A(BYTOPIC, P(I32, "<partition>"), P(I64, "<payload>.offset"), P(I32, "<payload>.max_bytes")))]),
    "encode_offset_request": ("ListOffsets", 0, [
        P(I32, "-1"),
        A(GROUPED, S("<topic>"), A(BYTOPIC, P(I32, "<partition>"), P(I64, "<payload>.time"), P(I32, "<payload>.max_offsets")))]),
    "encode_metadata_request": ("Metadata", 0, [A("topics", S("<each topics>"))]),
    "encode_offset_commit_request": ("OffsetCommit", 1, [
        T("group"), P(I32, "group_generation_id"), T("consumer_id"),
        A(GROUPED, S("<topic>"), A(BYTOPIC, P(I32, "<partition>"), P(I64, "<payload>.offset"), P(I64, "<payload>.timestamp"),
                                   S("<payload>.metadata")))]),
    "encode_offset_fetch_request": ("OffsetFetch", 1, [
        T("group"), A(GROUPED, S("<topic>"), A(BYTOPIC, P(I32, "<partition>")))]),
    "encode_consumermetadata_request": ("FindCoordinator", 0, [T("consumer_group")]),
    "encode_join_group_request": ("JoinGroup", 0, [
        T("payload.group"), P(I32, "payload.session_timeout"), T("payload.member_id"), T("payload.protocol_type"),
        A("payload.group_protocols", S("<each payload.group_protocols>.protocol_name"),
          B("<each payload.group_protocols>.protocol_metadata"))]),
    "encode_sync_group_request": ("SyncGroup", 0, [
        T("payload.group"), P(I32, "payload.generation_id"), T("payload.member_id"),
        A("payload.group_assignment", T("<each payload.group_assignment>.member_id"),
          B("<each payload.group_assignment>.member_metadata"))]),
    "encode_heartbeat_request": ("Heartbeat", 0, [T("payload.group"), P(I32, "payload.generation_id"), T("payload.member_id")]),
    "encode_leave_group_request": ("LeaveGroup", 0, [T("payload.group"), T("payload.member_id")]),
    "encode_api_versions_request": ("ApiVersions", 0, []),
}

# embedded consumer-protocol blobs (no request header)
BLOB_ENCODERS = {
    "encode_join_group_protocol_metadata": [P(I16, "version"), A("subscriptions", T("<each subscriptions>")), B("user_data")],
    "encode_sync_group_member_assignment": [
        P(I16, "version"), A("assignments", S("<key assignments>"), A("<value assignments>", P(I32, "<each <value assignments>>"))),
        B("user_data")],
}

HEADER = [P(I16, "<api key>"), P(I16, "<api version>"), P(I32, "correlation_id"), S("client_id")]

# decoder function (qualified within KafkaCodec; nested per-version functions as name.vN) -> terms after the
# correlation id (INT32, discarded)
CORR = P(I32, "-")
RESPONSES = {
    "decode_produce_response.v0": [CORR, A(None, S("ProduceResponse.topic"), A(None, P(I32, "ProduceResponse.partition"),
                                                                              P(I16, "ProduceResponse.error"), P(I64, "ProduceResponse.offset")))],
    "decode_produce_response.v2": [CORR, A(None, S("ProduceResponse.topic"), A(None, P(I32, "ProduceResponse.partition"),
                                                                              P(I16, "ProduceResponse.error"), P(I64, "ProduceResponse.offset"), P(I64, "-"))),
                                   P(I32, "-")],
    "decode_offset_response": [CORR, A(None, S("OffsetResponse.topic"), A(None, P(I32, "OffsetResponse.partition"), P(I16, "OffsetResponse.error"),
                                                                          A(None, P(I64, "OffsetResponse.offsets"))))],
    "decode_metadata_response": [CORR,
                                 A(None, P(I32, "BrokerMetadata.node_id"), S("BrokerMetadata.host"), P(I32, "BrokerMetadata.port")),
                                 A(None, P(I16, "TopicMetadata.topic_error_code"), S("TopicMetadata.topic"),
                                   A(None, P(I16, "PartitionMetadata.partition_error_code"), P(I32, "PartitionMetadata.partition"),
                                     P(I32, "PartitionMetadata.leader"), A(None, P(I32, "PartitionMetadata.replicas")),
                                     A(None, P(I32, "PartitionMetadata.isr"))))],
    "decode_offset_commit_response": [CORR, A(None, S("OffsetCommitResponse.topic"), A(None, P(I32, "OffsetCommitResponse.partition"),
                                                                                      P(I16, "OffsetCommitResponse.error")))],
    "decode_offset_fetch_response": [CORR, A(None, S("OffsetFetchResponse.topic"), A(None, P(I32, "OffsetFetchResponse.partition"),
                                                                                    P(I64, "OffsetFetchResponse.offset"), S("OffsetFetchResponse.metadata"),
                                                                                    P(I16, "OffsetFetchResponse.error")))],
    "decode_consumermetadata_response": [CORR, P(I16, "ConsumerMetadataResponse.error"), P(I32, "ConsumerMetadataResponse.node_id"),
                                         S("ConsumerMetadataResponse.host"), P(I32, "ConsumerMetadataResponse.port")],
    "decode_join_group_response": [CORR, P(I16, "_JoinGroupResponse.error"), P(I32, "_JoinGroupResponse.generation_id"),
                                   T("_JoinGroupResponse.group_protocol"), T("_JoinGroupResponse.leader_id"), T("_JoinGroupResponse.member_id"),
                                   A(None, T("_JoinGroupResponseMember.member_id"), B("_JoinGroupResponseMember.member_metadata"))],
    "decode_sync_group_response": [CORR, P(I16, "_SyncGroupResponse.error"), B("_SyncGroupResponse.member_assignment")],
    "decode_heartbeat_response": [CORR, P(I16, "_HeartbeatResponse.error")],
    "decode_leave_group_response": [CORR, P(I16, "_LeaveGroupResponse.error")],
    "decode_api_versions_response": [CORR, P(I16, "ApiVersionResponse.error_code"),
                                     A(None, P(I16, "ApiVersion.api_key"), P(I16, "ApiVersion.min_version"), P(I16, "ApiVersion.max_version"))],
    "decode_join_group_protocol_metadata": [P(I16, "_JoinGroupProtocolMetadata.version"), A(None, T("_JoinGroupProtocolMetadata.subscriptions")),
                                            B("_JoinGroupProtocolMetadata.user_data")],
    "decode_sync_group_member_assignment": [P(I16, "_SyncGroupMemberAssignment.version"),
                                            A(None, S(None), A(None, P(I32, "_SyncGroupMemberAssignment.assignments"))),
                                            B("_SyncGroupMemberAssignment.user_data")],
}
# Fetch: one function, the header part selected by the version
FETCH_RESPONSE = {
    0: [CORR],
    2: [CORR, P(I32, "-")],
    "body": [A(None, S("FetchResponse.topic"), A(None, P(I32, "FetchResponse.partition"), P(I16, "FetchResponse.error"),
                                                 P(I64, "FetchResponse.highwaterMark"), B("FetchResponse.messages")))],
}

# Message formats (1-byte fields are written unsigned by afkak: same bytes for the values 0..127 used)
BYTE1 = ("INT8", "UINT8")
MESSAGE = {
    0: [("P", U32, "crc"), ("P", BYTE1, "magic"), ("P", BYTE1, "attributes"), B("key"), B("value")],
    1: [("P", U32, "crc"), ("P", BYTE1, "magic"), ("P", BYTE1, "attributes"), ("P", I64, "timestamp"), B("key"), B("value")],
}
# MessageSet entry: offset INT64, message size INT32, message; not count-prefixed
MESSAGE_SET_ENTRY = [P(I64, "offset"), P(I32, "len(message)")]

MURMUR2 = {"seed": 0x9747B28C, "m": 0x5BD1E995, "r": 24, "shift1": 13, "shift2": 15, "positive": 0x7FFFFFFF}

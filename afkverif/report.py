"""Rule-instance bookkeeping, known findings, evidence files, exit protocol."""
import json
import os
import time

from .model import AnalysisError

VERIF_DIR = os.path.dirname(os.path.dirname(os.path.abspath(__file__)))
KNOWN_PATH = os.path.join(VERIF_DIR, "known_findings.json")
EVIDENCE_DIR = os.path.join(VERIF_DIR, "evidence")


def load_known():
    try:
        with open(KNOWN_PATH) as fh:
            data = json.load(fh)
    except FileNotFoundError:
        return {"known": [], "fixed": []}
    return {"known": data.get("known", []), "fixed": data.get("fixed", [])}


class Instance(object):
    __slots__ = ("rule", "construct", "where", "verdict", "facts", "what", "witness")

    def __init__(self, rule, construct, where, verdict, facts=(), what="", witness=""):
        self.rule, self.construct, self.where = rule, construct, where
        self.verdict, self.facts, self.what, self.witness = verdict, list(facts), what, witness

    def as_dict(self):
        d = {"rule": self.rule, "construct": self.construct, "where": self.where, "verdict": self.verdict}
        if self.facts:
            d["facts"] = self.facts
        if self.what:
            d["what"] = self.what
        if self.witness:
            d["witness"] = self.witness
        return d


class Rule(object):
    def __init__(self, ctx, rid, title, min_instances=1, engine=""):
        self.ctx, self.rid, self.title, self.min_instances, self.engine = ctx, rid, title, min_instances, engine
        self.instances = []
        self.infos = []

    def ok(self, construct, where="", facts=()):
        self.instances.append(Instance(self.rid, construct, where, "ok", facts))

    def fail(self, construct, what, where="", witness="", facts=()):
        self.instances.append(Instance(self.rid, construct, where, "FAIL", facts, what, witness))

    def check(self, cond, construct, what, where="", witness="", facts=()):
        if cond:
            self.ok(construct, where, facts)
        else:
            self.fail(construct, what, where, witness, facts)
        return bool(cond)

    def info(self, text):
        self.infos.append(text)

    @property
    def n(self):
        return len(self.instances)


class Ctx(object):
    """One run of one property's rules against one program."""

    def __init__(self, prop_id, prog, tier="quick", quiet=False):
        self.prop_id, self.prog, self.tier, self.quiet = prop_id, prog, tier, quiet
        self.rules = []
        self.functions_consulted = set()
        self.cfg_nodes = 0
        self._cfgs = {}
        self._facts = {}
        self.extra = {}
        self.aborted = None
        from .rules import util as _u
        _u.set_current_program(prog)

    def rule(self, rid, title, min_instances=1, engine=""):
        r = Rule(self, "%s.%s" % (self.prop_id, rid), title, min_instances, engine)
        self.rules.append(r)
        return r

    # --- cached CFGs / facts -------------------------------------------------
    def func(self, qname):
        f = self.prog.func(qname)
        self.functions_consulted.add(f.qname)
        return f

    def cfg(self, func):
        from .cfg import CFG

        c = self._cfgs.get(func.qname)
        if c is None:
            c = self._cfgs[func.qname] = CFG(func)
            self.cfg_nodes += len(c.nodes)
            self.functions_consulted.add(func.qname)
        return c

    def facts(self, func, kill_on_suspend=True):
        key = (func.qname, kill_on_suspend)
        if key not in self._facts:
            from .cfg import close_facts
            raw = self.cfg(func).must_facts(self.prog, kill_on_suspend=kill_on_suspend)[0]
            self._facts[key] = {k: close_facts(v) for k, v in raw.items()}
        return self._facts[key]

    # --- results -------------------------------------------------------------
    def all_instances(self):
        return [i for r in self.rules for i in r.instances]

    def failures(self):
        return [i for i in self.all_instances() if i.verdict == "FAIL"]

    def undercounted(self):
        if self.aborted:
            return []
        return [r for r in self.rules if r.n < r.min_instances]


def split_known(prop_id, failures, known):
    kn, new = [], []
    keys = {(k["property"], k["rule"], k["construct"]) for k in known["known"]}
    for f in failures:
        (kn if (prop_id, f.rule, f.construct) in keys else new).append(f)
    return kn, new


def write_evidence(prop_id, tier, ctx, wall_s, known_hits, new_fail, explanation, assumptions, extra=None):
    os.makedirs(EVIDENCE_DIR, exist_ok=True)
    inst = ctx.all_instances()
    distinct = {(i.rule, i.construct) for i in inst if i.facts}
    samples = []
    seen_rules = set()
    for i in inst:  # one sample per rule first, then failures
        if i.rule not in seen_rules:
            seen_rules.add(i.rule)
            samples.append(i.as_dict())
    for i in inst:
        if i.verdict == "FAIL" and i.as_dict() not in samples:
            samples.append(i.as_dict())
    cov = {
        "explanation": explanation,
        "obligations": len(inst),
        "discharged": len([i for i in inst if i.verdict == "ok"]) + len(known_hits),
        "evaluations": len(inst),
        "distinct_nontrivial": len(distinct),
        "rule": "one obligation per matched rule instance (construct found in /repo source by the rule's "
        "pattern over AST/CFG/call graph); non-trivial = verdict consulted at least one CFG, dataflow, "
        "call-graph or chain fact (facts list non-empty); distinct = by (rule id, construct key)",
        "samples": samples[:60],
        "checker_cmd": "python3-vt -m afkverif.check %s --tier %s" % (prop_id, tier),
        "trusted_base": [
            "CPython ast module (parser of the analysed sources)",
            "Twisted Deferred semantics table (DESIGN.md section 3.C)",
            "receiver-type table in afkverif/model.py (RECEIVER_TYPES)",
        ],
        "units_analysed": sorted(ctx.prog.modules),
        "functions_in_program": len(ctx.prog.funcs),
        "functions_consulted": sorted(ctx.functions_consulted),
        "cfg_nodes_built": ctx.cfg_nodes,
        "rules": {
            r.rid: {"title": r.title, "engine": r.engine, "instances": r.n, "min_instances": r.min_instances,
                    "failed": len([i for i in r.instances if i.verdict == "FAIL"]), "info": r.infos[:10]}
            for r in ctx.rules
        },
        "known_findings_matched": [i.as_dict() for i in known_hits],
        "exhaustive": True,
    }
    if extra:
        cov.update(extra)
    ev = {
        "property_id": prop_id,
        "tier": tier,
        "seed": int(os.environ.get("VERIF_SEED", "0") or 0),
        "level": "other",
        "coverage": cov,
        "assumptions": assumptions,
        "wall_s": round(wall_s, 3),
        "violations": len(new_fail),
    }
    path = os.path.join(EVIDENCE_DIR, "%s.json" % prop_id)
    with open(path, "w") as fh:
        json.dump(ev, fh, indent=1, sort_keys=True)
        fh.write("\n")
    return path


def write_violations(prop_id, new_fail, root):
    path = os.path.join(EVIDENCE_DIR, "%s.violations.json" % prop_id)
    with open(path, "w") as fh:
        json.dump({"property": prop_id, "analysed_root": root, "violations": [i.as_dict() for i in new_fail]},
                  fh, indent=1)
        fh.write("\n")
    return path


__all__ = ["AnalysisError", "Ctx", "Rule", "Instance", "load_known", "split_known", "write_evidence",
           "write_violations", "time"]
